---------------------------- MODULE PrintUsing_MC ----------------------------
(* Self-check of PrintUsing.tla and source of the field shapes the driver uses.
   (1) Every well-formed numeric field built from the grammar
         [+] [** | **$ | $$] [# {# | ,}] [. {#}] [^^^^] [+ | -]
       with at most MaxPos digit positions is parsed back by ParseNum into exactly its components.
   (2) The digit-sequence operators (Inc, Group, DigitsOK) agree with integer arithmetic on small numbers.
   When the environment variable SHAPES_FILE is set the field texts are written there (JSON): the driver
   takes its exhaustive field enumeration from this specification, not from a grammar of its own.     *)
EXTENDS PrintUsing, TLC, Json, IOUtils, SequencesExt
CONSTANTS MaxPos, MaxNum
VARIABLES sh, m

Pre == {<<>>, <<cStar, cStar>>, <<cStar, cStar, cDollar>>, <<cDollar, cDollar>>}
PrePos(p) == IF p = <<>> THEN 0 ELSE IF p[1] = cStar THEN 2 ELSE 1
Runs == {<<>>} \cup UNION {{<<cHash>> \o r : r \in [1..(k - 1) -> {cHash, cComma}]} : k \in 1..MaxPos}
Shapes == {s \in [plus : BOOLEAN, pre : Pre, run : Runs, dot : BOOLEAN, nd : 0..MaxPos, sci : BOOLEAN,
                  trail : {0, cPlus, cMinus}] :
              /\ s.trail # 0 => ~s.plus
              /\ s.nd > 0 => s.dot
              /\ PrePos(s.pre) + Len(s.run) + s.nd \in 1..MaxPos}
Build(s) == (IF s.plus THEN <<cPlus>> ELSE <<>>) \o s.pre \o s.run
            \o (IF s.dot THEN <<cDot>> \o Rep(cHash, s.nd) ELSE <<>>)
            \o (IF s.sci THEN Rep(cCaret, 4) ELSE <<>>)
            \o (IF s.trail # 0 THEN <<s.trail>> ELSE <<>>)
Default == [plus |-> FALSE, pre |-> <<>>, run |-> <<cHash>>, dot |-> FALSE, nd |-> 0, sci |-> FALSE, trail |-> 0]

Init == (sh \in Shapes /\ m = 0) \/ (sh = Default /\ m \in 1..MaxNum)
Next == UNCHANGED <<sh, m>>
Spec == Init /\ [][Next]_<<sh, m>>

ParseLaw ==
    LET f == Build(sh)
        p == ParseNum(f)
    IN  /\ p.ok /\ p.width = Len(f)
        /\ p.plus = sh.plus /\ p.trail = sh.trail /\ p.sci = sh.sci /\ p.dot = sh.dot /\ p.dec = sh.nd
        /\ p.star = (sh.pre # <<>> /\ sh.pre[1] = cStar)
        /\ p.dollar = (sh.pre # <<>> /\ sh.pre[Len(sh.pre)] = cDollar)
        /\ p.before = PrePos(sh.pre) + Len(sh.run)
        /\ p.comma = (\E i \in 1..Len(sh.run) : sh.run[i] = cComma)
        \* a field is not also a string field, and a text with a foreign character is not a field
        /\ ~ParseStr(f).ok
        /\ ~ParseNum(f \o <<cHash + 30>>).ok

\* ---- digit sequences against integers -------------------------------------
RECURSIVE ToDigits(_)
ToDigits(n) == IF n < 10 THEN <<n>> ELSE ToDigits(n \div 10) \o <<n % 10>>
RECURSIVE ToNat(_)
ToNat(d) == IF d = <<>> THEN 0 ELSE 10 * ToNat(SubSeq(d, 1, Len(d) - 1)) + d[Len(d)]
RECURSIVE StripTrail(_)
StripTrail(d) == IF d # <<>> /\ d[Len(d)] = 0 THEN StripTrail(SubSeq(d, 1, Len(d) - 1)) ELSE d
Abs(x) == IF x < 0 THEN -x ELSE x
Pow10(n) == 10 ^ n
\* the exact value m/8 = (125 m) / 1000
XD == StripTrail(ToDigits(125 * m))
XE == Len(ToDigits(125 * m)) - 3

DigitLaw ==
    /\ ToNat(Inc(ToDigits(m))) = m + 1
    /\ ToNat(Inc(<<0>> \o ToDigits(m))) = m + 1
    /\ LET g == Group(ToDigits(m))
           n == Len(ToDigits(m))
       IN  /\ Len(g) = n + (n - 1) \div 3
           /\ DigitsOf(g) = ToDigits(m)
           /\ \A i \in 1..Len(g) : (g[i] = cComma) = ((Len(g) - i + 1) % 4 = 0)
    \* rounding m/8 at 10^q, q = 0, -1, -2: exactly the nearest (either neighbour at a tie)
    /\ \A q \in {0, 1, 2} : \A S \in Max2(0, (m * Pow10(q)) \div 8 - 3)..((m * Pow10(q)) \div 8 + 3) :
          DigitsOK(ToDigits(S), -q, XD, XE, 7) = (Abs(8 * S - m * Pow10(q)) <= 4)
    \* more digits shown than the conversion is accurate to (P = 2): within one unit of the 2nd significant digit
    /\ LET L == Len(ToDigits(m))
       IN  L > 2 => \A S \in Max2(0, m - 25)..(m + 25) :
              DigitsOK(ToDigits(S), 0, StripTrail(ToDigits(m)), L, 2)
                  = (Abs(S \div Pow10(L - 2) - m \div Pow10(L - 2)) <= 1)
    /\ FracCmp(ToDigits(m), ToDigits(m) \o <<0>>) = 0
    /\ FracCmp(ToDigits(m) \o <<1>>, ToDigits(m)) = 1

\* ---- a few fixed points of the rebuilt texts (GW-BASIC manual / recorded GW-BASIC outputs) ----
T(str) == str     \* texts are given as byte sequences below
F(f, neg, S) == FixedAdmitted(ParseNum(f), neg, S)
ASSUME F(<<35,35,46,35,35>>, FALSE, <<7,8>>) = {<<32,48,46,55,56>>}                      \* "##.##" .78 -> " 0.78"
ASSUME F(<<35,35,35>>, TRUE, <<1,2,3>>) = {<<37,45,49,50,51>>}                            \* "###" -123 -> "%-123"
ASSUME F(<<42,42,35,35>>, TRUE, <<1>>) = {<<42,42,45,49>>}                                \* "**##" -1 -> "**-1"
ASSUME F(<<36,36,35,35>>, TRUE, <<1,0>>) = {<<45,36,49,48>>}                              \* "$$##" -10 -> "-$10"
ASSUME F(<<35,35,44,44,35>>, FALSE, <<1,1,0,0,0>>) = {<<37,49,49,44,48,48,48>>}           \* "##,,#" 11000 -> "%11,000"
ASSUME F(<<35,35,35,35,45>>, TRUE, <<1>>) = {<<32,32,32,49,45>>}                          \* "####-" -1 -> "   1-"
ASSUME F(<<46,35,35>>, FALSE, <<0,0>>) = {<<46,48,48>>}                                     \* ".##" 0 -> ".00" (it fits: no %)
ASSUME SciAdmitted(ParseNum(<<35,35,46,35,35,35,94,94,94,94>>), FALSE, <<1,0,0,0>>, 69, 45, 0, 1)
         = {<<32,49,46,48,48,48,69,45,48,49>>}                                            \* "##.###^^^^" .1 -> " 1.000E-01"
ASSUME SciAdmitted(ParseNum(<<35,46,35,35,35,35,94,94,94,94>>), FALSE, <<1,0,0,0>>, 69, 43, 0, 0)
         = {<<48,46,49,48,48,48,69,43,48,48>>}                                            \* "#.####^^^^" .1 -> "0.1000E+00"
ASSUME NumVerdict(<<35,35,35,35,46>>, FALSE, <<9,9,9,9,9,9,9>>, 1, 7, <<32,32,49,48,46>>) = "ok"  \* "####." 9.999999 -> "  10."
ASSUME NumVerdict(<<35,35,35,35,46>>, FALSE, <<9,9,9,9,9,9,9>>, 1, 7, <<32,32,32,57,46>>) = "digits"
ASSUME StrVerdict(<<92,32,92>>, <<97,98,99,100,101>>, <<97,98,99>>) = "ok"                \* "\ \" abcde -> abc

\* " # "; 1,2,3 -> " 1  2  3 "     "abc #"; 1; 2 -> "abc 1abc 2"     "_# #"; 2 -> "# 2"    (recorded GW-BASIC outputs)
One(n) == [t |-> "n", neg |-> FALSE, xd |-> <<n>>, xe |-> 1, p |-> 7]
ASSUME LineVerdict(<<97,35,98>>, <<One(1), One(2), One(3)>>, <<97,49,98,97,50,98,97,51,98>>) = "ok"
ASSUME LineVerdict(<<97,98,99,58,35>>, <<One(1), One(2)>>, <<97,98,99,58,49,97,98,99,58,50>>) = "ok"
ASSUME LineVerdict(<<95,35,97,35>>, <<One(2)>>, <<35,97,50>>) = "ok"
ASSUME LineVerdict(<<97,35,98,35,99>>, <<One(1)>>, <<97,49,98>>) = "ok"
ASSUME LineVerdict(<<97,35,98,35,99>>, <<One(1)>>, <<97,49,98,99>>) = "line_length"
ASSUME LineVerdict(<<97,33,98,38>>, <<[t |-> "s", v |-> <<120,121>>], [t |-> "s", v |-> <<120,121>>]>>, <<97,120,98,120,121>>) = "ok"

ASSUME IF "SHAPES_FILE" \in DOMAIN IOEnv
       THEN JsonSerialize(IOEnv.SHAPES_FILE, [shapes |-> SetToSeq({Build(s) : s \in Shapes})])
       ELSE TRUE
=============================================================================
