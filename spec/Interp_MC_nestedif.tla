------------------------------ MODULE Interp_MC_nestedif ------------------------------
EXTENDS Interp_MCF
VARIABLES s, hist
INSTANCE Interp_MCrun WITH Family <- NestedIfFamily
=============================================================================
