------------------------------ MODULE Interp_MCrun ------------------------------
(* The exploration part shared by all family models: the program (index pi) is chosen in Init, every
   execution is explored, the declared expectation is compared when the program has stopped.           *)
EXTENDS Integers, Sequences, FiniteSets, TLC, Json
CONSTANT Family          \* set of programs, each with tag.expect
VARIABLES s, hist
I == INSTANCE Interp
vars == <<s, hist>>
\* every program of the family is also printed as JSON so that the harness can run it on the real interpreter
Init == \E p \in Family : PrintT(<<"PROGRAM", ToJson(p)>>) /\ s = I!Start(p) /\ hist = <<>>
Next == /\ s.run
        /\ \E t \in {u \in I!Steps(s) : ~u.kf} : s' = t /\ hist' = hist \o t.out     \* (kf: branch of a listed deviation, not the property)
Spec == Init /\ [][Next]_vars

\* when a program of the family has stopped, it ended normally and printed exactly the declared sequence
Expected == ~s.run => /\ hist = s.prog.tag.expect
                      /\ s.stat.k = s.prog.tag.endk
                      /\ s.stat.k = "error" => /\ s.stat.code = s.prog.tag.code
                                               /\ s.prog.tag.line = -1 \/ s.stat.line = s.prog.tag.line
\* no execution of a family program leaves the fragment, and stacks stay bounded
InFragment == ~s.frag
Bounded == Len(s.fors) <= 3 /\ Len(s.gosubs) <= 5 /\ Len(s.whiles) <= 3
=============================================================================
