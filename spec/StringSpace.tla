----------------------------- MODULE StringSpace -----------------------------
(* String variables and the compacting string space (property C10), functional-core style.

   TWO LAYERS.
   (1) REFERENCE LAYER  ref : Cells -> string.  A cell is a string scalar or an element of a string
       array.  Eval / Do give the value every statement of the fragment assigns (LET with literals,
       variables, concatenation, LEFT$/RIGHT$/MID$, DEF FN calls; MID$=, LSET, RSET, SWAP, ERASE, DIM,
       FRE, CLEAR), the errors the semantics demands (String too long 15, Illegal function call 5) and
       Need(): the string bytes the statement may legitimately occupy (every value on its evaluation
       stack).  The FRE equation and the "Out of string space only when the free space is insufficient"
       clause are stated on this layer (FreeAfterGC, MayRunOut).  ONLY THIS LAYER JUDGES THE CODE
       (StringSpace_Trace).
   (2) IMPLEMENTATION-SHAPED LAYER  m = [cur, tmp, strs, ptr, leaks, bad]: the string space of
       values/strings.py + memory/memory.py transcribed action by action (Store with check_free,
       DeleteLast, ResetTemps, FixTemps, Collect with the sentinel re-addressing, is_permanent and the
       deep copy in LET, in-place MID$=/LSET/RSET, the argument protection of LEFT$/RIGHT$/MID$, the
       parameter save of DEF FN).  TLC checks it against the reference layer in StringSpace_MC
       (refinement invariants); a disagreement there is a LEAD that is replayed on the real interpreter,
       never a verdict.  AsCoded = TRUE selects the transcription of the pinned code including the
       defects reproduced on it (sentinel None, leaked function arguments, unprotected parameter save, a string
       stored once per pointer by the collector);
       AsCoded = FALSE the repaired algorithm.                                                     *)
EXTENDS Integers, Sequences, FiniteSets, TLC

CONSTANTS Cells,        \* tracked cells (names)
          CellOrder,    \* the same cells as a sequence: order of creation (order of the collector's pointer list)
          Arrays,       \* function: array name -> set of its cells
          Fns,          \* function: function name -> [params |-> Seq(cell), body |-> expr]
          MaxLen,       \* longest string (255)
          Top,          \* implementation layer: top of string space (stack_start)
          VarStart,     \* implementation layer: start of the variable area (> 0; pointers below it are not collected)
          VarEnd,       \* implementation layer: end of the variable/array area
          AsCoded

None == -1
NullPtr == <<0, 0>>
EmptyFn == [x \in {} |-> <<>>]

RECURSIVE SumLen(_, _)
SumLen(f, S) == IF S = {} THEN 0 ELSE LET x == CHOOSE x \in S : TRUE IN Len(f[x]) + SumLen(f, S \ {x})
Live(ref) == SumLen(ref, DOMAIN ref)

Min(a, b) == IF a < b THEN a ELSE b
Max(a, b) == IF a > b THEN a ELSE b
Spaces(n) == [i \in 1..n |-> 32]
Take(s, n) == SubSeq(s, 1, Min(n, Len(s)))
Drop(s, n) == SubSeq(s, n + 1, Len(s))

-----------------------------------------------------------------------------
(* ------------------------------ reference layer ------------------------------ *)
Val(v) == [ok |-> TRUE, v |-> v, err |-> 0]
Err(c) == [ok |-> FALSE, v |-> <<>>, err |-> c]

\* expressions: [k: "lit", v] | [k: "var", c] | [k: "cat", l, r] | [k: "left"|"right", e, n] | [k: "mid", e, s, n] (n = -1: omitted)
\*              | [k: "fn", f, args]
RECURSIVE Eval(_, _), EvalArgs(_, _, _)
Eval(ref, e) ==
    CASE e.k = "lit" -> IF Len(e.v) > MaxLen THEN Err(15) ELSE Val(e.v)
      [] e.k = "var" -> Val(ref[e.c])
      [] e.k = "cat" ->
           LET a == Eval(ref, e.l) IN IF ~a.ok THEN a ELSE
           LET b == Eval(ref, e.r) IN IF ~b.ok THEN b ELSE
           IF Len(a.v) + Len(b.v) > MaxLen THEN Err(15) ELSE Val(a.v \o b.v)
      [] e.k \in {"left", "right"} ->
           LET a == Eval(ref, e.e) IN IF ~a.ok THEN a ELSE
           IF e.n < 0 \/ e.n > 255 THEN Err(5)
           ELSE IF e.k = "left" THEN Val(Take(a.v, e.n)) ELSE Val(Drop(a.v, Len(a.v) - Min(e.n, Len(a.v))))
      [] e.k = "mid" ->
           LET a == Eval(ref, e.e) IN IF ~a.ok THEN a ELSE
           IF e.s < 1 \/ e.s > 255 \/ e.n < -1 \/ e.n > 255 THEN Err(5)
           ELSE LET n == IF e.n = -1 THEN Len(a.v) ELSE e.n IN Val(Take(Drop(a.v, e.s - 1), n))
      [] e.k = "fn" ->
           LET f == Fns[e.f]
               as == EvalArgs(ref, e.args, 1) IN
           IF ~as.ok THEN Err(as.err)
           ELSE Eval([c \in DOMAIN ref |-> IF \E i \in 1..Len(f.params) : f.params[i] = c
                                          THEN as.v[CHOOSE i \in 1..Len(f.params) : f.params[i] = c] ELSE ref[c]], f.body)
EvalArgs(ref, args, i) ==            \* left to right; result v = sequence of values
    IF i > Len(args) THEN Val(<<>>)
    ELSE LET a == Eval(ref, args[i]) IN IF ~a.ok THEN a ELSE
         LET r == EvalArgs(ref, args, i + 1) IN IF ~r.ok THEN r ELSE Val(<<a.v>> \o r.v)

\* string bytes the evaluation of e may occupy: the value of every node that is stored in string space (literals of
\* direct-mode statements, results of concatenations and functions; a variable operand is not copied).  Every
\* temporary of the statement may be alive at the same time.
RECURSIVE Need(_, _), NeedArgs(_, _, _)
Need(ref, e) ==
    LET own == LET r == Eval(ref, e) IN IF r.ok THEN Len(r.v) ELSE 0 IN
    CASE e.k = "lit" -> own
      [] e.k = "var" -> 0
      [] e.k = "cat" -> own + Need(ref, e.l) + Need(ref, e.r)
      [] e.k \in {"left", "right", "mid"} -> own + Need(ref, e.e)
      [] e.k = "fn" ->
           LET f == Fns[e.f]
               as == EvalArgs(ref, e.args, 1) IN
           NeedArgs(ref, e.args, 1) +
           (IF ~as.ok THEN 0
            ELSE Need([c \in DOMAIN ref |-> IF \E i \in 1..Len(f.params) : f.params[i] = c
                                          THEN as.v[CHOOSE i \in 1..Len(f.params) : f.params[i] = c] ELSE ref[c]], f.body))
NeedArgs(ref, args, i) == IF i > Len(args) THEN 0 ELSE Need(ref, args[i]) + NeedArgs(ref, args, i + 1)

MidSet(old, start, num, val) ==      \* MID$(v, start[, num]) = val on values (source and target distinct strings)
    LET n == Min(Min(num, Len(val)), Len(old) - (start - 1)) IN
    IF n <= 0 THEN old ELSE SubSeq(old, 1, start - 1) \o SubSeq(val, 1, n) \o SubSeq(old, start + n, Len(old))
Justify(len, val, right) ==
    LET t == Take(val, len) IN IF right THEN Spaces(len - Len(t)) \o t ELSE t \o Spaces(len - Len(t))

\* statements: [op: "let", c, e] | [op: "midset", c, s, n, e] | [op: "lset"|"rset", c, e] | [op: "swap", c, d]
\*             | [op: "erase"|"dim", arr] | [op: "fre"|"fre0"|"nop"] | [op: "clear", mem, stack]
\* ERASE may name two arrays (field arr2): the cells of both read as empty afterwards
Erased(a) == Arrays[a.arr] \cup (IF "arr2" \in DOMAIN a THEN Arrays[a.arr2] ELSE {})
\* Do: the reference effect.  err = the error the semantics demands (0: none); need = string bytes for MayRunOut
Do(ref, a) ==
    CASE a.op = "let" ->
           LET r == Eval(ref, a.e) IN
           [ref |-> IF r.ok THEN [ref EXCEPT ![a.c] = r.v] ELSE ref, err |-> r.err, need |-> Need(ref, a.e) + Len(r.v)]
      [] a.op = "midset" ->
           IF a.n < 0 \/ a.n > 255 \/ (a.n > 0 /\ (a.s < 1 \/ a.s > Len(ref[a.c]))) THEN [ref |-> ref, err |-> 5, need |-> 0]
           ELSE LET r == Eval(ref, a.e) IN
                [ref |-> IF r.ok THEN [ref EXCEPT ![a.c] = MidSet(@, a.s, a.n, r.v)] ELSE ref, err |-> r.err, need |-> Need(ref, a.e)]
      [] a.op \in {"lset", "rset"} ->
           LET r == Eval(ref, a.e) IN
           [ref |-> IF r.ok THEN [ref EXCEPT ![a.c] = Justify(Len(@), r.v, a.op = "rset")] ELSE ref, err |-> r.err, need |-> Need(ref, a.e)]
      [] a.op = "swap"  -> [ref |-> [ref EXCEPT ![a.c] = ref[a.d], ![a.d] = ref[a.c]], err |-> 0, need |-> 0]
      [] a.op = "erase" -> [ref |-> [c \in DOMAIN ref |-> IF c \in Erased(a) THEN <<>> ELSE ref[c]], err |-> 0, need |-> 0]
      [] a.op = "clear" -> [ref |-> [c \in DOMAIN ref |-> <<>>], err |-> 0, need |-> 0]
      [] OTHER -> [ref |-> ref, err |-> 0, need |-> 0]

\* Program mode: a string literal of a stored program line is not copied to string space; a variable assigned such
\* a literal (directly, or by LET from a variable that holds one) points into the program text until LSET / RSET /
\* MID$= modify it (the value is then copied to string space first).  code = the cells whose value lives in the
\* program text; they do not count as live string bytes.  (prog: the statement is a stored program line.)
IsCodeExpr(code, e, prog) == (e.k = "lit" /\ prog /\ Len(e.v) > 0) \/ (e.k = "var" /\ e.c \in code)
CodeAfter(code, ref, a, prog) ==
    CASE a.op = "let" -> IF IsCodeExpr(code, a.e, prog) THEN code \cup {a.c} ELSE code \ {a.c}
      [] a.op \in {"lset", "rset"} -> code \ {a.c}
      [] a.op = "midset" -> LET r == Eval(ref, a.e) IN
                            IF r.ok /\ Min(Min(a.n, Len(r.v)), Len(ref[a.c]) - (a.s - 1)) > 0 THEN code \ {a.c} ELSE code
      [] a.op = "swap"  -> (code \ {a.c, a.d}) \cup (IF a.c \in code THEN {a.d} ELSE {}) \cup (IF a.d \in code THEN {a.c} ELSE {})
      [] a.op = "erase" -> code \ Erased(a)
      [] a.op = "clear" -> {}
      [] OTHER -> code

\* the FRE equation: k = top of string space, ae = end of the array area (both BASIC-visible)
FreeAfterGC(k, ae, ref, code) == k - ae - SumLen(ref, (DOMAIN ref) \ code)
\* Out of string space / Out of memory is acceptable only if the free space does not exceed what the statement needs
\* (strictly more is needed than is used: check_free keeps one byte) plus the variable-area bytes it allocated
MayRunOut(k, ae, ref, code, need, alloc) == FreeAfterGC(k, ae, ref, code) <= need + alloc

-----------------------------------------------------------------------------
(* ------------------------ implementation-shaped layer ------------------------ *)
NC == Len(CellOrder)
InitM == [cur |-> Top, tmp |-> None, strs |-> EmptyFn, ptr |-> [c \in Cells |-> NullPtr], leaks |-> <<>>, bad |-> ""]

Flag(m, what) == IF m.bad = "" THEN [m EXCEPT !.bad = what] ELSE m
Detached == <<-1>>
Deref(m, p) == IF p[1] = 0 THEN <<>> ELSE IF p[2] \in DOMAIN m.strs THEN m.strs[p[2]] ELSE Detached
\* holders of string pointers besides the variables: a view of a variable's own buffer, or a temporary value
ViewOf(c) == [k |-> "view", c |-> c, p |-> NullPtr]
Tmp(p)  == [k |-> "tmp", c |-> "", p |-> p]
HPtr(m, h) == IF h.k = "view" THEN m.ptr[h.c] ELSE h.p
Free(m) == m.cur - VarEnd

\* StringSpace.store(check_free=False)
RawStore(m, s) ==
    LET cur2 == m.cur - Len(s) IN
    [m |-> [m EXCEPT !.cur = cur2, !.strs = IF Len(s) > 0 THEN ((cur2 + 1) :> s) @@ m.strs ELSE m.strs],
     p |-> <<Len(s), cur2 + 1>>]

RECURSIVE SortDesc(_, _)
SortDesc(ptrs, S) ==     \* indices by address, largest first, stable (list.sort(key=addr, reverse=True))
    IF S = {} THEN <<>>
    ELSE LET i == CHOOSE i \in S : \A j \in S : ptrs[j][2] < ptrs[i][2] \/ (ptrs[j][2] = ptrs[i][2] /\ j >= i)
         IN <<i>> \o SortDesc(ptrs, S \ {i})

RECURSIVE Restore(_, _, _, _, _, _, _)
\* re-store the strings in `order`; newp: index -> new pointer.  AsCoded: once per pointer; repaired: once per old
\* address (done: old address -> new pointer of the non-empty strings already re-stored)
Restore(mm, order, k, strOf, ptrs, newp, done) ==
    IF k > Len(order) THEN [m |-> mm, newp |-> newp]
    ELSE LET i == order[k]
             old == ptrs[i][2] IN
         IF ~AsCoded /\ Len(strOf[i]) > 0 /\ old \in DOMAIN done
         THEN Restore(mm, order, k + 1, strOf, ptrs, (i :> done[old]) @@ newp, done)
         ELSE LET s == RawStore(mm, strOf[i]) IN
              Restore(s.m, order, k + 1, strOf, ptrs, (i :> s.p) @@ newp,
                      IF Len(strOf[i]) > 0 THEN (old :> s.p) @@ done ELSE done)

\* DataSegment._collect_garbage + StringSpace.collect_garbage.  ex0: holders on the evaluation stacks / in temp_values
Collect(m, ex0) ==
    LET ex    == ex0 \o m.leaks
        N     == NC + Len(ex)
        cellOf == [i \in 1..N |-> IF i <= NC THEN CellOrder[i] ELSE ex[i - NC].c]     \* "" for temporaries
        ptrs  == [i \in 1..N |-> IF i <= NC THEN m.ptr[CellOrder[i]] ELSE HPtr(m, ex[i - NC])]
        idxs  == {i \in 1..N : ptrs[i][2] >= VarStart}                        \* addr >= var_start()
        cands == {i \in idxs : m.tmp # None /\ ptrs[i][1] > 0 /\ ptrs[i][2] > m.tmp /\ ptrs[i][2] < Top}
        sent  == IF cands = {} THEN 0
                 ELSE CHOOSE i \in cands : \A j \in cands : ptrs[j][2] > ptrs[i][2] \/ (ptrs[j][2] = ptrs[i][2] /\ j >= i)
        strOf == [i \in idxs |-> Deref(m, ptrs[i])]
        det   == \E i \in idxs : strOf[i] = Detached
        order == SortDesc(ptrs, idxs)
        r     == Restore([m EXCEPT !.cur = Top, !.strs = EmptyFn], order, 1, strOf, ptrs, EmptyFn, EmptyFn)
        \* the last write into a buffer wins (a variable's buffer may be listed twice: as variable and as a view)
        lastOf(c) == LET S == {k \in 1..Len(order) : cellOf[order[k]] = c} IN
                     order[CHOOSE k \in S : \A k2 \in S : k2 <= k]
        nptr  == [c \in Cells |-> IF \E i \in idxs : cellOf[i] = c THEN r.newp[lastOf(c)] ELSE m.ptr[c]]
        final(i) == IF cellOf[i] # "" THEN nptr[cellOf[i]] ELSE r.newp[i]
        nex   == [j \in 1..Len(ex) |-> IF ex[j].k = "tmp" /\ (NC + j) \in idxs THEN Tmp(r.newp[NC + j]) ELSE ex[j]]
        ntmp  == IF sent = 0 THEN None ELSE final(sent)[2] - 1
        m2    == [r.m EXCEPT !.ptr = nptr, !.tmp = ntmp, !.leaks = SubSeq(nex, Len(ex0) + 1, Len(ex))]
        same  == \A i \in idxs : Deref(m2, final(i)) = strOf[i]
    IN  IF det THEN [m |-> Flag(m, "collect_dereferences_detached_string"), ex |-> ex0]
        ELSE [m |-> IF same THEN m2 ELSE Flag(m2, "collection_changed_a_live_value"), ex |-> SubSeq(nex, 1, Len(ex0))]

\* DataSegment.check_free + StringSpace.store
Store(m, ex, s) ==
    IF Free(m) > Len(s) THEN LET r == RawStore(m, s) IN [m |-> r.m, ex |-> ex, p |-> r.p, err |-> 0, gc |-> 0]
    ELSE LET g == Collect(m, ex) IN
         IF Free(g.m) <= Len(s) THEN [m |-> g.m, ex |-> g.ex, p |-> NullPtr, err |-> 14, gc |-> 1]
         ELSE LET r == RawStore(g.m, s) IN [m |-> r.m, ex |-> g.ex, p |-> r.p, err |-> 0, gc |-> 1]

DeleteLast(m) ==
    IF (m.cur + 1) \in DOMAIN m.strs
    THEN [m EXCEPT !.cur = m.cur + Len(m.strs[m.cur + 1]), !.strs = [x \in (DOMAIN m.strs) \ {m.cur + 1} |-> m.strs[x]]]
    ELSE m
ResetTemps(m) == LET m1 == IF m.tmp # None /\ m.tmp # m.cur THEN DeleteLast(m) ELSE m IN [m1 EXCEPT !.tmp = m1.cur]
FixTemps(m) == [m EXCEPT !.tmp = m.cur]

\* evaluation of an expression on the implementation layer; ex = protected holders of the enclosing evaluation.
\* result [m, ex, h (holder of the result), err, gc (collections run)]
RECURSIVE EvalI(_, _, _), EvalArgsI(_, _, _, _, _)
EvalI(m, ex, e) ==
    LET n == Len(ex) IN
    CASE e.k = "lit" ->                \* direct-mode literal: stored in string space
           LET s == Store(m, ex, e.v) IN [m |-> s.m, ex |-> s.ex, h |-> Tmp(s.p), err |-> s.err, gc |-> s.gc]
      [] e.k = "var" -> [m |-> m, ex |-> ex, h |-> ViewOf(e.c), err |-> 0, gc |-> 0]
      [] e.k = "cat" ->
           LET a == EvalI(m, ex, e.l) IN IF a.err # 0 THEN a ELSE
           LET b == EvalI(a.m, Append(a.ex, a.h), e.r) IN
           IF b.err # 0 THEN [b EXCEPT !.ex = SubSeq(b.ex, 1, n), !.gc = a.gc + b.gc] ELSE
           LET bytes == Deref(b.m, HPtr(b.m, b.ex[n + 1])) \o Deref(b.m, HPtr(b.m, b.h)) IN
           IF Len(bytes) > MaxLen THEN [m |-> b.m, ex |-> SubSeq(b.ex, 1, n), h |-> b.h, err |-> 15, gc |-> a.gc + b.gc]
           ELSE LET s == Store(b.m, SubSeq(b.ex, 1, n), bytes)       \* both operands are popped: unprotected
                IN [m |-> s.m, ex |-> s.ex, h |-> Tmp(s.p), err |-> s.err, gc |-> a.gc + b.gc + s.gc]
      [] e.k \in {"left", "right", "mid"} ->
           LET a == EvalI(m, ex, e.e) IN IF a.err # 0 THEN a ELSE
           LET src == Deref(a.m, HPtr(a.m, a.h))
               bad == IF e.k = "mid" THEN e.s < 1 \/ e.s > 255 \/ e.n < -1 \/ e.n > 255 ELSE e.n < 0 \/ e.n > 255
               early == IF e.k = "mid" THEN e.n = 0 \/ e.s > Len(src) ELSE e.n = 0   \* `return s.new()` paths
               leaked == IF AsCoded THEN [a.m EXCEPT !.leaks = Append(@, a.h)] ELSE a.m
               res == IF e.k = "left" THEN Take(src, e.n)
                      ELSE IF e.k = "right" THEN Drop(src, Len(src) - Min(e.n, Len(src)))
                      ELSE Take(Drop(src, e.s - 1), IF e.n = -1 THEN Len(src) ELSE e.n)
           IN IF bad THEN [m |-> leaked, ex |-> a.ex, h |-> a.h, err |-> 5, gc |-> a.gc]
              ELSE IF early THEN [m |-> leaked, ex |-> a.ex, h |-> Tmp(NullPtr), err |-> 0, gc |-> a.gc]
              ELSE LET s == Store(a.m, Append(a.ex, a.h), res)        \* the argument is protected in temp_values
                   IN [m |-> s.m, ex |-> SubSeq(s.ex, 1, n), h |-> Tmp(s.p), err |-> s.err, gc |-> a.gc + s.gc]
      [] e.k = "fn" ->
           LET f == Fns[e.f]
               as == EvalArgsI(m, ex, e.args, 1, 0) IN        \* arguments stay protected (temp_values) until the end
           IF as.err # 0 THEN [m |-> as.m, ex |-> SubSeq(as.ex, 1, n), h |-> Tmp(NullPtr), err |-> as.err, gc |-> as.gc] ELSE
           LET np == Len(f.params)
               args == [i \in 1..np |-> as.ex[n + i]]
               \* varsave: clones of the parameters' pointers. AsCoded: invisible to the collector; repaired: protected
               saved == [i \in 1..np |-> Tmp(as.m.ptr[f.params[i]])]
               \* scalars.set(param, arg): fix_temporaries, copy the pointer bytes
               m1 == [as.m EXCEPT !.tmp = as.m.cur,
                                  !.ptr = [c \in Cells |-> IF \E i \in 1..np : f.params[i] = c
                                                           THEN HPtr(as.m, args[CHOOSE i \in 1..np : f.params[i] = c]) ELSE @[c]]]
               exb == IF AsCoded THEN as.ex ELSE as.ex \o saved
               b  == EvalI(m1, exb, f.body)
               sv2 == IF AsCoded THEN saved ELSE [i \in 1..np |-> b.ex[Len(as.ex) + i]]
               \* the result is cloned before the parameters are restored (repaired in /repo by the C20 fix: a result that
               \* was a view of a parameter's buffer used to be overwritten by the restore)
               h2 == IF b.h.k = "tmp" THEN b.h ELSE Tmp(b.m.ptr[b.h.c])
               m2 == [b.m EXCEPT !.ptr = [c \in Cells |-> IF \E i \in 1..np : f.params[i] = c
                                                          THEN sv2[CHOOSE i \in 1..np : f.params[i] = c].p ELSE @[c]]]
           IN [m |-> m2, ex |-> SubSeq(b.ex, 1, n), h |-> h2, err |-> b.err, gc |-> as.gc + b.gc]
EvalArgsI(m, ex, args, i, gc) ==
    IF i > Len(args) THEN [m |-> m, ex |-> ex, err |-> 0, gc |-> gc]
    ELSE LET a == EvalI(m, ex, args[i]) IN
         IF a.err # 0 THEN [m |-> a.m, ex |-> a.ex, err |-> a.err, gc |-> gc + a.gc]
         ELSE EvalArgsI(a.m, Append(a.ex, a.h), args, i + 1, gc + a.gc)

IsPermanent(m, p) == m.tmp # None /\ p[2] > m.tmp     \* repaired: tmp = None (collection found no permanent string) => temporary
SetCell(m, c, p) == [FixTemps(m) EXCEPT !.ptr[c] = p]         \* scalars.set / arrays.set with a string value
WriteStr(m, p, s) == IF p[1] = 0 \/ p[2] \notin DOMAIN m.strs THEN m ELSE [m EXCEPT !.strs[p[2]] = s]

\* one statement on the implementation layer: [m, err, gc]
ApplyI(m, a) ==
    CASE a.op = "let" ->
           LET r == EvalI(ResetTemps(m), <<>>, a.e) IN
           IF r.err # 0 THEN [m |-> r.m, err |-> r.err, gc |-> r.gc] ELSE
           LET p == HPtr(r.m, r.h) IN
           IF r.m.tmp = None /\ AsCoded THEN [m |-> Flag(r.m, "is_permanent_compares_with_None"), err |-> 0, gc |-> r.gc]
           ELSE IF IsPermanent(r.m, p)         \* deep copy of a value that is already a variable's
                THEN LET s == Store(r.m, <<>>, Deref(r.m, p)) IN
                     IF s.err # 0 THEN [m |-> s.m, err |-> s.err, gc |-> r.gc + s.gc]
                     ELSE [m |-> SetCell(s.m, a.c, s.p), err |-> 0, gc |-> r.gc + s.gc]
                ELSE [m |-> SetCell(r.m, a.c, p), err |-> 0, gc |-> r.gc]
      [] a.op = "midset" ->
           LET m0 == ResetTemps(m) IN
           IF a.n < 0 \/ a.n > 255 \/ (a.n > 0 /\ (a.s < 1 \/ a.s > Len(Deref(m0, m0.ptr[a.c])))) THEN [m |-> m0, err |-> 5, gc |-> 0] ELSE
           LET r == EvalI(m0, <<>>, a.e) IN
           IF r.err # 0 THEN [m |-> r.m, err |-> r.err, gc |-> r.gc] ELSE
           LET tp  == r.m.ptr[a.c]
               old == Deref(r.m, tp)
               val == Deref(r.m, HPtr(r.m, r.h))
           IN [m |-> SetCell(WriteStr(r.m, tp, MidSet(old, a.s, a.n, val)), a.c, tp), err |-> 0, gc |-> r.gc]
      [] a.op \in {"lset", "rset"} ->
           LET r == EvalI(ResetTemps(m), <<>>, a.e) IN
           IF r.err # 0 THEN [m |-> r.m, err |-> r.err, gc |-> r.gc] ELSE
           LET tp  == r.m.ptr[a.c]
               val == Deref(r.m, HPtr(r.m, r.h))
           IN [m |-> SetCell(WriteStr(r.m, tp, Justify(tp[1], val, a.op = "rset")), a.c, tp), err |-> 0, gc |-> r.gc]
      [] a.op = "swap"  -> [m |-> [m EXCEPT !.ptr[a.c] = m.ptr[a.d], !.ptr[a.d] = m.ptr[a.c]], err |-> 0, gc |-> 0]
      [] a.op = "erase" -> [m |-> [m EXCEPT !.ptr = [c \in Cells |-> IF c \in Erased(a) THEN NullPtr ELSE @[c]]], err |-> 0, gc |-> 0]
      [] a.op = "fre" ->            \* FRE(""): the literal is stored, then an unconditional collection
           LET s == Store(ResetTemps(m), <<>>, <<>>) IN
           IF s.err # 0 THEN [m |-> s.m, err |-> s.err, gc |-> s.gc]
           ELSE [m |-> Collect(s.m, <<>>).m, err |-> 0, gc |-> s.gc + 1]
      [] OTHER -> [m |-> m, err |-> 0, gc |-> 0]

\* both layers in one step.  st = [m, ref]
Apply(st, a) ==
    LET i == ApplyI(st.m, a)
        d == Do(st.ref, a)
        free == Top - VarEnd - Live(st.ref)
        m1 == IF i.err = 14 /\ ~(free <= d.need) THEN Flag(i.m, "out_of_string_space_with_sufficient_free_space")
              ELSE IF i.err \notin {0, 14} /\ i.err # d.err THEN Flag(i.m, "error_not_demanded_by_reference")
              ELSE IF i.err = 0 /\ d.err # 0 THEN Flag(i.m, "demanded_error_not_raised")
              ELSE IF a.op = "fre" /\ i.err = 0 /\ Free(i.m) # free THEN Flag(i.m, "fre_equation")
              ELSE i.m
    IN [st |-> [m |-> m1, ref |-> IF i.err = 0 THEN d.ref ELSE st.ref], err |-> i.err, gc |-> i.gc]

\* refinement invariants
Refines(st) == \A c \in Cells : Deref(st.m, st.m.ptr[c]) = st.ref[c]
Range(p) == p[2]..(p[2] + p[1] - 1)
NoOverflow(m) == m.cur >= VarEnd        \* the string space never grows into the variable area
WellFormed(m) ==
    /\ \A x \in DOMAIN m.strs : x > m.cur /\ x + Len(m.strs[x]) - 1 <= Top
    /\ \A x, y \in DOMAIN m.strs : x # y => (x + Len(m.strs[x]) - 1 < y \/ y + Len(m.strs[y]) - 1 < x)
NoAlias(m) ==
    /\ \A c \in Cells : m.ptr[c][1] > 0 => (m.ptr[c][2] \in DOMAIN m.strs /\ Len(m.strs[m.ptr[c][2]]) = m.ptr[c][1])
    /\ \A c, d \in Cells : (c # d /\ m.ptr[c][1] > 0 /\ m.ptr[d][1] > 0) => Range(m.ptr[c]) \cap Range(m.ptr[d]) = {}
=============================================================================
