SPECIFICATION TSpec
CONSTANTS
  CodeStart = 4717
  Keys = {1, 2}
  AsCoded = FALSE
INVARIANT TDone
CHECK_DEADLOCK FALSE
