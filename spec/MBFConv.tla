------------------------------ MODULE MBFConv ------------------------------
(* Numeric conversions of property C03 as defining equations over decoded MBF
   values (module MBF): CINT / FIX / INT, single <-> double, HEX$ / OCT$.
   Only "the integer part" and "is any fraction bit set" of a mantissa are
   needed, so byte-tuple mantissas and native integers < 2^24 suffice.
   Self-checked against native arithmetic by MBFConv_MC (BB = 2).           *)
EXTENDS MBF

Overflow == 6

\* binary exponent: |v| = 0.mant * 2^E(v), i.e. the integer part is the top E(v) mantissa bits
E(v) == v.exp - Bias
HasFrac(v) == ~IsZero(v) /\ KeepTop(v.mant, E(v)) # v.mant

\* FIX: truncation toward zero (a value; the result type is not constrained here)
Fix(v) == IF IsZero(v) \/ E(v) <= 0 THEN Zero ELSE [v EXCEPT !.mant = KeepTop(v.mant, E(v))]

\* INT: rounding toward minus infinity
IntF(v) == IF IsZero(v) \/ ~v.neg THEN Fix(v)
           ELSE IF E(v) <= 0 THEN FromInt(-1)
           ELSE IF ~HasFrac(v) THEN v
           ELSE IncMag(Fix(v), E(v))

\* CINT: nearest integer, halves away from zero; Overflow exactly when the ROUNDED value is
\* outside IntMin..IntMax.  Outcome <<"val", n>> | <<"err", Overflow>>.
CintOut(v) ==
    IF IsZero(v) \/ E(v) < 0 THEN <<"val", 0>>
    ELSE IF E(v) > 2 * BB THEN <<"err", Overflow>>              \* |v| >= 2^(2*BB)
    ELSE LET top  == (v.mant[1] * Radix + v.mant[2]) * Radix + v.mant[3]   \* top 3*BB bits
             n    == top \div 2 ^ (3 * BB - E(v))                           \* integer part
             half == (top \div 2 ^ (3 * BB - E(v) - 1)) % 2                 \* first fraction bit
             r    == IF v.neg THEN -(n + half) ELSE n + half
         IN IF r < IntMin \/ r > IntMax THEN <<"err", Overflow>> ELSE <<"val", r>>

(* ---- single <-> double ---------------------------------------------------- *)
\* a single converts to double exactly
SingleToDoubleOK(s, d) == EqualV(s, d)

\* the two singles around a non-zero double d: truncation, and one single-ulp further out
D2SLo(d) == [d EXCEPT !.mant = KeepTop(d.mant, MantBits("s"))]
D2SHi(d) == MagSucc("s", D2SLo(d))
D2SExact(d) == D2SLo(d).mant = d.mant
\* dropped fraction f = 0.m4m5m6m7 of a single ulp.  "The nearer one unless it lies within 1/256
\* (1/Radix) of a unit of halfway" (bounds taken inclusively, the lenient reading):
\*   f < 1/2 - 1/Radix  -> must be Lo;   f > 1/2 + 1/Radix  -> must be Hi;   otherwise either.
D2SRestZero(d) == \A i \in 5..NM : d.mant[i] = 0
D2SMustLo(d) == d.mant[4] < Half - 1
D2SMustHi(d) == d.mant[4] > Half + 1 \/ (d.mant[4] = Half + 1 /\ ~D2SRestZero(d))
\* out: <<"val", s>> | <<"err", code>> | <<"soft", code, s>> (message printed, execution goes on with s)
DoubleToSingleOK(d, out) ==
    IF IsZero(d) THEN out[1] = "val" /\ IsZero(out[2])
    ELSE IF D2SExact(d) THEN out[1] = "val" /\ EqualV(out[2], d)
    ELSE LET lo == D2SLo(d)
             hi == D2SHi(d)
             hiFits == Representable("s", hi)
         IN \/ ~D2SMustHi(d) /\ out[1] = "val" /\ EqualV(out[2], lo)
            \/ ~D2SMustLo(d) /\ hiFits /\ out[1] = "val" /\ EqualV(out[2], hi)
            \* the upper neighbour does not exist: the statement is silent; Overflow (hard or
            \* soft-handled with any value) is accepted
            \/ ~D2SMustLo(d) /\ ~hiFits /\ out[1] \in {"err", "soft"} /\ out[2] = Overflow

(* ---- HEX$ / OCT$ --------------------------------------------------------- *)
U16(v) == IF v < 0 THEN v + 65536 ELSE v
DigitVal(c) == IF c >= 48 /\ c <= 57 THEN c - 48
               ELSE IF c >= 65 /\ c <= 70 THEN c - 55
               ELSE IF c >= 97 /\ c <= 102 THEN c - 87 ELSE 99
RECURSIVE ParseDigits(_, _, _, _)
ParseDigits(s, base, i, acc) == IF i > Len(s) THEN acc ELSE ParseDigits(s, base, i + 1, acc * base + DigitVal(s[i]))
\* s is a digit string in `base` (at most 6 digits) denoting the 16-bit pattern of v
DigitsDenote(s, base, v) ==
    /\ Len(s) \in 1..6
    /\ \A i \in 1..Len(s) : DigitVal(s[i]) < base
    /\ ParseDigits(s, base, 1, 0) = U16(v)
=============================================================================
