SPECIFICATION Spec
CONSTANTS
  A <- HA
  C <- HC
  Lb = 4096
  Steps = 16777216
INVARIANT TypeOK
INVARIANT ConstantsOK
INVARIANT HullDobellInv
INVARIANT NoShortCycle
INVARIANT ClosesAtPeriod
CHECK_DEADLOCK FALSE
