---------------------------- MODULE Locks_Trace ----------------------------
(* Total trace specification for C26.  Each event is one BASIC statement on
   the real interpreter: {op, n, name, mode, r, rec, ok, code, reset,
   obs: {mode: [..], name: [..], locks: [[[lo,hi],..],..]}}.
   The demanded outcome comes from Locks!Must; the state advances by
   Locks!Effect on the OBSERVED outcome, is compared with the observed lock
   sets and re-synchronised from them, and the invariant is evaluated on
   the observed state after every step.                                    *)
EXTENDS Locks, TraceBase
VARIABLES st, pos, l, viol
tvars == <<st, pos, l, viol>>

(* GET #n / PUT #n without a record number (logged with rec = 0) address "the next record": the one after the last record
   read or written through that number, record 1 after OPEN.  pos[n] is that record number, 0 when the trace does not
   determine it (after a refused access, whose effect on the position the property leaves open).  The demanded outcome of
   an implicit access is the one of the explicit access to record pos[n].                                              *)
Eff(e, p) == IF e.op \in {"get", "put"} /\ e.rec = 0 THEN [e EXCEPT !.rec = p[e.n]] ELSE e
NextPos(e, p) ==
    CASE e.op = "open" /\ e.ok -> [p EXCEPT ![e.n] = 1]
      [] e.op \in {"get", "put"} -> [p EXCEPT ![e.n] = IF e.ok /\ Eff(e, p).rec # 0 THEN Eff(e, p).rec + 1 ELSE 0]
      [] OTHER -> p

SeqToSet(s) == {s[i] : i \in 1..Len(s)}
ObsSt(e) == [mode  |-> [n \in FileNums |-> e.obs.mode[n]],
             name  |-> [n \in FileNums |-> e.obs.name[n]],
             locks |-> [n \in FileNums |-> SeqToSet(e.obs.locks[n])]]

Clause(a) == CASE a.op = "open" -> "open_while_output_or_append_open"
               [] a.op = "lock" -> "overlapping_lock_not_denied"
               [] a.op = "unlock" -> "unlock_of_range_not_held_succeeded"
               [] OTHER -> "access_inside_foreign_lock_succeeded"

Step(e) ==
    LET s0   == IF Has(e, "reset") /\ e.reset THEN InitSt ELSE st
        p0   == IF Has(e, "reset") /\ e.reset THEN [n \in FileNums |-> 0] ELSE pos
        a    == Eff(e, p0)
        must == IF a.op \in {"get", "put"} /\ a.rec = 0 THEN "any" ELSE Must(s0, a)
        s1   == IF e.ok THEN Effect(s0, a) ELSE s0
        obs  == ObsSt(e)
        v    == IF ~Accepts(must, e.ok, e.code) THEN Clause(e)
                ELSE IF obs.mode # s1.mode THEN "open_files_differ_from_model"
                ELSE IF obs.locks # s1.locks THEN "lockset_differs_from_model"
                ELSE IF ~NoOverlapSt(obs) THEN "overlapping_ranges_held"
                ELSE "ok"
    IN  /\ st' = obs
        /\ pos' = NextPos(e, p0)
        /\ viol' = IF v = "ok" THEN viol ELSE Append(viol, <<l, v>>)

TInit == st = InitSt /\ pos = [n \in FileNums |-> 0] /\ l = 1 /\ viol = <<>>
TNext == l <= NEvents /\ l' = l + 1 /\ Step(Events[l])
TSpec == TInit /\ [][TNext]_tvars
TDone == (l = NEvents + 1) => WriteVerdict(l - 1, viol)
=============================================================================
