SPECIFICATION TSpec
CONSTANTS
  Roots <- TRoots
  CurDrive = 67
  AsCodedDots = FALSE
  AsCodedNames = FALSE
INVARIANT TDone
CHECK_DEADLOCK FALSE
