------------------------------ MODULE Interp_MC_gosub ------------------------------
EXTENDS Interp_MCF
VARIABLES s, hist
INSTANCE Interp_MCrun WITH Family <- GosubFamily
=============================================================================
