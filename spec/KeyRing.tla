------------------------------- MODULE KeyRing -------------------------------
(* The keyboard buffer (property C37), functional-core style, in two layers.

   Reference layer: `q`, the FIFO of waiting keystrokes.  It alone judges the
   code: keys are delivered oldest first, each exactly once, at most Cap = 15
   wait, further keystrokes are dropped.

   Implementation-shaped layer: the BIOS ring of RingLen = 16 two-byte slots
   with a head and a tail pointer, as PEEK shows it at 0:041A..0:043D
   (head pointer word at 0x41A, tail pointer word at 0x41C, slots from 0x41E;
   a pointer holds 30 + 2*slot).  TLC checks this layer against the reference
   layer (RingView: the slots from head up to tail are exactly q), and it
   steers the behaviours that are replayed on the code (wrap-around, full ring,
   pointer POKEs).

   A keystroke is <<chars, scan>>: chars is the sequence of 1..2 bytes INKEY$
   returns (2 bytes, the first 0, for an extended key), scan the scancode
   byte.  A ring slot shows <<chars[1], scan>>.

   POKE to the head/tail pointer (PokeHead/PokeTail) moves the pointer; the
   waiting keystrokes are then, by the ring view, the slots between the
   pointers; `POKE 1050, PEEK(1052)` (head := tail) leaves none.            *)
EXTENDS Integers, Sequences

CONSTANTS RingLen,      \* number of slots (16 on the PC)
          Keys          \* the keystrokes that can be typed

Cap   == RingLen - 1                  \* "at most 15 are waiting"
Pos   == 0..(RingLen - 1)
Base  == 30                           \* pointer value of slot 0 (0x41E - 0x400)
Blank == <<<<0, 0>>, 0>>              \* content of a slot never written
CRKey == <<<<13>>, 28>>               \* the Return key
NBios == 4 + 2 * RingLen              \* the 36 bytes 0x41A..0x43D

Count(h, t) == (t - h + RingLen) % RingLen
\* the slots from position h up to (not including) position t, oldest first
Between(slots, h, t) == [i \in 1..Count(h, t) |-> slots[(h + i - 1) % RingLen]]
KeyView(k) == <<k[1][1], k[2]>>       \* what a slot shows of a keystroke

InitSt == [q |-> <<>>, slots |-> [i \in Pos |-> Blank], head |-> 0, tail |-> 0]

\* ---------------------------------------------------------------- reference layer (FIFO)
Flatten(ks) == LET F[i \in 0..Len(ks)] == IF i = 0 THEN <<>> ELSE F[i - 1] \o ks[i][1] IN F[Len(ks)]

\* press / inkey / readn (INPUT$(n), n <= Len(q)) on the FIFO alone: [q |-> .., res |-> ..]
RefApply(q, a) ==
    CASE a.op = "press" -> IF Len(q) < Cap THEN [q |-> Append(q, a.k), res |-> "stored"]
                                           ELSE [q |-> q, res |-> "dropped"]
      [] a.op = "inkey" -> IF q = <<>> THEN [q |-> q, res |-> <<>>]
                                       ELSE [q |-> Tail(q), res |-> Head(q)[1]]
      [] a.op = "readn" -> [q |-> SubSeq(q, a.n + 1, Len(q)), res |-> Flatten(SubSeq(q, 1, a.n))]

\* ---------------------------------------------------------------- ring layer
Ring(st) == [slots |-> st.slots, head |-> st.head, tail |-> st.tail]
RingApply(r, a) ==
    CASE a.op = "press" -> IF Count(r.head, r.tail) < Cap
                           THEN [r EXCEPT !.slots[r.tail] = a.k, !.tail = (@ + 1) % RingLen]
                           \* GW-BASIC quirk kept by the code: a dropped key leaves a CR in the free slot (outside head..tail)
                           ELSE [r EXCEPT !.slots[r.tail] = CRKey]
      [] a.op = "inkey" -> IF r.head = r.tail THEN r ELSE [r EXCEPT !.head = (@ + 1) % RingLen]
      [] a.op = "readn" -> [r EXCEPT !.head = (@ + a.n) % RingLen]
      [] a.op = "pokehead" -> [r EXCEPT !.head = a.v]
      [] a.op = "poketail" -> [r EXCEPT !.tail = a.v]
      [] OTHER -> r
\* what the ring alone would deliver to INKEY$
RingInkey(r) == IF r.head = r.tail THEN <<>> ELSE r.slots[r.head][1]

\* the 36 bytes PEEK shows (1-based sequence: head word, tail word, 16 slots of <<char, scan>>)
Bios(r) == [i \in 1..NBios |->
              IF i = 1 THEN Base + 2 * r.head ELSE IF i = 3 THEN Base + 2 * r.tail ELSE IF i \in {2, 4} THEN 0
              ELSE LET s == r.slots[(i - 5) \div 2] IN IF i % 2 = 1 THEN s[1][1] ELSE s[2]]

\* ---------------------------------------------------------------- both layers
IsPoke(a) == a.op \in {"pokehead", "poketail"}
Apply(st, a) ==
    LET r == RingApply(Ring(st), a)
    IN  IF IsPoke(a)
        THEN [st |-> [q |-> Between(r.slots, r.head, r.tail), slots |-> r.slots, head |-> r.head, tail |-> r.tail],
              res |-> <<>>]
        ELSE IF a.op = "peek" THEN [st |-> st, res |-> Bios(Ring(st))]
        ELSE LET f == RefApply(st.q, a)
             IN [st |-> [q |-> f.q, slots |-> r.slots, head |-> r.head, tail |-> r.tail], res |-> f.res]

\* closed fragment: pointer POKEs never put a never-written slot between the pointers (what INKEY$ returns for
\* such a slot is not stated); INPUT$(n) only for keystrokes that wait (it blocks otherwise)
NoBlank(slots, h, t) == \A i \in 1..Count(h, t) : slots[(h + i - 1) % RingLen] # Blank
PressActions == {[op |-> "press", k |-> k] : k \in Keys}
OtherActions(st) ==
    {[op |-> "inkey"], [op |-> "peek"]}
    \cup {[op |-> "readn", n |-> n] : n \in 1..Len(st.q)}
    \cup {[op |-> "pokehead", v |-> v] : v \in {p \in Pos : NoBlank(st.slots, p, st.tail)}}
    \cup {[op |-> "poketail", v |-> v] : v \in {p \in Pos : NoBlank(st.slots, st.head, p)}}
Actions(st) == PressActions \cup OtherActions(st)

\* ---------------------------------------------------------------- the property, on states
TypeOK(st)   == /\ st.head \in Pos /\ st.tail \in Pos
                /\ Len(st.q) <= Cap
RingView(st) == st.q = Between(st.slots, st.head, st.tail)       \* the ring holds exactly the waiting keys
Empties(st, a) ==                                                 \* POKE 1050,PEEK(1052) (and its mirror image)
    ((a.op = "pokehead" /\ a.v = st.tail) \/ (a.op = "poketail" /\ a.v = st.head)) => Apply(st, a).st.q = <<>>
=============================================================================
