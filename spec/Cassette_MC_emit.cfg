SPECIFICATION Spec
CONSTANTS
  Payload = 255
  AsCoded = FALSE
  MaxFiles = 3
  Lens = {0, 1, 253, 254, 255, 256, 509, 510, 511}
  Types = {"D"}
  Names = {"X"}
  Splits = {}
VIEW View
INVARIANT RoundTripInv
INVARIANT SplitIndependent
INVARIANT RecordsWellFormed
CHECK_DEADLOCK FALSE
ACTION_CONSTRAINT Emit
