SPECIFICATION Spec
CONSTANTS
  FileNums = {1, 2, 3}
  Names = {"X", "Y"}
  MaxRec = 4
  AsCoded = FALSE
VIEW View
INVARIANT NoOverlap
INVARIANT NoTwoWritersInv
PROPERTY UnlockExact
