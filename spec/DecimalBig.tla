----------------------------- MODULE DecimalBig -----------------------------
(* Decimal text <-> exact values (property C07).  Text is a sequence of byte
   values.  The specification parses the digit strings itself:

     number  ::=  [sign] digits* ["." digits*] [("E"|"D"|"e"|"d") [sign] digits*] ["!"|"#"]

   (at least one mantissa digit; blanks are removed before parsing: GW-BASIC
   ignores blanks, tabs and line feeds inside a number).  The value is
   +-(all mantissa digits) * 10^(exponent - number of fraction digits), held
   exactly as a scaled big natural.                                          *)
EXTENDS MBFBig

IsDigit(c) == c >= 48 /\ c <= 57
IsBlank(c) == c \in {32, 9, 10}
NotBlank(c) == ~IsBlank(c)
Unblank(t) == SelectSeq(t, NotBlank)
AllDigits(t) == \A i \in 1..Len(t) : IsDigit(t[i])
DigitVals(t) == [i \in 1..Len(t) |-> t[i] - 48]

RECURSIVE FirstIn(_, _, _)
\* first index >= i of an element of set cs, 0 if none
FirstIn(t, cs, i) == IF i > Len(t) THEN 0 ELSE IF t[i] \in cs THEN i ELSE FirstIn(t, cs, i + 1)
RECURSIVE LastNonZero(_, _)
\* last index <= i of a non-zero digit value, 0 if none
LastNonZero(ds, i) == IF i = 0 THEN 0 ELSE IF ds[i] # 0 THEN i ELSE LastNonZero(ds, i - 1)
RECURSIVE FirstNonZero(_, _)
FirstNonZero(ds, i) == IF i > Len(ds) THEN 0 ELSE IF ds[i] # 0 THEN i ELSE FirstNonZero(ds, i + 1)
RECURSIVE SmallNat(_, _, _)
\* native value of a short digit-value sequence (exponents; at most 4 digits are ever given)
SmallNat(ds, i, acc) == IF i > Len(ds) THEN acc ELSE SmallNat(ds, i + 1, 10 * acc + ds[i])

Front(t, n) == SubSeq(t, 1, n)
From(t, n) == SubSeq(t, n, Len(t))

(* Parse a blank-free text.  Result record:
     ok      well-formed according to the grammar above
     neg     leading "-"
     signed  a sign character was present
     ds      digit values of the mantissa (integer part then fraction part)
     nfrac   number of fraction digits,  point  a "." was present
     letter  0, or the exponent letter folded to upper case (69 "E", 68 "D")
     ex      signed exponent value
     sigil   0, 33 "!" or 35 "#"                                             *)
ParseNum(t) ==
    LET hasSign == Len(t) > 0 /\ t[1] \in {43, 45}
        neg == hasSign /\ t[1] = 45
        t1 == IF hasSign THEN From(t, 2) ELSE t
        hasSigil == Len(t1) > 0 /\ t1[Len(t1)] \in {33, 35}
        sigil == IF hasSigil THEN t1[Len(t1)] ELSE 0
        t2 == IF hasSigil THEN Front(t1, Len(t1) - 1) ELSE t1
        epos == FirstIn(t2, {69, 68, 101, 100}, 1)
        mant == IF epos = 0 THEN t2 ELSE Front(t2, epos - 1)
        epart == IF epos = 0 THEN <<>> ELSE From(t2, epos + 1)
        letter == IF epos = 0 THEN 0 ELSE IF t2[epos] \in {69, 101} THEN 69 ELSE 68
        ppos == FirstIn(mant, {46}, 1)
        ip == IF ppos = 0 THEN mant ELSE Front(mant, ppos - 1)
        fp == IF ppos = 0 THEN <<>> ELSE From(mant, ppos + 1)
        eSigned == Len(epart) > 0 /\ epart[1] \in {43, 45}
        eneg == eSigned /\ epart[1] = 45
        edig == IF eSigned THEN From(epart, 2) ELSE epart
        ok == /\ AllDigits(ip) /\ AllDigits(fp) /\ Len(ip) + Len(fp) >= 1
              /\ AllDigits(edig) /\ Len(edig) <= 4
              /\ ~(hasSigil /\ epos # 0)                 \* a type sign cannot follow an exponent
        exv == IF ok THEN SmallNat(DigitVals(edig), 1, 0) ELSE 0
    IN  [ok |-> ok, neg |-> neg, signed |-> hasSign,
         ds |-> IF ok THEN DigitVals(ip) \o DigitVals(fp) ELSE <<>>,
         nfrac |-> Len(fp), point |-> ppos # 0, letter |-> letter,
         ex |-> IF eneg THEN -exv ELSE exv, sigil |-> sigil]

\* exact value, decimal exponent of the last mantissa digit, significant digit counts
NumVal(p) == LET m == FromDec(p.ds) IN IF Len(m) = 0 THEN ScZero ELSE Sc(p.neg, m, 0, p.ex - p.nfrac)
LastPlace(p) == p.ex - p.nfrac
\* digits from the first non-zero digit to the last digit written / to the last non-zero digit
SigLoose(p) == LET f == FirstNonZero(p.ds, 1) IN IF f = 0 THEN 0 ELSE Len(p.ds) - f + 1
SigStrict(p) == LET f == FirstNonZero(p.ds, 1) IN IF f = 0 THEN 0 ELSE LastNonZero(p.ds, Len(p.ds)) - f + 1

-----------------------------------------------------------------------------
(* values of stored numbers: 2 bytes = 16-bit two's complement integer, 4 / 8 bytes = MBF *)
IntVal(b) == LET u == b[1] + 256 * b[2] IN IF u >= 32768 THEN ScInt(u - 65536) ELSE ScInt(u)
NumWellFormed(b) == Len(b) \in {2, 4, 8} /\ IsByteSeq(b)
StoredVal(b) == IF Len(b) = 2 THEN IntVal(b) ELSE MbfVal(b)
\* is the (non-zero MBF) value an integer, and is it inside the range where every integer is representable
MbfIsInteger(b) == MbfE2(b) >= 0 \/ (-MbfE2(b) < MbfWidth(b) /\ DivisibleByPow2(MbfMant(b), -MbfE2(b)))
MbfInExactRange(b) == ScAbsLe(MbfVal(b), ScPow2(MbfWidth(b)))
MbfIsMultipleOf10(b) ==      \* for an integer value with MbfE2(b) <= 0:  m * 2^e2 = 0 (mod 10)
    /\ ModSmall(MbfMant(b), 5) = 0
    /\ DivisibleByPow2(MbfMant(b), IF MbfE2(b) >= 1 THEN 0 ELSE 1 - MbfE2(b))
MaxDigits(b) == IF Len(b) = 4 THEN 7 ELSE 16
=============================================================================
