SPECIFICATION Spec
CONSTANTS
  Roots <- MCRoots1
  CurDrive = 67
  AsCodedDots = FALSE
  AsCodedNames = TRUE
  Elems <- Elems6
  Prefixes <- Pre0
  MaxElems = 2
  NameElems = 1
  StmtSet = {"CHDIR", "MKDIR", "RMDIR", "OPENI", "OPENO", "FILES", "KILL", "NAME"}
  Dynamic = TRUE
  MaxNodes = 19
VIEW View
INVARIANT TouchedInside
INVARIANT CwdInside
INVARIANT CwdPlain
PROPERTY FailNoEffect
INVARIANT OutsideSame
CONSTRAINT Bound
