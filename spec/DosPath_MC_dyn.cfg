SPECIFICATION Spec
CONSTANTS
  Roots <- MCRoots1
  CurDrive = 67
  AsCodedDots = FALSE
  AsCodedNames = TRUE
  Elems <- Elems4
  Prefixes <- Pre0
  MaxElems = 1
  NameElems = 1
  StmtSet = {"CHDIR", "MKDIR", "RMDIR", "OPENO", "KILL", "NAME"}
  Dynamic = TRUE
  MaxNodes = 17
VIEW View
PROPERTY TouchedInside
INVARIANT CwdInside
INVARIANT CwdPlain
PROPERTY FailNoEffect
INVARIANT OutsideSame
CONSTRAINT Bound
