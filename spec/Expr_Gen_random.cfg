SPECIFICATION Spec
CONSTANTS
  Family = "random"
  MaxDepth = 5
  NRandom = 20000
  MaxOps = 99
  Positional = FALSE
INVARIANT RoundTrip
CHECK_DEADLOCK FALSE
