----------------------------- MODULE Cipher_MC -----------------------------
(* Exhaustive evaluation of the cell laws of Cipher.tla: one TLC state per
   position of TWO periods (286), each law an invariant quantified over all 256
   bytes, i.e. all 286 x 256 = 73 216 cells of both tables are evaluated.
   Source = "observed": the tables are those recorded from the real
   protect/unprotect (JSON document named by TRACE_FILE, header.enc /
   header.dec: 286 rows of 256 bytes).  Source = "kocher": Kocher's algorithm
   with the GW-BASIC keys.  ObservedIsKocher is informational only.          *)
EXTENDS Cipher, Kocher, TLC, Json, IOUtils
CONSTANT Source
VARIABLE i

Doc == JsonDeserialize(IOEnv.TRACE_FILE)
N   == 2 * Period
ERow(k) == IF Source = "observed" THEN Doc.header.enc[k + 1] ELSE KEncRow(k)
DRow(k) == IF Source = "observed" THEN Doc.header.dec[k + 1] ELSE KDecRow(k)
NRows   == IF Source = "observed" THEN <<Len(Doc.header.enc), Len(Doc.header.dec)>> ELSE <<N, N>>

Init == i \in 0..(N - 1)
Next == UNCHANGED i
Spec == Init /\ [][Next]_i

Shape     == NRows = <<N, N>> /\ LET er == ERow(i) dr == DRow(i) IN RowShape(er) /\ RowShape(dr)
RangeInv  == LET er == ERow(i) dr == DRow(i) IN RowInRange(er) /\ RowInRange(dr)
DecEncInv == LET er == ERow(i) dr == DRow(i) IN RowDecEnc(er, dr)
EncDecInv == LET er == ERow(i) dr == DRow(i) IN RowEncDec(er, dr)
PeriodInv == LET er == ERow(i) dr == DRow(i) ep == ERow(i % Period) dp == DRow(i % Period)
             IN RowSame(er, ep) /\ RowSame(dr, dp)
PermInv   == LET er == ERow(i) dr == DRow(i) IN RowPermutation(er) /\ RowPermutation(dr)
\* all laws at once for the design instance (rows computed once per position)
KocherLaws == LET er == KEncRow(i) dr == KDecRow(i) ep == KEncRow(i % Period) dp == KDecRow(i % Period)
              IN  /\ RowShape(er) /\ RowShape(dr) /\ RowInRange(er) /\ RowInRange(dr) /\ RowDecEnc(er, dr) /\ RowEncDec(er, dr)
                  /\ RowPermutation(er) /\ RowPermutation(dr) /\ RowSame(er, ep) /\ RowSame(dr, dp)
\* informational (own configuration): the observed tables are Kocher's design with the GW-BASIC keys
ObservedIsKocher == LET er == Doc.header.enc[i + 1] dr == Doc.header.dec[i + 1] ke == KEncRow(i) kd == KDecRow(i)
                    IN RowSame(er, ke) /\ RowSame(dr, kd)
=============================================================================
