----------------------------- MODULE Protect_MC -----------------------------
(* Exhaustive check of Protect.tla over ALL action sequences of length <= MaxDepth
   under the reference resolution of open outcomes, and emitter of every
   transition of the state graph for behaviour replay on the real interpreter. *)
EXTENDS Protect, TLC, Json
CONSTANT MaxDepth
VARIABLES st, act, leaked, depth
vars == <<st, act, leaked, depth>>

Init == st = InitSt /\ act = [op |-> "init", arg |-> "-", chain |-> FALSE] /\ leaked = FALSE /\ depth = 0
Do(a) == LET failed == RefFails(st, a)
         IN  /\ act' = a
             /\ st' = Effect(st, a, failed)
             /\ leaked' = (leaked \/ Leaks(st, a, failed))
             /\ depth' = depth + 1
Next == depth < MaxDepth /\ \E a \in Actions : IsAction(a) /\ Do(a)
Spec == Init /\ [][Next]_vars

View == <<st, leaked>>            \* emitter only: history (act, depth) hidden so that each abstract state is expanded once
TypeInv == TypeOK(st)
NoLeak == leaked = FALSE
FlagInv == ProtIffSecret(st)
\* only loading a ,P file sets the flag; only NEW or loading something else clears it
FlagSteps == [][st'.prot # st.prot => act'.op \in Loads]_vars
\* every listed operation is refused in every protected state, whatever the trap state and whatever came before
Refused == [][(st.prot /\ act'.op \in Listed) => (st'.prog = st.prog /\ st'.prot /\ leaked' = leaked)]_vars

Emit == PrintT(<<"TRANSITION", ToJson([from |-> st, a |-> act', must |-> Must(st, act'), reffail |-> RefFails(st, act'), to |-> st'])>>)
=============================================================================
