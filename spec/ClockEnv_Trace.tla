--------------------------- MODULE ClockEnv_Trace ---------------------------
(* Total trace specification for C44: one event per TIME$/DATE$ assignment or
   reading and per ENVIRON / ENVIRON$ call on the real interpreter
     {op, s: [bytes], r: [bytes], k: ok|err|internal, code, t0, t1}
   (t0 <= t1: harness-monotonic milliseconds just before / just after the call).
   Every event is judged by ClockEnv!Step; a rejected event appends its clause
   and the state continues from what ClockEnv!Step re-synchronised.           *)
EXTENDS ClockEnv, TraceBase
VARIABLES st, l, viol
tvars == <<st, l, viol>>

TInit == st = InitSt /\ l = 1 /\ viol = <<>>
TNext == /\ l <= NEvents
         /\ l' = l + 1
         /\ LET r == Step(st, Events[l])
            IN  /\ st' = r.st
                /\ viol' = IF r.v = "ok" THEN viol ELSE Append(viol, <<l, r.v>>)
TSpec == TInit /\ [][TNext]_tvars
TDone == (l = NEvents + 1) => WriteVerdict(l - 1, viol)
=============================================================================
