------------------------------ MODULE Interp_MC_err ------------------------------
EXTENDS Interp_MCF
VARIABLES s, hist
INSTANCE Interp_MCrun WITH Family <- ErrFamily
=============================================================================
