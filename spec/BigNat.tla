------------------------------- MODULE BigNat -------------------------------
(* Natural numbers of unbounded size as little-endian sequences of limbs in
   base LB = 2^LBits (production: 2^15, so that every intermediate product
   limb*limb+carry stays below TLC's 32-bit integer limit).  The canonical
   (normalised) form has no most-significant zero limbs; zero is <<>>.
   All operators take and return normalised values.

   On top of the naturals: signed "scaled" numbers  +-m * 2^e2 * 10^e10
   (records [neg, m, e2, e10]) with exact addition, subtraction,
   multiplication and comparison; they carry every exact-arithmetic argument
   of the floating point (C04) and decimal conversion (C07) oracles, so no
   judgement is ever made with a rounded quantity.

   BigNat_MC checks every operator against TLC's native integer arithmetic
   for all operands below a bound with a small limb base.                   *)
EXTENDS Integers, Sequences
CONSTANTS LB, LBits
ASSUME LB = 2 ^ LBits /\ LBits >= 1 /\ LBits <= 15

BZero == <<>>
IsNorm(a) == Len(a) = 0 \/ a[Len(a)] # 0
IsBig(a) == /\ IsNorm(a)
            /\ \A i \in 1..Len(a) : a[i] \in 0..(LB - 1)

RECURSIVE Norm(_)
Norm(a) == IF Len(a) = 0 \/ a[Len(a)] # 0 THEN a ELSE Norm(SubSeq(a, 1, Len(a) - 1))

RECURSIVE FromInt(_)
FromInt(n) == IF n = 0 THEN <<>> ELSE <<n % LB>> \o FromInt(n \div LB)

\* only for values known to fit a native integer (self-check, small results)
RECURSIVE ToIntR(_, _)
ToIntR(a, i) == IF i > Len(a) THEN 0 ELSE a[i] + LB * ToIntR(a, i + 1)
ToInt(a) == ToIntR(a, 1)

RECURSIVE CmpR(_, _, _)
CmpR(a, b, i) == IF i = 0 THEN 0
                 ELSE IF a[i] < b[i] THEN -1
                 ELSE IF a[i] > b[i] THEN 1
                 ELSE CmpR(a, b, i - 1)
\* -1, 0, 1
Cmp(a, b) == IF Len(a) < Len(b) THEN -1
             ELSE IF Len(a) > Len(b) THEN 1
             ELSE CmpR(a, b, Len(a))
Lt(a, b) == Cmp(a, b) < 0
Le(a, b) == Cmp(a, b) <= 0
IsZero(a) == Len(a) = 0

Limb(a, i) == IF i <= Len(a) THEN a[i] ELSE 0

RECURSIVE AddR(_, _, _, _, _)
AddR(a, b, i, c, acc) ==
    IF i > Len(a) /\ i > Len(b)
    THEN IF c = 0 THEN acc ELSE Append(acc, c)
    ELSE LET s == Limb(a, i) + Limb(b, i) + c
         IN  AddR(a, b, i + 1, s \div LB, Append(acc, s % LB))
Add(a, b) == AddR(a, b, 1, 0, <<>>)

\* a - b for a >= b
RECURSIVE SubR(_, _, _, _, _)
SubR(a, b, i, br, acc) ==
    IF i > Len(a) THEN acc
    ELSE LET d == a[i] - Limb(b, i) - br
         IN  IF d < 0 THEN SubR(a, b, i + 1, 1, Append(acc, d + LB))
             ELSE SubR(a, b, i + 1, 0, Append(acc, d))
Sub(a, b) == Norm(SubR(a, b, 1, 0, <<>>))
AbsDiff(a, b) == IF Lt(a, b) THEN Sub(b, a) ELSE Sub(a, b)

\* a * k, a + k for a native k with 0 <= k <= 2^16 (k * LB must stay below 2^31)
RECURSIVE MulSmallR(_, _, _, _, _)
MulSmallR(a, k, i, c, acc) ==
    IF i > Len(a)
    THEN IF c = 0 THEN acc ELSE acc \o FromInt(c)
    ELSE LET p == a[i] * k + c
         IN  MulSmallR(a, k, i + 1, p \div LB, Append(acc, p % LB))
MulSmall(a, k) == IF k = 0 \/ Len(a) = 0 THEN <<>>
                  ELSE IF k = 1 THEN a ELSE MulSmallR(a, k, 1, 0, <<>>)
AddSmall(a, k) == IF k = 0 THEN a ELSE Add(a, FromInt(k))

ShlLimbs(a, n) == IF Len(a) = 0 \/ n = 0 THEN a ELSE [i \in 1..n |-> 0] \o a
\* a * 2^bits
Shl(a, bits) == ShlLimbs(MulSmall(a, 2 ^ (bits % LBits)), bits \div LBits)
Pow2(bits) == Shl(<<1>>, bits)

RECURSIVE MulR(_, _, _, _)
MulR(a, b, i, acc) ==
    IF i > Len(b) THEN acc
    ELSE MulR(a, b, i + 1, IF b[i] = 0 THEN acc ELSE Add(acc, ShlLimbs(MulSmall(a, b[i]), i - 1)))
Mul(a, b) == IF Len(a) = 0 \/ Len(b) = 0 THEN <<>>
             ELSE IF Len(a) >= Len(b) THEN MulR(a, b, 1, <<>>) ELSE MulR(b, a, 1, <<>>)

\* remainder and quotient by a native k with 1 <= k <= 2^16
RECURSIVE ModSmallR(_, _, _, _)
ModSmallR(a, k, i, r) == IF i = 0 THEN r ELSE ModSmallR(a, k, i - 1, (r * LB + a[i]) % k)
ModSmall(a, k) == ModSmallR(a, k, Len(a), 0)
RECURSIVE DivSmallR(_, _, _, _, _)
DivSmallR(a, k, i, r, acc) ==
    IF i = 0 THEN acc
    ELSE LET t == r * LB + a[i]
         IN  DivSmallR(a, k, i - 1, t % k, <<t \div k>> \o acc)
DivSmall(a, k) == Norm(DivSmallR(a, k, Len(a), 0, <<>>))

\* is a a multiple of 2^bits ?
DivisibleByPow2(a, bits) ==
    LET q == bits \div LBits
        r == bits % LBits
    IN  \/ Len(a) = 0
        \/ /\ Len(a) > q
           /\ \A i \in 1..q : a[i] = 0
           /\ a[q + 1] % (2 ^ r) = 0

\* little-endian byte sequence -> BigNat.  Limb j holds bits [LBits*j, LBits*(j+1)) of the number; they lie
\* in at most three consecutive bytes (LBits <= 15), which are combined natively (below 2^24).
ByteAt(bytes, q) == IF q <= Len(bytes) THEN bytes[q] ELSE 0
LimbOfBytes(bytes, j) ==
    LET q == (LBits * j) \div 8 + 1
        r == (LBits * j) % 8
    IN  ((ByteAt(bytes, q) + 256 * ByteAt(bytes, q + 1) + 65536 * ByteAt(bytes, q + 2)) \div (2 ^ r)) % LB
FromBytesLE(bytes) ==
    Norm([j \in 1..((8 * Len(bytes) + LBits - 1) \div LBits) |-> LimbOfBytes(bytes, j - 1)])
\* the same by Horner's rule (any radix <= 2^16; most significant digit LAST); used to cross-check FromBytesLE
RECURSIVE FromDigitsLER(_, _, _, _)
FromDigitsLER(d, radix, i, acc) ==
    IF i = 0 THEN acc ELSE FromDigitsLER(d, radix, i - 1, AddSmall(MulSmall(acc, radix), d[i]))
FromBytesHorner(bytes) == FromDigitsLER(bytes, 256, Len(bytes), <<>>)
\* decimal digit sequence, most significant FIRST (digit values 0..9)
RECURSIVE FromDecR(_, _, _)
FromDecR(d, i, acc) ==
    IF i > Len(d) THEN acc ELSE FromDecR(d, i + 1, AddSmall(MulSmall(acc, 10), d[i]))
FromDec(d) == FromDecR(d, 1, <<>>)

\* table of powers of ten, built once (constant-level definition): Pow10Tab[n+1] = 10^n
\* (a short table for the small self-check bases, whose limb sequences are long)
Pow10Max == IF LBits >= 10 THEN 130 ELSE 12
RECURSIVE Pow10TabR(_, _)
Pow10TabR(t, n) == IF n > Pow10Max THEN t ELSE Pow10TabR(Append(t, MulSmall(t[n], 10)), n + 1)
Pow10Tab == Pow10TabR(<<<<1>>>>, 1)
RECURSIVE Pow10Slow(_)
Pow10Slow(n) == IF n = 0 THEN <<1>> ELSE MulSmall(Pow10Slow(n - 1), 10)
Pow10(n) == IF n <= Pow10Max THEN Pow10Tab[n + 1] ELSE Pow10Slow(n)

-----------------------------------------------------------------------------
(* signed scaled numbers: [neg |-> BOOLEAN, m |-> BigNat, e2 |-> Int, e10 |-> Int]
   meaning (IF neg THEN -1 ELSE 1) * m * 2^e2 * 10^e10.  Zero has m = <<>>. *)
Sc(neg, m, e2, e10) == [neg |-> neg, m |-> m, e2 |-> e2, e10 |-> e10]
ScZero == Sc(FALSE, <<>>, 0, 0)
ScIsZero(x) == Len(x.m) = 0
ScInt(n) == IF n < 0 THEN Sc(TRUE, FromInt(-n), 0, 0) ELSE Sc(FALSE, FromInt(n), 0, 0)
ScPow2(k) == Sc(FALSE, <<1>>, k, 0)
ScPow10(k) == Sc(FALSE, <<1>>, 0, k)
ScNeg(x) == IF ScIsZero(x) THEN x ELSE [x EXCEPT !.neg = ~x.neg]
ScAbs(x) == [x EXCEPT !.neg = FALSE]
Min(a, b) == IF a < b THEN a ELSE b
\* the integer x.m * 2^(x.e2 - e2) * 10^(x.e10 - e10), for e2 <= x.e2 and e10 <= x.e10
ScMantAt(x, e2, e10) ==
    IF Len(x.m) = 0 THEN <<>>
    ELSE LET s == IF x.e2 = e2 THEN x.m ELSE Shl(x.m, x.e2 - e2)
         IN  IF x.e10 = e10 THEN s ELSE Mul(s, Pow10(x.e10 - e10))
ScMul(x, y) == IF ScIsZero(x) \/ ScIsZero(y) THEN ScZero
               ELSE Sc(x.neg # y.neg, Mul(x.m, y.m), x.e2 + y.e2, x.e10 + y.e10)
ScAdd(x, y) ==
    IF ScIsZero(x) THEN y ELSE IF ScIsZero(y) THEN x
    ELSE LET e2 == Min(x.e2, y.e2)
             e10 == Min(x.e10, y.e10)
             a == ScMantAt(x, e2, e10)
             b == ScMantAt(y, e2, e10)
         IN  IF x.neg = y.neg THEN Sc(x.neg, Add(a, b), e2, e10)
             ELSE LET c == Cmp(a, b)
                  IN  IF c = 0 THEN ScZero
                      ELSE IF c > 0 THEN Sc(x.neg, Sub(a, b), e2, e10)
                      ELSE Sc(y.neg, Sub(b, a), e2, e10)
ScSub(x, y) == ScAdd(x, ScNeg(y))
\* compare magnitudes: -1, 0, 1
ScCmpAbs(x, y) ==
    IF ScIsZero(x) THEN (IF ScIsZero(y) THEN 0 ELSE -1)
    ELSE IF ScIsZero(y) THEN 1
    ELSE LET e2 == Min(x.e2, y.e2)
             e10 == Min(x.e10, y.e10)
         IN  Cmp(ScMantAt(x, e2, e10), ScMantAt(y, e2, e10))
ScAbsLt(x, y) == ScCmpAbs(x, y) < 0
ScAbsLe(x, y) == ScCmpAbs(x, y) <= 0
ScSign(x) == IF ScIsZero(x) THEN 0 ELSE IF x.neg THEN -1 ELSE 1
\* signed comparison: -1, 0, 1
ScCmp(x, y) ==
    LET sx == ScSign(x)
        sy == ScSign(y)
    IN  IF sx # sy THEN (IF sx < sy THEN -1 ELSE 1)
        ELSE IF sx = 0 THEN 0
        ELSE sx * ScCmpAbs(x, y)
ScEq(x, y) == ScCmp(x, y) = 0
=============================================================================
