----------------------------- MODULE C05_Trace -----------------------------
(* Trace validation for C05: arithmetic identities on results of the real
   interpreter, judged with the predicates of MBF.tla.
   An outcome is four fields with a suffix: k ("val" | "err" | "soft" | "internal"),
   t (result type), b (result bytes), c (error code).
   Events (id):
     comm   op in {add, mul}: x op y (suffix 1) and y op x (suffix 2)
     ident  op in {add0, 0add, mul1, 1mul, div1, subself, neg, negneg, abs, sgn}:
            operand x (type tx), unit operand y (type ty) where there is one,
            outcome without suffix
     promo  op in {add, sub, mul, div}: x op y on operands of different types
            (suffix 1) and on the operands converted to the wider type first
            (xw, yw: what the interpreter's own conversion gave; suffix 2)   *)
EXTENDS MBF, TraceBase
VARIABLES l, viol

\* "soft": a floating-point error handled on the console (message, execution goes on with the substituted value)
Out(k, t, b, c) == IF k = "val" THEN <<"val", t, b>> ELSE IF k = "err" THEN <<"err", c>>
                   ELSE IF k = "soft" THEN <<"soft", c, t, b>> ELSE <<k>>
ValOK(k, t, b) == k = "val" /\ WellFormed(t, b)
\* "mixed-type operations promote to the wider operand type": constrains the result type of
\* mixed pairings only (same-type pairings: the statement is silent; see C18 for integer op integer)
TypeOK(tx, ty, t) == tx # ty => t = Wider(tx, ty)

CommV(e) ==
    IF e.k1 = "internal" \/ e.k2 = "internal" THEN "internal_error"
    ELSE IF Out(e.k1, e.t1, e.b1, e.c1) # Out(e.k2, e.t2, e.b2, e.c2) THEN "comm_" \o e.op
    ELSE IF e.k1 \in {"val", "soft"} /\ ~TypeOK(e.tx, e.ty, e.t1) THEN "comm_result_type"
    ELSE "ok"

IdentV(e) ==
    LET x == Decode(e.x)
        r == Decode(e.b)
    IN
    IF e.k = "internal" THEN "internal_error"
    ELSE IF ~ValOK(e.k, e.t, e.b) THEN "ident_" \o e.op \o "_outcome"
    ELSE CASE e.op \in {"add0", "0add"} ->
                IF ~IsZero(Decode(e.y)) THEN "malformed_event"
                ELSE IF ~EqualV(r, x) THEN "ident_" \o e.op
                ELSE IF ~TypeOK(e.tx, e.ty, e.t) THEN "ident_result_type" ELSE "ok"
           [] e.op \in {"mul1", "1mul", "div1"} ->
                IF ~EqualV(Decode(e.y), FromInt(1)) THEN "malformed_event"
                ELSE IF ~EqualV(r, x) THEN "ident_" \o e.op
                ELSE IF ~TypeOK(e.tx, e.ty, e.t) THEN "ident_result_type" ELSE "ok"
           [] e.op = "subself" -> IF IsZero(r) THEN "ok" ELSE "ident_subself"
           [] e.op = "neg"     -> IF EqualV(r, Neg(x)) THEN "ok" ELSE "ident_neg"
           [] e.op = "negneg"  -> IF EqualV(r, x) THEN "ok" ELSE "ident_negneg"
           [] e.op = "abs"     -> IF Cmp(r, Zero) < 0 THEN "ident_abs_negative"
                                  ELSE IF EqualV(r, x) \/ EqualV(r, Neg(x)) THEN "ok" ELSE "ident_abs_value"
           [] e.op = "sgn"     -> IF EqualV(r, FromInt(SignOf(x))) THEN "ok" ELSE "ident_sgn"
           [] OTHER -> "unknown_op"

PromoV(e) ==
    IF e.k1 = "internal" \/ e.k2 = "internal" THEN "internal_error"
    ELSE LET w == Wider(e.tx, e.ty) IN
         \* the converted operands really are x and y in the wider type (sanity of the event)
         IF ~(WellFormed(w, e.xw) /\ WellFormed(w, e.yw) /\ EqualV(Decode(e.xw), Decode(e.x))
              /\ EqualV(Decode(e.yw), Decode(e.y))) THEN "promo_conversion_inexact"
         ELSE IF e.k1 \in {"val", "soft"} /\ e.t1 # w THEN "promo_result_type"
         ELSE IF Out(e.k1, e.t1, e.b1, e.c1) # Out(e.k2, e.t2, e.b2, e.c2) THEN "promo_" \o e.op
         ELSE "ok"

V(e) == CASE e.id = "comm" -> CommV(e)
          [] e.id = "ident" -> IdentV(e)
          [] e.id = "promo" -> PromoV(e)
          [] OTHER -> "unknown_id"

INSTANCE OracleTrace WITH Verdict <- V
=============================================================================
