-------------------------------- MODULE Expr --------------------------------
(* Expressions of BASIC (property C18): operator trees, their value and type,
   and their text.

   A tree is   [k |-> "leaf", x |-> text, v |-> value]
             | [k |-> "un",  op |-> "neg" | "NOT", a |-> tree]
             | [k |-> "bin", op |-> binary operator, l |-> tree, r |-> tree]
             | [k |-> "hole"]                       (a missing operand)
   A value is  [k |-> "num", ty |-> "%" | "!" | "#", n |-> num, d |-> den]   (n/d, d a power of two, lowest terms)
             | [k |-> "str", s |-> sequence of character codes]
             | [k |-> "err", codes |-> set of acceptable error numbers]
             | [k |-> "out"]     the tree leaves the fragment in which the specification is exact
                                 (value not exactly representable, overflow, division by zero, non-integral
                                 operand of an integer operator): such trees are never generated.

   The statement (C18): precedence  ^ > unary minus > * / > \ > MOD > + - > relational > NOT > AND > OR > XOR >
   EQV > IMP, left grouping at equal precedence; arithmetic results take the widest operand type, / and ^ never
   integer; relational operators yield integer -1 or 0; type mismatch (13) and missing operand (22).

   Text and tree are related in BOTH directions inside the specification: Toks(t, style) renders a tree with
   minimal (or redundant) parentheses and Parse(tokens) is the precedence parser the statement describes;
   Expr_MC checks Parse(Toks(t)) = t on all small trees, so the rendering is not an independent assumption.

   Deviations of the pinned code from the literal statement are NAMED (set D of deviation names); they are only
   used to label a rejected observation with the class it belongs to, never to accept it.                    *)
EXTENDS Int16, Sequences, FiniteSets

(* ---------------- operators ------------------------------------------------------------------------------ *)
RelOps == {"=", "<", ">", "<=", ">=", "<>"}
LogOps == {"AND", "OR", "XOR", "EQV", "IMP"}
AriOps == {"^", "*", "/", "\\", "MOD", "+", "-"}
BinOps == AriOps \cup RelOps \cup LogOps
UnOps  == {"neg", "NOT"}

Prec(op) == CASE op = "^" -> 13
              [] op = "neg" -> 12
              [] op \in {"*", "/"} -> 11
              [] op = "\\" -> 10
              [] op = "MOD" -> 9
              [] op \in {"+", "-"} -> 8
              [] op \in RelOps -> 7
              [] op = "NOT" -> 6
              [] op = "AND" -> 5
              [] op = "OR" -> 4
              [] op = "XOR" -> 3
              [] op = "EQV" -> 2
              [] op = "IMP" -> 1
NoPrec == 99

(* ---------------- values --------------------------------------------------------------------------------- *)
Out == [k |-> "out"]
Err(cs) == [k |-> "err", codes |-> cs]
Str(s) == [k |-> "str", s |-> s]
TypeMismatch == 13
MissingOperand == 22

MaxNum == 524288          \* |numerator| <= 2^19, denominator <= 2^10: exact in single and double, no 32-bit overflow below
MaxDen == 1024
Big    == 1073741823
RECURSIVE Reduce(_, _)
Reduce(n, d) == IF d > 1 /\ n % 2 = 0 THEN Reduce(n \div 2, d \div 2) ELSE <<n, d>>
RECURSIVE IsPow2(_)
IsPow2(x) == x = 1 \/ (x > 1 /\ x % 2 = 0 /\ IsPow2(x \div 2))
RECURSIVE Gcd(_, _)
Gcd(a, b) == IF b = 0 THEN a ELSE Gcd(b, a % b)

Fits(ty, n, d) == IF ty = "%" THEN d = 1 /\ InS(16, n) ELSE Abs(n) <= MaxNum /\ d <= MaxDen
Num(ty, n, d) == LET r == Reduce(n, d)
                 IN  IF Fits(ty, r[1], r[2]) THEN [k |-> "num", ty |-> ty, n |-> r[1], d |-> r[2]] ELSE Out
Rank(ty) == CASE ty = "%" -> 1 [] ty = "!" -> 2 [] ty = "#" -> 3
Wider(t1, t2) == IF Rank(t1) >= Rank(t2) THEN t1 ELSE t2
NotInt(ty) == IF ty = "%" THEN "!" ELSE ty
IsInt16(v) == v.d = 1 /\ InS(16, v.n)
MulOK(a, b) == a = 0 \/ Abs(b) <= Big \div Abs(a)

RECURSIVE LexLT(_, _)
LexLT(s, t) == IF t = <<>> THEN FALSE
               ELSE IF s = <<>> THEN TRUE
               ELSE IF s[1] # t[1] THEN s[1] < t[1]
               ELSE LexLT(Tail(s), Tail(t))
Bool(b) == [k |-> "num", ty |-> "%", n |-> (IF b THEN -1 ELSE 0), d |-> 1]
RelHolds(op, lt, eq) == CASE op = "=" -> eq [] op = "<>" -> ~eq [] op = "<" -> lt [] op = "<=" -> (lt \/ eq)
                          [] op = ">" -> (~lt /\ ~eq) [] op = ">=" -> ~lt

\* base^e for an integer e >= 0 by repeated multiplication; <<n, d>> or <<>> when a product leaves the 32-bit range
RECURSIVE PowNat(_, _, _)
PowNat(n, d, e) == IF e = 0 THEN <<1, 1>>
                   ELSE LET p == PowNat(n, d, e - 1)
                        IN  IF p = <<>> THEN <<>>
                            ELSE IF ~MulOK(p[1], n) \/ ~MulOK(p[2], d) \/ p[2] * d > Big \div 2 THEN <<>>
                            ELSE <<p[1] * n, p[2] * d>>
LowerOp(op) == CASE op = "AND" -> "and" [] op = "OR" -> "or" [] op = "XOR" -> "xor" [] op = "EQV" -> "eqv" [] op = "IMP" -> "imp"

(* D: set of named deviations: "ia"  integer + - * integer and unary minus of an integer are typed single
                               "pd"  ^ is typed single even with a double operand
                               "ns"  unary minus of a string is the string                                   *)
NumBin(D, op, a, b) ==
    LET w == Wider(a.ty, b.ty)
        ia == IF w = "%" /\ "ia" \in D THEN "!" ELSE w
    IN  CASE op = "+" -> Num(ia, a.n * b.d + b.n * a.d, a.d * b.d)
          [] op = "-" -> Num(ia, a.n * b.d - b.n * a.d, a.d * b.d)
          [] op = "*" -> IF MulOK(a.n, b.n) THEN Num(ia, a.n * b.n, a.d * b.d) ELSE Out
          [] op = "/" -> IF b.n = 0 THEN Out
                         ELSE LET num == a.n * b.d * Sgn(b.n)
                                  den == a.d * Abs(b.n)
                                  g   == Gcd(Abs(num), den)
                              IN  IF IsPow2(den \div g) THEN Num(NotInt(w), num \div g, den \div g) ELSE Out
          [] op = "^" -> IF b.d # 1 \/ Abs(b.n) > 12 \/ (a.n = 0 /\ b.n < 0) THEN Out
                         ELSE LET p  == PowNat(a.n, a.d, Abs(b.n))
                                  ty == IF "pd" \in D THEN "!" ELSE NotInt(w)
                              IN  IF p = <<>> THEN Out
                                  ELSE IF b.n >= 0 THEN Num(ty, p[1], p[2])
                                  ELSE IF IsPow2(Abs(p[1])) THEN Num(ty, Sgn(p[1]) * p[2], Abs(p[1])) ELSE Out
          [] op \in {"\\", "MOD"} ->
                         IF ~IsInt16(a) \/ ~IsInt16(b) \/ b.n = 0 \/ ~InS(16, TDiv(a.n, b.n)) THEN Out
                         ELSE Num("%", IF op = "MOD" THEN TMod(a.n, b.n) ELSE TDiv(a.n, b.n), 1)
          [] op \in RelOps -> Bool(RelHolds(op, a.n * b.d < b.n * a.d, a.n * b.d = b.n * a.d))
          [] op \in LogOps -> IF ~IsInt16(a) \/ ~IsInt16(b) THEN Out
                              ELSE Num("%", BitOp(16, LowerOp(op), a.n, b.n), 1)

ApplyBin(D, op, a, b) ==
    IF a.k = "out" \/ b.k = "out" THEN Out
    ELSE IF a.k = "err" \/ b.k = "err" THEN
         Err((IF a.k = "err" THEN a.codes ELSE {}) \cup (IF b.k = "err" THEN b.codes ELSE {}))
    ELSE IF a.k = "str" /\ b.k = "str" THEN
         (IF op = "+" THEN Str(a.s \o b.s)
          ELSE IF op \in RelOps THEN Bool(RelHolds(op, LexLT(a.s, b.s), a.s = b.s))
          ELSE Err({TypeMismatch}))
    ELSE IF a.k = "str" \/ b.k = "str" THEN
         \* a string with a number: Type mismatch - unless the number is itself no operand of this operator
         \* (beyond the integer range of \ MOD AND .. IMP), where the statement does not say which error wins
         (LET num == IF a.k = "str" THEN b ELSE a
          IN  IF op \in {"\\", "MOD"} \cup LogOps /\ ~IsInt16(num) THEN Out ELSE Err({TypeMismatch}))
    ELSE NumBin(D, op, a, b)

ApplyUn(D, op, a) ==
    IF a.k \in {"out", "err"} THEN a
    ELSE IF a.k = "str" THEN (IF op = "neg" /\ "ns" \in D THEN a ELSE Err({TypeMismatch}))
    ELSE IF op = "neg" THEN Num(IF a.ty = "%" /\ "ia" \in D THEN "!" ELSE a.ty, -a.n, a.d)
    ELSE IF ~IsInt16(a) THEN Out ELSE Num("%", BitNot(16, a.n), 1)

RECURSIVE EvalD(_, _)
EvalD(D, t) == CASE t.k = "leaf" -> t.v
                 [] t.k = "hole" -> Err({MissingOperand})
                 [] t.k = "un"   -> ApplyUn(D, t.op, EvalD(D, t.a))
                 [] t.k = "bin"  -> ApplyBin(D, t.op, EvalD(D, t.l), EvalD(D, t.r))
Eval(t) == EvalD({}, t)                 \* the statement
Type(t) == LET v == Eval(t) IN IF v.k = "num" THEN v.ty ELSE IF v.k = "str" THEN "$" ELSE v.k

RECURSIVE HasHole(_)
HasHole(t) == CASE t.k = "hole" -> TRUE [] t.k = "leaf" -> FALSE [] t.k = "un" -> HasHole(t.a)
                [] t.k = "bin" -> HasHole(t.l) \/ HasHole(t.r)
RECURSIVE Depth(_)
Depth(t) == CASE t.k \in {"hole", "leaf"} -> 0 [] t.k = "un" -> 1 + Depth(t.a)
              [] t.k = "bin" -> 1 + (IF Depth(t.l) > Depth(t.r) THEN Depth(t.l) ELSE Depth(t.r))

(* ---------------- text ----------------------------------------------------------------------------------- *)
\* tokens: [k |-> "leaf", t |-> leaf tree] | [k |-> "un", op] | [k |-> "bin", op] | [k |-> "lp"] | [k |-> "rp"] | [k |-> "hole"]
Min2(a, b) == IF a < b THEN a ELSE b
Wrap(ts) == <<[k |-> "lp"]>> \o ts \o <<[k |-> "rp"]>>
Atomic(t) == t.k \in {"leaf", "hole"}

\* R(t, style) = [ts: tokens, rs: lowest precedence of an operator open at the right end, ls: lowest precedence of a
\* BINARY operator open at the left end].  An operand is parenthesised
\*   on the left of a binary operator p   iff an operator open at its right end binds weaker than p (it would swallow p),
\*   on the right of p                     iff a binary operator open at its left end does not bind tighter than p
\*                                             (left grouping: equal precedence groups to the left),
\*   under a unary operator u              iff a binary operator open at its left end does not bind tighter than u;
\* a unary operator at the left end never needs parentheses ("2^-2", "1 * NOT 2"): it has no left operand to lose.
\* styles: "min" only these; "full" every non-atomic operand; "left"/"right" every non-atomic left/right operand.
RECURSIVE R(_, _)
R(t, style) ==
    CASE t.k = "leaf" -> [ts |-> <<[k |-> "leaf", t |-> t]>>, rs |-> NoPrec, ls |-> NoPrec]
      [] t.k = "hole" -> [ts |-> <<[k |-> "hole"]>>, rs |-> NoPrec, ls |-> NoPrec]
      [] t.k = "un" ->
            LET a == R(t.a, style)
                p == (~Atomic(t.a) /\ style \in {"full", "right"}) \/ a.ls <= Prec(t.op)
            IN  [ts |-> <<[k |-> "un", op |-> t.op]>> \o (IF p THEN Wrap(a.ts) ELSE a.ts),
                 rs |-> Min2(Prec(t.op), IF p THEN NoPrec ELSE a.rs),
                 ls |-> NoPrec]
      [] t.k = "bin" ->
            LET l  == R(t.l, style)
                r  == R(t.r, style)
                pl == (~Atomic(t.l) /\ style \in {"full", "left"}) \/ l.rs < Prec(t.op)
                pr == (~Atomic(t.r) /\ style \in {"full", "right"}) \/ r.ls <= Prec(t.op)
            IN  [ts |-> (IF pl THEN Wrap(l.ts) ELSE l.ts) \o <<[k |-> "bin", op |-> t.op]>> \o (IF pr THEN Wrap(r.ts) ELSE r.ts),
                 rs |-> Min2(Prec(t.op), IF pr THEN NoPrec ELSE r.rs),
                 ls |-> Min2(Prec(t.op), IF pl THEN NoPrec ELSE l.ls)]
Toks(t, style) == R(t, style).ts

SymUn(op)  == IF op = "neg" THEN "-" ELSE "NOT "
SymBin(op, style) == IF op \in {"MOD"} \cup LogOps \/ style # "min" THEN " " \o op \o " " ELSE op
TokText(tok, style) == CASE tok.k = "leaf" -> tok.t.x [] tok.k = "hole" -> "" [] tok.k = "lp" -> "(" [] tok.k = "rp" -> ")"
                         [] tok.k = "un" -> SymUn(tok.op) [] tok.k = "bin" -> SymBin(tok.op, style)
RECURSIVE Join(_, _, _)
Join(ts, i, style) == IF i > Len(ts) THEN "" ELSE TokText(ts[i], style) \o Join(ts, i + 1, style)
Render(t, style) == Join(Toks(t, style), 1, style)
\* the missing operand is the last token: the text just stops
HoleAtEnd(t, style) == LET ts == Toks(t, style) IN ts[Len(ts)].k = "hole"

(* ---------------- the parser the statement describes (precedence climbing) -------------------------------- *)
\* PExpr(ts, i, m): parse from token i an expression all of whose top-level binary operators bind at least as
\* tightly as m; result [t |-> tree, i |-> next position].  A prefix operator u takes as operand the longest
\* expression whose binary operators bind tighter than u.  Equal precedence groups to the left.
RECURSIVE PExpr(_, _, _), PLoop(_, _, _, _), PPrimary(_, _)
PPrimary(ts, i) ==
    IF i > Len(ts) THEN [t |-> [k |-> "hole"], i |-> i]
    ELSE CASE ts[i].k = "leaf" -> [t |-> ts[i].t, i |-> i + 1]
           [] ts[i].k = "hole" -> [t |-> [k |-> "hole"], i |-> i + 1]
           [] ts[i].k = "lp"   -> LET e == PExpr(ts, i + 1, 0) IN [t |-> e.t, i |-> e.i + 1]
           [] ts[i].k = "un"   -> LET e == PExpr(ts, i + 1, Prec(ts[i].op) + 1)
                                  IN  [t |-> [k |-> "un", op |-> ts[i].op, a |-> e.t], i |-> e.i]
           [] OTHER -> [t |-> [k |-> "hole"], i |-> i]
PLoop(ts, left, i, m) ==
    IF i <= Len(ts) /\ ts[i].k = "bin" /\ Prec(ts[i].op) >= m
    THEN LET e == PExpr(ts, i + 1, Prec(ts[i].op) + 1)
         IN  PLoop(ts, [k |-> "bin", op |-> ts[i].op, l |-> left, r |-> e.t], e.i, m)
    ELSE [t |-> left, i |-> i]
PExpr(ts, i, m) == LET p == PPrimary(ts, i) IN PLoop(ts, p.t, p.i, m)
Parse(ts) == PExpr(ts, 1, 0).t

(* ---------------- judging an observation ------------------------------------------------------------------ *)
\* obs: [k |-> "num", ty, py, n, d] | [k |-> "str", py, s] | [k |-> "err", code] | [k |-> "internal"] | [k |-> other]
\* ty = "?" when the observation does not show the type (PRINT)
PyOf(ty) == IF ty = "%" THEN "int" ELSE "float"
Cat(exp, obs) ==
    IF exp.k = "out" THEN "outside_fragment"
    ELSE IF obs.k = "internal" THEN "internal_error"
    ELSE IF exp.k = "err" THEN (IF obs.k # "err" THEN "error_not_raised"
                                ELSE IF obs.code \notin exp.codes THEN "wrong_error" ELSE "ok")
    ELSE IF obs.k = "err" THEN "unexpected_error"
    ELSE IF exp.k = "str" THEN (IF obs.k = "str" /\ obs.s = exp.s THEN "ok" ELSE "value")
    ELSE IF obs.k # "num" THEN "value"
    ELSE IF obs.n # exp.n \/ obs.d # exp.d THEN "value"
    ELSE IF obs.ty # "?" /\ (obs.ty # exp.ty \/ obs.py # PyOf(exp.ty)) THEN "type"
    ELSE "ok"

Devs == <<{"ia"}, {"pd"}, {"ns"}, {"ia", "pd"}, {"ia", "ns"}, {"pd", "ns"}, {"ia", "pd", "ns"}>>
DevName(i) == CASE i = 1 -> "ia" [] i = 2 -> "pd" [] i = 3 -> "ns" [] i = 4 -> "ia+pd" [] i = 5 -> "ia+ns" [] i = 6 -> "pd+ns" [] i = 7 -> "ia+pd+ns"

\* exp: what the statement demands (holes that are not the last token may also be reported as a syntax error)
Expected(t, style) == LET v == Eval(t)
                      IN  IF v.k = "err" /\ HasHole(t) /\ ~HoleAtEnd(t, style) THEN Err(v.codes \cup {2}) ELSE v
Judge(t, style, obs) ==
    LET c == Cat(Expected(t, style), obs)
    IN  IF c = "ok" THEN "ok"
        ELSE IF \E i \in 1..7 : Cat(EvalD(Devs[i], t), obs) = "ok"
        THEN c \o "_as_coded_" \o DevName(CHOOSE i \in 1..7 : Cat(EvalD(Devs[i], t), obs) = "ok" /\ \A j \in 1..(i - 1) : Cat(EvalD(Devs[j], t), obs) # "ok")
        ELSE c
=============================================================================
