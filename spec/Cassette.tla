------------------------------ MODULE Cassette ------------------------------
(* Cassette images (property C29), functional-core style, in two layers.

   Reference layer: the tape holds a sequence of files <<name, type, len, id>>;
   reading by name finds, from the current tape position on, the first file
   with that name, reports the files passed over as skipped, and delivers that
   file's type and exactly its own bytes 0..len-1 - nothing of another file -
   and leaves the tape positioned at the following file.

   Implementation-shaped layer: the tape is a sequence of RECORDS
     header  [k |-> "hdr", name, type, id]
     data    [k |-> "data", id, off, n, count]  one 256-byte block: count byte + Payload bytes,
             count = 0: not the last record, n = Payload stream bytes are valid
             count > 0: last record, count - 1 stream bytes are valid
     binary  [k |-> "bin", id, n]               one multi-block record (tokenised/protected programs, memory images)
   written by OpenWrite / Write(n) / Flush (every Payload = 255 stream bytes) / Close, read by Search / ReadFile.
   The byte stream of a text file (data file, ASCII program) is its len bytes plus one terminating NUL.
   File contents are abstracted to pieces <<id, off, n>> ("bytes off..off+n-1 of file id"), so that the record size
   stays the real 255 and mixing of files shows.  TLC checks the record layer against the reference layer
   (RoundTrip) for every tape session of the bounded model.

   AsCoded = TRUE is the writer as coded before the repair: Flush wrote a full record as soon as 255 bytes were
   buffered, so a stream of exactly k*255 bytes (file length = 254 mod 255) got no last record.               *)
EXTENDS Integers, Sequences

CONSTANTS Payload,      \* stream bytes per data record (255)
          AsCoded

TextTypes == {"D", "A"}                 \* data file, ASCII program: sequence of one-block records
BinTypes  == {"B", "P", "M"}            \* tokenised, protected, memory image: one multi-block record
IsText(t) == t \in TextTypes

Hdr(f)  == [k |-> "hdr", name |-> f.name, type |-> f.type, id |-> f.id]
Data(id, off, n, count) == [k |-> "data", id |-> id, off |-> off, n |-> n, count |-> count]
Bin(id, n) == [k |-> "bin", id |-> id, n |-> n]

NoWriter == [open |-> FALSE]
InitSt == [tape |-> <<>>, w |-> NoWriter, files |-> <<>>]

\* ---------------------------------------------------------------- writer (record layer)
\* number of full records Flush writes when buf stream bytes are buffered
FullRecs(buf) == IF AsCoded THEN buf \div Payload
                 ELSE IF buf = 0 THEN 0 ELSE (buf - 1) \div Payload
Flush(st) ==
    LET w == st.w
        k == IF IsText(w.f.type) THEN FullRecs(w.buf) ELSE 0
    IN  [st EXCEPT !.tape = @ \o [i \in 1..k |-> Data(w.f.id, w.off + (i - 1) * Payload, Payload, 0)],
                   !.w.buf = @ - k * Payload,
                   !.w.off = @ + k * Payload]
OpenWrite(st, f) == [st EXCEPT !.tape = Append(@, Hdr(f)), !.w = [open |-> TRUE, f |-> f, buf |-> 0, off |-> 0, wr |-> 0]]
Write(st, n) == Flush([st EXCEPT !.w.buf = @ + n, !.w.wr = @ + n])
Close(st) ==
    LET s1 == IF IsText(st.w.f.type) THEN Flush([st EXCEPT !.w.buf = @ + 1]) ELSE st     \* the terminating NUL
        w  == s1.w
        last == IF IsText(w.f.type)
                THEN (IF w.buf > 0 THEN <<Data(w.f.id, w.off, w.buf, w.buf)>> ELSE <<>>)
                ELSE <<Bin(w.f.id, w.buf)>>
    IN  [tape |-> s1.tape \o last, w |-> NoWriter, files |-> Append(st.files, [w.f EXCEPT !.len = w.wr])]

\* ---------------------------------------------------------------- reader (record layer)
\* Search from record position p: first header at or after p whose name matches; the headers passed are skipped.
\* result [found, pos (first record after the header), hdr, skipped]; at the end of the tape: not found, rewound.
RECURSIVE SearchFrom(_, _, _, _)
SearchFrom(tape, p, name, skipped) ==
    IF p > Len(tape) THEN [found |-> FALSE, pos |-> 1, skipped |-> skipped]
    ELSE IF tape[p].k # "hdr" THEN SearchFrom(tape, p + 1, name, skipped)
    ELSE IF tape[p].name = name THEN [found |-> TRUE, pos |-> p + 1, hdr |-> tape[p], skipped |-> skipped]
    ELSE SearchFrom(tape, p + 1, name, Append(skipped, tape[p].name))

Foreign(rec) == <<0 - 1, rec.id, 0>>          \* a record of another kind taken for data (file id -1 = not this tape's data)
\* read the records of a text file from position p until a last record: [pieces, pos]
RECURSIVE ReadText(_, _, _)
ReadText(tape, p, pieces) ==
    IF p > Len(tape) THEN [pieces |-> pieces, pos |-> p]
    ELSE LET rec == tape[p]
         IN  IF rec.k # "data" THEN [pieces |-> Append(pieces, Foreign(rec)), pos |-> p + 1]
             ELSE IF rec.count = 0 THEN ReadText(tape, p + 1, Append(pieces, <<rec.id, rec.off, rec.n>>))
             ELSE [pieces |-> Append(pieces, <<rec.id, rec.off, rec.count - 1>>), pos |-> p + 1]
ReadFile(tape, hdr, p) ==
    IF IsText(hdr.type) THEN ReadText(tape, p, <<>>)
    ELSE IF p > Len(tape) THEN [pieces |-> <<>>, pos |-> p]
    ELSE IF tape[p].k = "bin" THEN [pieces |-> <<<<tape[p].id, 0, tape[p].n>>>>, pos |-> p + 1]
    ELSE [pieces |-> <<Foreign(tape[p])>>, pos |-> p + 1]

\* pieces in normal form: empty pieces dropped, adjacent pieces of the same file merged
RECURSIVE Norm(_)
Norm(ps) ==
    IF ps = <<>> THEN <<>>
    ELSE LET rest == Norm(Tail(ps))
             h == Head(ps)
         IN  IF h[3] = 0 /\ h[1] # 0 - 1 THEN rest
             ELSE IF rest # <<>> /\ rest[1][1] = h[1] /\ h[1] # 0 - 1 /\ rest[1][2] = h[2] + h[3]
                  THEN <<<<h[1], h[2], h[3] + rest[1][3]>>>> \o Tail(rest)
             ELSE <<h>> \o rest

\* ---------------------------------------------------------------- reference layer
Expected(f) == IF f.len = 0 THEN <<>> ELSE <<<<f.id, 0, f.len>>>>
\* first file at or after file position i with that name (0: none)
RECURSIVE FileFrom(_, _, _)
FileFrom(files, i, name) == IF i > Len(files) THEN 0 ELSE IF files[i].name = name THEN i ELSE FileFrom(files, i + 1, name)
\* what reading `name` from file position i must give: [found, type, pieces, skipped, next]
RefRead(files, i, name) ==
    LET j == FileFrom(files, i, name)
    IN  IF j = 0 THEN [found |-> FALSE]
        ELSE [found |-> TRUE, type |-> files[j].type, pieces |-> Expected(files[j]),
              skipped |-> [x \in 1..(j - i) |-> files[i + x - 1].name], next |-> j + 1]

\* The same with the type filter of the reading statement (OPEN FOR INPUT wants {"D"}, LOAD {"A","B","P"}, BLOAD {"M"}) and the
\* nameless form (name = "": the next file of a wanted type): files of other types are passed over and reported as skipped.
RECURSIVE FileFromW(_, _, _, _)
FileFromW(files, i, name, want) ==
    IF i > Len(files) THEN 0
    ELSE IF (name = "" \/ files[i].name = name) /\ files[i].type \in want THEN i
    ELSE FileFromW(files, i + 1, name, want)
RefReadW(files, i, name, want) ==
    LET j == FileFromW(files, i, name, want)
    IN  IF j = 0 THEN [found |-> FALSE]
        ELSE [found |-> TRUE, type |-> files[j].type, pieces |-> Expected(files[j]),
              skipped |-> [x \in 1..(j - i) |-> files[i + x - 1].name], next |-> j + 1]
\* with every type wanted and a name, it is the read by name
ASSUME \A want \in {{"D"}, {"A", "B", "P"}} :
         LET fs == <<[name |-> "X", type |-> "D", len |-> 1, id |-> 1], [name |-> "Y", type |-> "B", len |-> 2, id |-> 2],
                     [name |-> "Z", type |-> "D", len |-> 3, id |-> 3]>>
         IN  /\ RefReadW(fs, 1, "", want).next = (IF "D" \in want THEN 2 ELSE 3)
             /\ RefReadW(fs, 2, "", want).next = (IF "D" \in want THEN 4 ELSE 3)
             /\ RefReadW(fs, 1, "Z", {"D"}) = RefRead(fs, 1, "Z")

\* ---------------------------------------------------------------- the property on the record layer
\* record position of the header of the i-th file (files and headers are in the same order)
RECURSIVE HdrPos(_, _, _)
HdrPos(tape, p, i) == IF p > Len(tape) THEN p
                      ELSE IF tape[p].k = "hdr" THEN (IF i = 1 THEN p ELSE HdrPos(tape, p + 1, i - 1))
                      ELSE HdrPos(tape, p + 1, i)
\* reading file j by name, starting at the header of file i <= j, gives the reference result and ends at file next
ReadOK(st, i, j) ==
    LET name == st.files[j].name
        ref  == RefRead(st.files, i, name)
        sr   == SearchFrom(st.tape, HdrPos(st.tape, 1, i), name, <<>>)
        rd   == ReadFile(st.tape, sr.hdr, sr.pos)
    IN  /\ sr.found
        /\ sr.hdr.type = ref.type
        /\ sr.skipped = ref.skipped
        /\ Norm(rd.pieces) = ref.pieces
        /\ rd.pos = HdrPos(st.tape, 1, ref.next)          \* the next file is still found: the tape stands at its header
RoundTrip(st) == ~st.w.open => \A i \in 1..Len(st.files) : \A j \in i..Len(st.files) : ReadOK(st, i, j)
=============================================================================
