SPECIFICATION Spec
CONSTANTS
  TextWidths = {40, 80}
  W = 80
  H = 25
  D = 30
  N = 12
  Seed = 1
  Modes = {0, 1, 2}
INVARIANT Emit
CHECK_DEADLOCK FALSE
