SPECIFICATION TSpec
CONSTANTS
  TextWidths = {40, 80}
INVARIANT TDone
CHECK_DEADLOCK FALSE
