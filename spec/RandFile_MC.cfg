SPECIFICATION Spec
CONSTANTS
  FileNums = {1, 2}
  Names = {"A", "B"}
  AsCoded = FALSE
  RecLens = {1, 2, 3}
  MaxRec = 5
  Contents = {1, 2}
  MaxOps = 5
  BadRecs = {0}
VIEW View
INVARIANT RecordsInv
INVARIANT LofInv
INVARIANT ShapeInv
PROPERTY GetYieldsLastPut
PROPERTY LocIsLastAccessed
PROPERTY Isolation
CHECK_DEADLOCK FALSE
