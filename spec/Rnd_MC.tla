------------------------------- MODULE Rnd_MC -------------------------------
(* Full period of the generator (C39), decided by TLC walking the cycle.
   The constants A, C and the start seed are those observed from the
   implementation (JSON header named by TRACE_FILE).  The walk counts its
   steps; the generator has period Lb^2 exactly when the FIRST return to the
   start seed happens at step Lb^2 (then all Lb^2 states on the way were
   distinct: s_i = s_j, i < j, would give s_0 = s_(Lb^2) = s_(Lb^2-(j-i))).
   Configurations:  Rnd_MC_full  Lb = 4096, the whole cycle of 2^24 states;
                    Rnd_MC_pre   Lb = 4096, a prefix (no short cycle) + Hull-Dobell;
                    Rnd_MC_w16   Lb = 256, the whole cycle of the generator reduced mod 2^16
                                 (a full-period generator mod 2^24 is full-period mod 2^16). *)
EXTENDS Rnd, TLC, TraceBase
CONSTANTS Lb,       \* limb (modulus Lb^2)
          Steps     \* length of the walk
VARIABLES seed, n
vars == <<seed, n>>

HA == Header.A
HC == Header.C
Mod == Lb * Lb
Start == Header.seed0 % Mod

Init == seed = Start /\ n = 0
Step == n < Steps /\ seed' = NextW(Lb, seed) /\ n' = n + 1
Spec == Init /\ [][Step]_vars

TypeOK        == seed \in 0..(Mod - 1)
ConstantsOK   == ConstOK
HullDobellInv == HullDobell
NoShortCycle  == (n > 0 /\ n < Mod) => seed # Start
ClosesAtPeriod == (n = Mod) => seed = Start
=============================================================================
