----------------------------- MODULE DosNames_MC -----------------------------
(* Bounded design check for C28: the reference lookup of DosPath
   (NativeNameG: exact name, then upper-case 8.3 name, then first legal match
   in sorted order; default extension; dots; blanks) drives one directory
   through create / open / FILES / NAME / KILL with EVERY name over a tiny
   alphabet (plus fixed sets of wildcard masks and NAME targets), and every step is judged by DosNames!Judge - the same operator
   that judges the real interpreter in DosNames_Trace.
   AsCodedNames = TRUE reproduces the pinned code (names with an empty trunk
   are created but hidden from FILES and KILL; a leading blank raises 53):
   TLC must then find a rejected step.                                       *)
EXTENDS DosNames, TLC

CONSTANTS MaxLen,        \* names have at most this many characters
          MaxFiles,      \* bound on the number of files in the directory
          Alphabet       \* characters of the names
VARIABLES D, born, last
vars == <<D, born, last>>

MCRoots == (67 :> <<>>)
Universe == UNION {[1..k -> Alphabet] : k \in 0..MaxLen}                 \* names given to create / open / NAME source
\* wildcard masks (FILES, KILL) and NAME targets: fixed small sets
Masks == {<<42>>, <<42, 46, 42>>, <<65, 42>>, <<63>>, <<42, 46, 98>>, <<63, 63, 46, 42>>, <<42, 46>>, <<46, 42>>}
Targets == {<<65>>, <<98, 46, 98>>, <<46, 32>>, <<65, 32, 65>>, <<32, 98>>, <<65, 98, 46>>, <<46, 98>>, <<65, 42>>, <<65, 65, 32>>}
Queries == Universe \cup UNION {CaseVariants(b[2]) : b \in born}
Kinds == {"data", "prog"}

exact(x) == x \in Names(D)
Lookup(n, kind, create) == NativeNameG(Names(D), exact, n, DefExtK(kind), FALSE, create)
FreshCid == CHOOSE c \in 1..(MaxFiles + 2) : c \notin {x[2] : x \in D}

\* reference behaviour of each operation: [e |-> event, da |-> directory after]
RCreate(n, kind) ==
    LET r == Lookup(n, kind, TRUE)
        e0 == [op |-> "create", kind |-> kind, n |-> n, cid |-> FreshCid]
    IN IF n = <<>> THEN [e |-> e0 @@ [ok |-> FALSE, code |-> 52], da |-> D]
       ELSE IF ~r.ok THEN [e |-> e0 @@ [ok |-> FALSE, code |-> r.code], da |-> D]
       ELSE IF r.name \in {<<>>, D1, D2} THEN [e |-> e0 @@ [ok |-> FALSE, code |-> 53], da |-> D]   \* a directory
       ELSE [e |-> e0 @@ [ok |-> TRUE, code |-> 0],
             da |-> {x \in D : x[1] # r.name} \cup {<<r.name, FreshCid>>}]
ROpen(n, kind) ==
    LET r == Lookup(n, kind, FALSE)
        e0 == [op |-> "open", kind |-> kind, n |-> n]
    IN IF n = <<>> THEN [e |-> e0 @@ [ok |-> FALSE, code |-> 52, got |-> 0], da |-> D]
       ELSE IF ~r.ok THEN [e |-> e0 @@ [ok |-> FALSE, code |-> r.code, got |-> 0], da |-> D]
       ELSE [e |-> e0 @@ [ok |-> TRUE, code |-> 0, got |-> CidOf(D, r.name)], da |-> D]
Shown(f) == IsLegal(f) /\ (AsCodedNames => Visible(f))
RFiles(n) ==
    LET mask == IF n = <<>> THEN AllMask ELSE n
        L == {Display(f) : f \in {g \in Names(D) : Shown(g) /\ MaskMatches(Display(g), mask)}}
        \* the directory entries . and .. are listed too and keep FILES from failing when they match
        dots == MaskMatches(D1, mask) \/ MaskMatches(D2, mask)
    IN [e |-> [op |-> "files", n |-> n, ok |-> (L # {} \/ dots), code |-> IF L # {} \/ dots THEN 0 ELSE 53,
               listed |-> IF L = {} THEN <<>> ELSE CHOOSE s \in [1..Cardinality(L) -> L] : {s[i] : i \in 1..Cardinality(L)} = L],
        da |-> D]
RName(n, m) ==
    LET old == Lookup(n, "data", FALSE)
        new == Lookup(m, "data", TRUE)
        e0 == [op |-> "name", n |-> n, m |-> m]
    IN IF ~old.ok THEN [e |-> e0 @@ [ok |-> FALSE, code |-> old.code], da |-> D]
       ELSE IF ~new.ok THEN [e |-> e0 @@ [ok |-> FALSE, code |-> new.code], da |-> D]
       ELSE IF new.name \in Names(D) \cup {<<>>, D1, D2} THEN [e |-> e0 @@ [ok |-> FALSE, code |-> 58], da |-> D]
       ELSE [e |-> e0 @@ [ok |-> TRUE, code |-> 0],
             da |-> {x \in D : x[1] # old.name} \cup {<<new.name, CidOf(D, old.name)>>}]
RKill(n) ==
    LET V == {g \in Names(D) : Shown(g) /\ MaskMatches(Display(g), n)}
    IN [e |-> [op |-> "kill", n |-> n, ok |-> V # {}, code |-> IF V # {} THEN 0 ELSE IF n = <<>> THEN 64 ELSE 53],
        da |-> {x \in D : x[1] \notin V}]

Init == D = {} /\ born = {} /\ last = [v |-> "ok", e |-> [op |-> "init"]]
Do(r) == /\ last' = [v |-> Judge(D, born, r.e, r.da), e |-> r.e]
         /\ D' = r.da
         /\ born' = BornAfter(D, born, r.e, r.da)
Next == \/ \E n \in Universe, k \in Kinds : Do(RCreate(n, k))
        \/ \E n \in Queries, k \in Kinds : Do(ROpen(n, k))
        \/ \E n \in Queries \cup Masks : Do(RFiles(n)) \/ Do(RKill(n))
        \/ \E n \in Queries, m \in Targets : Do(RName(n, m))
Spec == Init /\ [][Next]_vars

View == <<D, born>>
Bound == Cardinality(D) <= MaxFiles /\ Cardinality(born) <= MaxFiles
\* the property: every step of the reference is accepted
\* (an ACTION property: with a VIEW, state invariants are evaluated only on states whose view is new)
Accepted == [][last'.v = "ok"]_vars
\* consequences stated directly: files made by BASIC have upper-case legal 8.3 host names, and every file made under
\* a name is found by the lookup under every capitalisation of that name
UpperLegal == \A f \in Names(D) : IsLegal(f) /\ Normalise(f) = f
FoundUnderAnyCase == \A b \in born : \A q \in CaseVariants(b[2]) :
                        LET r == NativeNameG(Names(D), exact, q, <<>>, FALSE, FALSE) IN r.ok /\ r.name = b[1]
ListingOpens == \A f \in Names(D) : Visible(f) =>
                        LET r == NativeNameG(Names(D), exact, Display(f), <<>>, FALSE, FALSE) IN r.ok /\ r.name = f
=============================================================================
