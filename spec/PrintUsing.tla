----------------------------- MODULE PrintUsing -----------------------------
(* PRINT USING (property C08).  Text is a sequence of byte codes.  The format
   field is PARSED HERE (ParseNum / ParseStr); for a numeric field the admitted
   output texts are rebuilt from the field, the sign of the value and the digits
   that the implementation chose to show (Admitted), so sign, '$', '**' fill,
   thousands commas, decimal point, exponent part, leading zero and the
   width / '%' rule are all fixed by the specification; the digits themselves
   are judged against the EXACT decimal expansion of the value (DigitsOK):
   the value rounded at the last shown place, within the accuracy of decimal
   conversion (one unit of the 7th significant digit for integers and singles,
   of the 16th for doubles).
   The exact value is |x| = 0.d1 d2 ... dn * 10^xe, xd = <<d1..dn>> (d1 # 0, no
   trailing zeros; <<>> for zero): every binary floating point number has such
   a finite expansion, so no arithmetic beyond digit sequences is needed.       *)
EXTENDS Integers, Sequences, FiniteSets

cSpace == 32  cBang == 33  cHash == 35  cDollar == 36  cPct == 37  cAmp == 38  cStar == 42
cPlus == 43   cComma == 44 cMinus == 45 cDot == 46     cZero == 48 cLetD == 68 cLetE == 69
cBackslash == 92  cCaret == 94
MaxPositions == 24

Max2(a, b) == IF a > b THEN a ELSE b
Min2(a, b) == IF a < b THEN a ELSE b
At(f, i) == IF i >= 1 /\ i <= Len(f) THEN f[i] ELSE 0          \* 0 = "no character"
Rep(c, n) == [i \in 1..Max2(n, 0) |-> c]
IsDigit(c) == c >= 48 /\ c <= 57

RECURSIVE RunLen(_, _, _)
\* number of consecutive characters of f from position i that lie in the set S
RunLen(f, i, S) == IF At(f, i) \in S THEN 1 + RunLen(f, i + 1, S) ELSE 0

(* ---- numeric field syntax: [+] [** | **$ | $$] [# {# | ,}] [. {#}] [^^^^] [+ | -] ---------- *)
ParseNum(f) ==
    LET plus   == At(f, 1) = cPlus
        i1     == IF plus THEN 2 ELSE 1
        star   == At(f, i1) = cStar /\ At(f, i1 + 1) = cStar
        stard  == star /\ At(f, i1 + 2) = cDollar
        dd     == At(f, i1) = cDollar /\ At(f, i1 + 1) = cDollar
        i2     == i1 + (IF stard THEN 3 ELSE IF star \/ dd THEN 2 ELSE 0)
        \* '**' stands for two digit positions, '$$' for one (the other one is the '$' itself)
        pre    == IF star THEN 2 ELSE IF dd THEN 1 ELSE 0
        nb     == IF At(f, i2) = cHash THEN RunLen(f, i2, {cHash, cComma}) ELSE 0
        i3     == i2 + nb
        comma  == \E j \in i2..(i3 - 1) : f[j] = cComma
        dot    == At(f, i3) = cDot
        nd     == IF dot THEN RunLen(f, i3 + 1, {cHash}) ELSE 0
        i4     == i3 + (IF dot THEN 1 + nd ELSE 0)
        sci    == \A j \in 0..3 : At(f, i4 + j) = cCaret
        i5     == i4 + (IF sci THEN 4 ELSE 0)
        trail  == IF ~plus /\ At(f, i5) \in {cPlus, cMinus} THEN f[i5] ELSE 0
        i6     == i5 + (IF trail # 0 THEN 1 ELSE 0)
    IN  [ok |-> pre + nb + nd > 0 /\ i6 = Len(f) + 1,
         plus |-> plus, star |-> star, dollar |-> stard \/ dd, before |-> pre + nb, comma |-> comma,
         dot |-> dot, dec |-> nd, sci |-> sci, trail |-> trail, width |-> Len(f)]

(* ---- string field syntax: !  &  \ spaces \ ---------------------------------------------- *)
ParseStr(f) ==
    IF f = <<cBang>> THEN [ok |-> TRUE, kind |-> "first", width |-> 1]
    ELSE IF f = <<cAmp>> THEN [ok |-> TRUE, kind |-> "whole", width |-> 0]
    ELSE IF Len(f) >= 2 /\ f[1] = cBackslash /\ f[Len(f)] = cBackslash
            /\ \A i \in 2..(Len(f) - 1) : f[i] = cSpace
         THEN [ok |-> TRUE, kind |-> "fixed", width |-> Len(f)]
    ELSE [ok |-> FALSE, kind |-> "none", width |-> 0]

StrAdmitted(fld, s) ==
    CASE fld.kind = "whole" -> {s}
      [] fld.kind = "first" -> IF Len(s) = 0 THEN {<<>>, <<cSpace>>}     \* no first character: not fixed by the statement
                               ELSE {<<s[1]>>}
      [] fld.kind = "fixed" -> {[i \in 1..fld.width |-> IF i <= Len(s) THEN s[i] ELSE cSpace]}
      [] OTHER -> {}

(* ---- digit sequences (values 0..9, most significant first) -------------------------------- *)
RECURSIVE StripZ(_)
StripZ(d) == IF d # <<>> /\ d[1] = 0 THEN StripZ(Tail(d)) ELSE d
AllZero(d) == \A i \in 1..Len(d) : d[i] = 0
\* d + 1
RECURSIVE IncAt(_, _)
IncAt(d, i) == IF i = 0 THEN <<1>> \o d
               ELSE IF d[i] < 9 THEN [d EXCEPT ![i] = d[i] + 1]
               ELSE IncAt([d EXCEPT ![i] = 0], i - 1)
Inc(d) == IncAt(d, Len(d))
NumEq(a, b) == StripZ(a) = StripZ(b)
\* fractions 0.a and 0.b compared digit by digit (missing digits are zeros): -1, 0, 1
RECURSIVE FracCmpFrom(_, _, _)
FracCmpFrom(a, b, i) ==
    IF i > Len(a) /\ i > Len(b) THEN 0
    ELSE LET x == IF i <= Len(a) THEN a[i] ELSE 0
             y == IF i <= Len(b) THEN b[i] ELSE 0
         IN  IF x < y THEN -1 ELSE IF x > y THEN 1 ELSE FracCmpFrom(a, b, i + 1)
FracCmp(a, b) == FracCmpFrom(a, b, 1)

\* digits of the exact value at and above the decimal position q (10^q), and the fraction below it
IntAt(xd, xe, q) == IF xe - q <= 0 THEN <<>>
                    ELSE [i \in 1..(xe - q) |-> IF i <= Len(xd) THEN xd[i] ELSE 0]
FracAt(xd, xe, q) == IF xe - q <= 0 THEN Rep(0, q - xe) \o xd
                     ELSE IF xe - q >= Len(xd) THEN <<>>
                     ELSE SubSeq(xd, xe - q + 1, Len(xd))

(* The shown digits S (an integer count of units 10^q) against the exact value, P significant digits
   of conversion accuracy.  k = number of places between the last shown place and the P-th significant
   digit of the value.
   k >= 1: the value rounded at 10^q; within one unit of the P-th significant digit of a tie either
           neighbour is admitted.
   k <= 0: more digits are shown than the conversion is accurate to: the digits down to the P-th
           significant place must be within one unit of the value there; lower digits are not judged. *)
DigitsOK(S, q, xd, xe, P) ==
    IF xd = <<>> THEN AllZero(S)
    ELSE LET k == q - (xe - P)
         IN  IF k >= 1
             THEN LET T  == IntAt(xd, xe, q)
                      fr == FracAt(xd, xe, q)
                      hiTie == <<5>> \o Rep(0, k - 2) \o (IF k = 1 THEN <<>> ELSE <<1>>)     \* 0.5 + 10^-k
                      hi == IF k = 1 THEN <<6>> ELSE hiTie
                      lo == <<4>> \o Rep(9, k - 1)                                            \* 0.5 - 10^-k
                  IN  \/ NumEq(S, T) /\ FracCmp(fr, hi) <= 0
                      \/ NumEq(S, Inc(T)) /\ FracCmp(fr, lo) >= 0
             ELSE LET qq  == q + (1 - k) - 1                  \* = xe - P, the P-th significant place
                      drop == qq - q
                      Shi == IF drop >= Len(S) THEN <<>> ELSE SubSeq(S, 1, Len(S) - drop)
                      T   == IntAt(xd, xe, qq)
                  IN  NumEq(Shi, T) \/ NumEq(Shi, Inc(T)) \/ NumEq(Inc(Shi), T)

(* ---- rebuilding the output text ----------------------------------------------------------- *)
DigitChars(d) == [i \in 1..Len(d) |-> cZero + d[i]]
\* commas between groups of three, counted from the right
Group(d) ==
    LET n == Len(d)
        m == n + (IF n = 0 THEN 0 ELSE (n - 1) \div 3)
        \* position i of the grouped text, counted from the right: every 4th is a comma
        FromRight(i) == m - i + 1
    IN  [i \in 1..m |-> IF FromRight(i) % 4 = 0 THEN cComma
                        ELSE cZero + d[n - (FromRight(i) - FromRight(i) \div 4) + 1]]

LeadSign(fld, neg) == IF fld.plus THEN <<IF neg THEN cMinus ELSE cPlus>>
                      ELSE IF fld.trail # 0 THEN <<>>
                      ELSE IF neg THEN <<cMinus>> ELSE <<>>
PostSign(fld, neg) == IF fld.trail = cPlus THEN <<IF neg THEN cMinus ELSE cPlus>>
                      ELSE IF fld.trail = cMinus THEN <<IF neg THEN cMinus ELSE cSpace>>
                      ELSE <<>>
Dollar(fld) == IF fld.dollar THEN <<cDollar>> ELSE <<>>
Point(fld)  == IF fld.dot THEN <<cDot>> ELSE <<>>

\* the representation fills the field (padded on the left) or, when it does not fit, follows a '%'
Fit(fld, body) == IF Len(body) > fld.width THEN <<cPct>> \o body
                  ELSE Rep(IF fld.star THEN cStar ELSE cSpace, fld.width - Len(body)) \o body
(* A representation whose integer part is empty starts with the decimal point; a zero is put in front
   of the point when there is room for it (GW-BASIC manual: "##.##" shows .78 as " 0.78").  When there
   is exactly no room, both the text without the zero and '%' + the text with it are admitted (the
   statement does not say which one is "the full representation").  After a '$' the manual gives no
   example: there the zero is admitted but not demanded.                                            *)
WithZero(fld, headNoZero, tail) ==
    LET plain == headNoZero \o tail
        zero  == headNoZero \o <<cZero>> \o tail
    IN  IF Len(zero) <= fld.width /\ ~fld.dollar THEN {Fit(fld, zero)}
        \* a number whose representation without the zero FITS must not be flagged with '%' (it fits the field)
        \* (when a leading sign or '$' takes the place of the zero, the interpreter - like GW-BASIC - counts the zero as
        \*  part of the representation and flags the overflow: both readings stay admitted there)
        ELSE IF Len(plain) <= fld.width /\ Len(zero) > fld.width /\ headNoZero = <<>> THEN {Fit(fld, plain)}
        ELSE {Fit(fld, plain), Fit(fld, zero)}

\* fixed point: S = all digits shown (integer part, then fld.dec decimals)
FixedAdmitted(fld, neg, S) ==
    IF Len(S) < fld.dec THEN {}
    ELSE LET ip   == StripZ(SubSeq(S, 1, Len(S) - fld.dec))
             decs == DigitChars(SubSeq(S, Len(S) - fld.dec + 1, Len(S)))
             head == LeadSign(fld, neg) \o Dollar(fld)
             tail == Point(fld) \o decs \o PostSign(fld, neg)
         IN  IF ip = <<>>
             THEN IF fld.dot THEN WithZero(fld, head, tail)
                  ELSE {Fit(fld, head \o <<cZero>> \o tail)}
             ELSE {Fit(fld, head \o (IF fld.comma THEN Group(ip) ELSE DigitChars(ip)) \o tail)}

(* scientific: the mantissa has b digits before the point, b = the digit positions before the point
   minus the one that holds the sign when the field has no '+' / trailing sign, and fld.dec after it;
   commas only count as digit positions; then E or D, the sign of the exponent and two digits.   *)
SciBefore(fld) == Max2(0, fld.before - (IF fld.plus \/ fld.trail # 0 THEN 0 ELSE 1))
SciAdmitted(fld, neg, S, letter, esign, e1, e2) ==
    LET b == SciBefore(fld)
    IN  IF Len(S) # b + fld.dec \/ Len(S) = 0 THEN {}
        ELSE LET head == LeadSign(fld, neg)
                 tail == DigitChars(SubSeq(S, 1, b)) \o Point(fld) \o DigitChars(SubSeq(S, b + 1, Len(S)))
                         \o <<letter, esign, cZero + e1, cZero + e2>> \o PostSign(fld, neg)
             IN  IF b = 0 THEN WithZero(fld, head, tail) ELSE {Fit(fld, head \o tail)}

(* ---- reading the shown digits out of an output text ---------------------------------------- *)
RECURSIVE DigitsOf(_)
DigitsOf(t) == IF t = <<>> THEN <<>>
               ELSE IF IsDigit(t[1]) THEN <<t[1] - cZero>> \o DigitsOf(Tail(t))
               ELSE DigitsOf(Tail(t))
\* position of the exponent letter (0 if none)
ExpPos(t) == LET P == {i \in 1..Len(t) : t[i] \in {cLetE, cLetD}}
             IN  IF P = {} THEN 0 ELSE CHOOSE i \in P : \A j \in P : i <= j

\* field classes judged on shape only (quirks of GW-BASIC the statement does not describe):
\* '$' or '**' together with ^^^^, no mantissa digit position at all, zero in scientific notation
ShapeOnly(fld, xd) ==
    fld.sci /\ (fld.dollar \/ fld.star \/ SciBefore(fld) + fld.dec = 0 \/ xd = <<>>)
WidthRule(fld, out) ==
    \/ Len(out) = fld.width /\ (out = <<>> \/ out[1] # cPct)
    \/ Len(out) > fld.width + 1 /\ out[1] = cPct           \* '%' + a text longer than the field

(* verdict for one numeric event: "ok" or the name of the violated clause *)
NumVerdict(f, neg, xd, xe, P, out) ==
    LET fld == ParseNum(f)
    IN  IF ~fld.ok THEN "field_not_parsed"
        ELSE IF fld.before + fld.dec > MaxPositions THEN "too_many_positions"
        ELSE IF ~WidthRule(fld, out) THEN "width"
        ELSE IF ShapeOnly(fld, xd) THEN "ok"
        ELSE IF ~fld.sci
        THEN LET S == DigitsOf(out)
             IN  IF out \notin FixedAdmitted(fld, neg, S) THEN "placement"
                 ELSE IF ~DigitsOK(S, -fld.dec, xd, xe, P) THEN "digits"
                 ELSE "ok"
        ELSE LET ep == ExpPos(out)
             IN  IF ep = 0 \/ ep + 3 > Len(out) \/ At(out, ep + 1) \notin {cPlus, cMinus}
                    \/ ~IsDigit(At(out, ep + 2)) \/ ~IsDigit(At(out, ep + 3)) THEN "exponent_part"
                 ELSE LET S0 == DigitsOf(SubSeq(out, 1, ep - 1))
                          \* the zero put in front of a mantissa that starts with the point is not a mantissa digit
                          S  == IF SciBefore(fld) = 0 /\ Len(S0) = fld.dec + 1 /\ S0[1] = 0 THEN Tail(S0) ELSE S0
                          e1 == out[ep + 2] - cZero
                          e2 == out[ep + 3] - cZero
                          ex == (IF out[ep + 1] = cMinus THEN -1 ELSE 1) * (10 * e1 + e2)
                      IN  IF out \notin SciAdmitted(fld, neg, S, out[ep], out[ep + 1], e1, e2) THEN "placement"
                          ELSE IF S[1] = 0 THEN "mantissa_not_left_justified"
                          ELSE IF ~DigitsOK(S, ex - fld.dec, xd, xe, P) THEN "digits"
                          ELSE "ok"

StrVerdict(f, s, out) ==
    LET fld == ParseStr(f)
    IN  IF ~fld.ok THEN "field_not_parsed"
        ELSE IF out \in StrAdmitted(fld, s) THEN "ok"
        ELSE "string_field"

(* ---- whole format strings: literal text, escapes, several fields, cycling -------------------
   Literal characters are taken from LitChars (none of them can be part of a field); '_' makes the
   next character literal; every maximal run of other characters is one field.  The values are
   consumed by the fields in turn, the format string being restarted when it is exhausted; text
   up to the first field that finds no value is written.                                        *)
cUnderscore == 95
LitChars == (97..122) \cup {40, 41, 58, 61}          \* a-z ( ) : =
RECURSIVE Segment(_, _)
Segment(fmt, i) ==
    IF i > Len(fmt) THEN <<>>
    ELSE IF fmt[i] = cUnderscore
         THEN <<[k |-> "lit", v |-> <<IF i < Len(fmt) THEN fmt[i + 1] ELSE cUnderscore>>]>> \o Segment(fmt, i + 2)
    ELSE IF fmt[i] \in LitChars THEN <<[k |-> "lit", v |-> <<fmt[i]>>]>> \o Segment(fmt, i + 1)
    ELSE LET n == RunLen(fmt, i, (1..255) \ (LitChars \cup {cUnderscore}))
         IN  <<[k |-> "fld", v |-> SubSeq(fmt, i, i + n - 1)]>> \o Segment(fmt, i + n)

Matches(out, pos, text) == pos + Len(text) - 1 <= Len(out) /\ SubSeq(out, pos, pos + Len(text) - 1) = text

\* vals: <<[t |-> "n", neg, xd, xe, p] | [t |-> "s", v]>>; numeric values are chosen to fit their fields
RECURSIVE LineFrom(_, _, _, _, _)
LineFrom(items, vals, out, pos, ij) ==
    LET i == ij[1]
        j == ij[2]
    IN  IF i > Len(items)
        THEN IF j > Len(vals) THEN (IF pos = Len(out) + 1 THEN "ok" ELSE "line_length")
             ELSE LineFrom(items, vals, out, pos, <<1, j>>)
        ELSE IF items[i].k = "lit"
        THEN IF Matches(out, pos, items[i].v) THEN LineFrom(items, vals, out, pos + 1, <<i + 1, j>>)
             ELSE "line_literal"
        ELSE IF j > Len(vals) THEN (IF pos = Len(out) + 1 THEN "ok" ELSE "line_length")
        ELSE LET f == items[i].v
                 v == vals[j]
             IN  IF v.t = "s"
                 THEN LET fld == ParseStr(f)
                          cands == {t \in StrAdmitted(fld, v.v) : Matches(out, pos, t)}
                      IN  IF ~fld.ok THEN "field_not_parsed"
                          ELSE IF cands = {} THEN "string_field"
                          ELSE LET t == CHOOSE t \in cands : \A u \in cands : Len(t) >= Len(u)
                               IN  LineFrom(items, vals, out, pos + Len(t), <<i + 1, j + 1>>)
                 ELSE LET fld == ParseNum(f)
                          seg == IF pos + fld.width - 1 <= Len(out) THEN SubSeq(out, pos, pos + fld.width - 1) ELSE <<>>
                          nv  == NumVerdict(f, v.neg, v.xd, v.xe, v.p, seg)
                      IN  IF ~fld.ok THEN "field_not_parsed"
                          ELSE IF nv # "ok" THEN nv
                          ELSE LineFrom(items, vals, out, pos + fld.width, <<i + 1, j + 1>>)
LineVerdict(fmt, vals, out) ==
    LET items == Segment(fmt, 1)
    IN  IF ~\E i \in 1..Len(items) : items[i].k = "fld" THEN "no_field"
        ELSE LineFrom(items, vals, out, 1, <<1, 1>>)
=============================================================================
