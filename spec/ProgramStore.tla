---------------------------- MODULE ProgramStore ----------------------------
(* The stored BASIC program (property C13), functional-core style.

   REFERENCE LAYER (the oracle): ref, a function  line number -> text.  Its
   domain is the set of stored lines; being a function it has one text per
   number and `Listing` enumerates it in ascending order.  Edits are the
   operators Put/Drop/RenumRef/Fold; `Effect(st, a)` gives the program after
   an edit that SUCCEEDED, `Must(st, a)` what the property demands of the
   outcome ("ok" or, where the statement is silent, "any").

   A text is a sequence of segments [s, n]: a literal piece s followed by an
   optional line-number reference n (NoRef = none).  `10 IF X THEN 50 ELSE 70`
   is  <<[s |-> "IF X THEN ", n |-> 50], [s |-> " ELSE ", n |-> 70]>>.
   LIST shows Render(text); RENUM rewrites the n's (module Renum adds the
   acceptance conditions, the reports and the traps).

   IMPLEMENTATION-SHAPED LAYER (program.py): im = [code, index].  `code` is
   the byte buffer abstracted to the sequence of line records
   [num, link, text] in memory order, closed by the terminator record (link 0);
   record i starts at byte PosOf(code, i); `link` is the address of the next
   record's link field; `index` is Program.line_numbers including the 65536
   sentinel.  StoreImpl/DeleteImpl/RenumImpl/RebuildImpl transcribe
   store_line + find_pos_line_dict + update_line_dict / delete / renum /
   rebuild_line_dict.  This layer never judges the code: TLC checks it against
   the reference layer (ProgramStore_MC: Refines, IndexIsScan, LinksChain).  *)
EXTENDS Integers, Sequences, FiniteSets, TLC

CONSTANT CodeStart          \* address of the NUL before the first line (4717 with the default 3 files)

MaxLine  == 65529           \* largest line number that can be entered
Sentinel == 65536           \* key of the end-of-program entry in the index
NoRef    == -1

MinOf(S) == CHOOSE x \in S : \A y \in S : x <= y
MaxOf(S) == CHOOSE x \in S : \A y \in S : y <= x
RECURSIVE SortSet(_)
SortSet(S) == IF S = {} THEN <<>> ELSE LET m == MinOf(S) IN <<m>> \o SortSet(S \ {m})
Range(f) == {f[x] : x \in DOMAIN f}

(* ------------------------------ texts ---------------------------------- *)
Lit(s) == <<[s |-> s, n |-> NoRef]>>
RECURSIVE RenderFrom(_, _)
RenderFrom(text, i) ==
    IF i > Len(text) THEN ""
    ELSE text[i].s \o (IF text[i].n = NoRef THEN "" ELSE ToString(text[i].n)) \o RenderFrom(text, i + 1)
Render(text) == RenderFrom(text, 1)
Refs(text) == {text[i].n : i \in DOMAIN text} \ {NoRef}
Retarget(text, map) ==
    [i \in DOMAIN text |-> IF text[i].n \in DOMAIN map THEN [text[i] EXCEPT !.n = map[text[i].n]] ELSE text[i]]

(* -------------------------- reference layer ---------------------------- *)
EmptyRef == <<>>
Put(ref, n, t) == [k \in DOMAIN ref \cup {n} |-> IF k = n THEN t ELSE ref[k]]
Drop(ref, S)   == [k \in DOMAIN ref \ S |-> ref[k]]
StoreRef(ref, n, t) == IF t = <<>> THEN Drop(ref, {n}) ELSE Put(ref, n, t)
RECURSIVE FoldFrom(_, _, _)
FoldFrom(ref, lines, i) == IF i > Len(lines) THEN ref ELSE FoldFrom(StoreRef(ref, lines[i].n, lines[i].text), lines, i + 1)
Fold(ref, lines) == FoldFrom(ref, lines, 1)

\* what LIST shows: <<number, rendered text>> in ascending order
Listing(ref) == LET s == SortSet(DOMAIN ref) IN [i \in DOMAIN s |-> <<s[i], Render(ref[s[i]])>>]
Pairs(ref)   == LET s == SortSet(DOMAIN ref) IN [i \in DOMAIN s |-> <<s[i], ref[s[i]]>>]

\* DELETE a-b, DELETE a-, DELETE -b (an absent bound is -1)
Lo(a) == IF a.lo = -1 THEN 0 ELSE a.lo
Hi(a) == IF a.hi = -1 THEN 65535 ELSE a.hi
InRange(ref, a) == {k \in DOMAIN ref : Lo(a) <= k /\ k <= Hi(a)}

\* RENUM new, old, inc (an absent argument is -1)
RNew(a) == IF a.new = -1 THEN 10 ELSE a.new
ROld(a) == IF a.old = -1 THEN 0 ELSE a.old
RInc(a) == IF a.inc = -1 THEN 10 ELSE a.inc
Moved(ref, old) == {k \in DOMAIN ref : k >= old}
Kept(ref, old)  == {k \in DOMAIN ref : k < old}
Rank(k, S) == Cardinality({j \in S : j <= k})
RenumMap(ref, new, old, inc) ==
    LET mv == Moved(ref, old) IN [k \in mv |-> new + inc * (Rank(k, mv) - 1)]
\* the renumbering keeps the program a program: increment positive, the moved block stays above the
\* lines that keep their numbers, no number beyond 65529
RenumLegal(ref, new, old, inc) ==
    LET mv == Moved(ref, old)  kp == Kept(ref, old)
    IN  /\ inc >= 1
        /\ (kp # {} => new > MaxOf(kp))
        /\ (mv # {} => new + inc * (Cardinality(mv) - 1) <= MaxLine)
FullMap(ref, m) == [k \in DOMAIN ref |-> IF k \in DOMAIN m THEN m[k] ELSE k]
RenumRef(ref, new, old, inc) ==
    LET m  == RenumMap(ref, new, old, inc)
        fm == FullMap(ref, m)
    IN  [j \in Range(fm) |-> Retarget(ref[CHOOSE k \in DOMAIN ref : fm[k] = j], m)]

\* state of the component: the program and the program files written by SAVE
InitSt == [ref |-> EmptyRef, files |-> <<>>]

\* action records: [op |-> "store", n, text] (text = <<>>: a bare line number), [op |-> "delete", lo, hi],
\* [op |-> "renum", new, old, inc], [op |-> "merge"/"load"/"loadb", lines], [op |-> "new"],
\* [op |-> "save", name], [op |-> "loadf"/"mergef", name]
Effect(st, a) ==
    CASE a.op = "store"  -> [st EXCEPT !.ref = StoreRef(@, a.n, a.text)]
      [] a.op = "delete" -> [st EXCEPT !.ref = Drop(@, InRange(@, a))]
      [] a.op = "renum"  -> [st EXCEPT !.ref = RenumRef(@, RNew(a), ROld(a), RInc(a))]
      [] a.op = "merge"  -> [st EXCEPT !.ref = Fold(@, a.lines)]
      [] a.op \in {"load", "loadb"} -> [st EXCEPT !.ref = Fold(EmptyRef, a.lines)]
      [] a.op = "new"    -> [st EXCEPT !.ref = EmptyRef]
      [] a.op = "save"   -> [st EXCEPT !.files = [f \in DOMAIN @ \cup {a.name} |-> IF f = a.name THEN st.ref ELSE @[f]]]
      [] a.op = "loadf"  -> [st EXCEPT !.ref = st.files[a.name]]
      [] a.op = "mergef" -> [st EXCEPT !.ref = [k \in DOMAIN @ \cup DOMAIN st.files[a.name] |->
                                                   IF k \in DOMAIN st.files[a.name] THEN st.files[a.name][k] ELSE @[k]]]
      [] OTHER -> st

\* the outcome the property demands; "any": the statement is silent (a bare number / a DELETE range that
\* selects no line; whether a RENUM is accepted is the subject of C14, module Renum)
Must(st, a) ==
    CASE a.op = "store"  -> IF a.text # <<>> \/ a.n \in DOMAIN st.ref THEN "ok" ELSE "any"
      [] a.op = "delete" -> IF InRange(st.ref, a) # {} THEN "ok" ELSE "any"
      [] a.op = "renum"  -> "any"
      [] OTHER -> "ok"
\* a failed edit leaves the program as it was
After(st, a, ok) == IF ok THEN Effect(st, a) ELSE st

(* ---------------------- implementation-shaped layer -------------------- *)
\* tokenised length of a literal piece: keywords are one byte, everything else is stored as typed
TokTable == ("GOTO " :> 2) @@ ("GOSUB " :> 2)
SegLen(g) == (IF g.s \in DOMAIN TokTable THEN TokTable[g.s] ELSE Len(g.s)) + (IF g.n = NoRef THEN 0 ELSE 3)
RECURSIVE TokLenFrom(_, _)
TokLenFrom(text, i) == IF i > Len(text) THEN 0 ELSE SegLen(text[i]) + TokLenFrom(text, i + 1)
TokLen(text) == TokLenFrom(text, 1)

Term == [num |-> Sentinel, link |-> 0, text |-> <<>>]              \* 00 | 00 00
RecLen(r) == IF r.num = Sentinel THEN 3 ELSE 5 + TokLen(r.text)    \* 00 | link | number | tokens
RECURSIVE PosOf(_, _)
PosOf(code, i) == IF i = 1 THEN 0 ELSE PosOf(code, i - 1) + RecLen(code[i - 1])
EmptyIm == [code |-> <<Term>>, index |-> (Sentinel :> 0)]           \* Program.erase

\* Program.find_pos_line_dict
FindPos(index, from, to) ==
    LET del == {k \in DOMAIN index : k >= from /\ k <= to}
        bey == {k \in DOMAIN index : k > to}
        aft == index[MinOf(bey)]
    IN  [pos |-> IF del = {} THEN aft ELSE index[MinOf(del)], aft |-> aft, del |-> del, bey |-> bey]
Before(code, pos) == SubSeq(code, 1, Cardinality({i \in DOMAIN code : PosOf(code, i) < pos}))
From(code, pos)   == SubSeq(code, 1 + Cardinality({i \in DOMAIN code : PosOf(code, i) < pos}), Len(code))
\* the walk of Program.update_line_dict: add delta to every link until the 00 00 link
RECURSIVE ShiftLinks(_, _, _)
ShiftLinks(rest, i, delta) ==
    IF i > Len(rest) \/ rest[i].link = 0 THEN rest
    ELSE ShiftLinks([rest EXCEPT ![i].link = @ + delta], i + 1, delta)
UpdateIndex(index, f, delta) ==
    [k \in DOMAIN index \ f.del |-> IF k \in f.bey THEN index[k] + delta ELSE index[k]]

\* Program.store_line; res "undef" = Undefined line number (bare number of a line that does not exist)
StoreImpl(im, n, text) ==
    LET f      == FindPos(im.index, n, n)
        length == IF text = <<>> THEN 0 ELSE 5 + TokLen(text)
        delta  == length - (f.aft - f.pos)
        new    == IF text = <<>> THEN <<>>
                  ELSE <<[num |-> n, link |-> CodeStart + 1 + f.pos + length, text |-> text]>>
        idx    == UpdateIndex(im.index, f, delta)
    IN  IF text = <<>> /\ f.del = {} THEN [im |-> im, res |-> "undef"]
        ELSE [im  |-> [code  |-> Before(im.code, f.pos) \o new \o ShiftLinks(From(im.code, f.aft), 1, delta),
                       index |-> IF text = <<>> THEN idx
                                 ELSE [k \in DOMAIN idx \cup {n} |-> IF k = n THEN f.pos ELSE idx[k]]],
              res |-> "ok"]
\* Program.delete; res "ifc" = no line selected
DeleteImpl(im, lo, hi) ==
    LET f == FindPos(im.index, lo, hi)
        delta == 0 - (f.aft - f.pos)
    IN  IF f.del = {} THEN [im |-> im, res |-> "ifc"]
        ELSE [im  |-> [code  |-> Before(im.code, f.pos) \o ShiftLinks(From(im.code, f.aft), 1, delta),
                       index |-> UpdateIndex(im.index, f, delta)],
              res |-> "ok"]
\* Program.renum (numbers and references are overwritten in place, the index is re-keyed)
RenumImpl(im, new, old, inc) ==
    LET keys == DOMAIN im.index
        rem  == {k \in keys : k < old}
        mv   == {k \in keys : k >= old} \ {Sentinel}
        m    == [k \in mv |-> new + inc * (Rank(k, mv) - 1)]
        over == \E k \in mv : k < 65535 /\ m[k] > 65529
    IN  IF inc < 1 \/ (rem # {} /\ new <= MaxOf(rem)) \/ over THEN [im |-> im, res |-> "ifc"]
        ELSE [im  |-> [code  |-> [i \in DOMAIN im.code |->
                                     [im.code[i] EXCEPT !.num  = IF @ \in DOMAIN m THEN m[@] ELSE @,
                                                        !.text = Retarget(@, m)]],
                       index |-> [j \in (keys \ mv) \cup Range(m) |->
                                     IF j \in Range(m) THEN im.index[CHOOSE k \in mv : m[k] = j] ELSE im.index[j]]],
              res |-> "ok"]
\* Program.rebuild_line_dict on a loaded image: index from a scan, links recomputed, terminator sealed
ScanIndex(code) == [k \in {code[i].num : i \in DOMAIN code} |-> PosOf(code, CHOOSE i \in DOMAIN code : code[i].num = k)]
RebuildImpl(lines) ==
    LET recs == [i \in DOMAIN lines |-> [num |-> lines[i].n, link |-> 1, text |-> lines[i].text]] \o <<Term>>
        code == [i \in DOMAIN recs |-> IF recs[i].num = Sentinel THEN recs[i]
                                       ELSE [recs[i] EXCEPT !.link = CodeStart + 1 + PosOf(recs, i + 1)]]
    IN  [code |-> code, index |-> ScanIndex(code)]
RECURSIVE MergeImplFrom(_, _, _)
MergeImplFrom(im, lines, i) ==
    IF i > Len(lines) THEN im ELSE MergeImplFrom(StoreImpl(im, lines[i].n, lines[i].text).im, lines, i + 1)

ApplyImpl(im, a) ==
    CASE a.op = "store"  -> StoreImpl(im, a.n, a.text)
      [] a.op = "delete" -> DeleteImpl(im, Lo(a), Hi(a))
      [] a.op = "renum"  -> RenumImpl(im, RNew(a), ROld(a), RInc(a))
      [] a.op = "merge"  -> [im |-> MergeImplFrom(im, a.lines, 1), res |-> "ok"]
      [] a.op = "load"   -> [im |-> MergeImplFrom(EmptyIm, a.lines, 1), res |-> "ok"]
      [] a.op = "loadb"  -> [im |-> RebuildImpl(a.lines), res |-> "ok"]
      [] a.op = "new"    -> [im |-> EmptyIm, res |-> "ok"]

(* ------------- refinement conditions (checked by TLC in ProgramStore_MC) -------------- *)
Lines(code) == SubSeq(code, 1, Len(code) - 1)
Refines(ref, im) ==
    /\ Len(im.code) >= 1 /\ im.code[Len(im.code)] = Term
    /\ [i \in DOMAIN Lines(im.code) |-> <<im.code[i].num, im.code[i].text>>] = Pairs(ref)
IndexIsScan(im) == im.index = ScanIndex(im.code)
LinksChain(im)  == \A i \in DOMAIN Lines(im.code) : im.code[i].link = CodeStart + 1 + PosOf(im.code, i + 1)
GotoLands(ref, im) == \A n \in DOMAIN ref :
    \E i \in DOMAIN im.code : PosOf(im.code, i) = im.index[n] /\ im.code[i].num = n
\* what the PEEK walk from the program start sees: <<offset of the link field, link as offset (0 = end), number>>
ChainOf(im) == [i \in DOMAIN Lines(im.code) |->
                   <<PosOf(im.code, i), im.code[i].link - (CodeStart + 1), im.code[i].num>>]
=============================================================================
