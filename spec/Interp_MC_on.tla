------------------------------ MODULE Interp_MC_on ------------------------------
EXTENDS Interp_MCF
VARIABLES s, hist
INSTANCE Interp_MCrun WITH Family <- OnFamily
=============================================================================
