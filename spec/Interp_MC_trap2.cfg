SPECIFICATION Spec
INVARIANT OnlyIfOccurred
INVARIANT OnlyWhenOn
INVARIANT NotInErrorHandler
INVARIANT NoReentry
INVARIANT Prompt
INVARIANT InFragment
CHECK_DEADLOCK FALSE
