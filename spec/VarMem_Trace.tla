---------------------------- MODULE VarMem_Trace ----------------------------
(* Total trace specification for C11.  One event per BASIC statement executed on the real interpreter:
     [op ("begin" | "assign" | "swap" | "erase" | "dim" | "other"), x, y, arr, sv, ok, kind,
      area <<PEEK(&H358) word, PEEK(&H35A) word, PEEK(&H35C) word>>,
      sweep: the cells alive after the statement (see VarMem.tla, part 1)]
   Every sweep is judged by SweepVerdict (byte equality of PEEK at VARPTR with the stored encoding, string
   length/address/characters, VARPTR$, inside the variable area, pairwise disjoint), every pair of consecutive
   sweeps by NonInterference.  The state is the value map of the last sweep (re-synchronised every step).  *)
EXTENDS VarMem, TraceBase
VARIABLES prev, l, viol
tvars == <<prev, l, viol>>

NoVals == [n \in {} |-> 0]
Step(e) ==
    IF e.kind = "internal" THEN prev' = prev /\ viol' = Append(viol, <<l, "internal_error">>)
    ELSE LET cur == Vals(e.sweep)
             v1  == SweepVerdict(e.sweep, e.area)
             v2  == IF e.op = "begin" THEN "ok" ELSE NonInterference(prev, cur, e, e.ok)
             v   == IF v1 # "ok" THEN v1 ELSE v2
         IN prev' = cur /\ viol' = IF v = "ok" THEN viol ELSE Append(viol, <<l, v>>)

TInit == prev = NoVals /\ l = 1 /\ viol = <<>>
TNext == l <= NEvents /\ l' = l + 1 /\ Step(Events[l])
TSpec == TInit /\ [][TNext]_tvars
TDone == (l = NEvents + 1) => WriteVerdict(l - 1, viol)
=============================================================================
