--------------------------- MODULE TextScreen_MC ---------------------------
(* Bounded design check of TextScreen.tla on a small screen: every history of
   at most D statements (PRINT of plain characters, control codes, short
   strings, line ends; LOCATE to every cell incl. outside the screen and with
   omitted arguments; CLS; every VIEW PRINT window incl. invalid ones; width /
   mode switches).  Checked in every reachable state: the cursor and what
   CSRLIN/POS report are inside the screen; the window invariants; the
   placement law (plain characters printed after a CLS sit at the reference
   cells, with wrapping at the width and scrolling inside the window); as
   action properties: PRINT/CLS never change a row outside the window (other
   than the bottom row the cursor was explicitly put on), a successful LOCATE
   r,c is reported back by CSRLIN/POS.                                        *)
EXTENDS TextScreen, TLC, FiniteSets, SequencesExt
CONSTANTS W, H, W2, Chars, D,
          Walk,    \* TRUE: NWalks random walks of D statements (one randomly chosen statement per step)
          NWalks, Seed
VARIABLES st, act, ghost, n, walk
vars == <<st, act, ghost, n, walk>>

Ctl == {9, 10, 11, 12, 13, 28, 29, 30, 31}
\* plain text of length k: alternating characters, so that the placement law is sensitive to order
Pat(k) == [i \in 1..k |-> IF i % 2 = 1 THEN 65 ELSE 66]
IsPlain(s) == \A i \in 1..Len(s) : s[i] \in Chars
Strings(s) == {<<c>> : c \in Chars \cup Ctl} \cup {<<65, 13, 66>>}
              \cup {Pat(k) : k \in {2, s.w - 1, s.w, s.w + 1, 2 * s.w, (s.bot - s.top + 1) * s.w, (s.bot - s.top + 1) * s.w + 1} \cap 1..100}
Actions(s) ==
    {[op |-> "print", s |-> x, nl |-> FALSE] : x \in Strings(s)}
    \cup {[op |-> "print", s |-> x, nl |-> TRUE] : x \in {<<>>, <<65>>, Pat(s.w)}}
    \cup {[op |-> "locate", r |-> r, c |-> c] : r \in -1..(s.h + 1), c \in -1..(s.w + 1)}
    \cup {[op |-> "cls"]}
    \cup {[op |-> "viewprint", t |-> t, b |-> b] : t \in 0..s.h, b \in 0..s.h}
    \cup {[op |-> "width", n |-> x, fresh |-> x # s.w, nw |-> x, nmode |-> 0] : x \in (IF s.mode = 0 THEN TextWidths ELSE {})}
    \cup {[op |-> "screen", m |-> m, fresh |-> m # s.mode, nw |-> IF m = 0 THEN s.w ELSE W2, nmode |-> m] : m \in {0, 1}}

\* does the print item start on a new row because it does not fit (then the placement law does not speak)
Breaks(s, x) == s.row # s.h /\ s.col # 1 /\ ~s.ovf /\ s.col - 1 + Len(x) > s.w

Lcg(x) == (x * 75 + 74) % 65537
Pick(S, x) == SetToSeq(S)[1 + ((x \div 5) % Cardinality(S))]
Init == st = Fresh(W, H, 0) /\ act = [op |-> "init"] /\ ghost = [ok |-> TRUE, s |-> <<>>] /\ n = 0
        /\ walk \in (IF Walk THEN {Lcg(Lcg((Seed * 7919 + i * 4999) % 65537)) : i \in 1..NWalks} ELSE {0})
Do(a) ==
    LET ok == RefOk(st, a)
        s1 == IF ok THEN Effect(st, a) ELSE st
    IN  /\ act' = [a EXCEPT !.op = a.op] @@ [done |-> ok]
        /\ st' = s1
        /\ n' = n + 1
        /\ ghost' = IF ~ok THEN ghost
                    ELSE IF a.op = "cls" \/ (a.op \in {"width", "screen"} /\ s1 # st) THEN [ok |-> TRUE, s |-> <<>>]
                    ELSE IF a.op = "print" /\ ~a.nl /\ IsPlain(a.s) /\ ghost.ok /\ ~Breaks(st, a.s)
                         THEN [ghost EXCEPT !.s = ghost.s \o a.s]
                    ELSE [ghost EXCEPT !.ok = FALSE]
Next == /\ n < D
        /\ walk' = IF Walk THEN Lcg(walk) ELSE walk
        /\ \E a \in (IF Walk THEN {Pick(Actions(st), Lcg(walk))} ELSE Actions(st)) : Do(a)
Spec == Init /\ [][Next]_vars

Inv == InScreen(st) /\ ReportsInScreen(st) /\ WindowOk(st)
ShortcutSound == WriteChar(st, 65) = WriteCharFull(st, 65)
PlacementLaw == ghost.ok => Placement(st, ghost.s)
OutsideWindowUnchanged ==
    [][(act'.op \in {"print", "cls"} /\ (act'.op = "cls" => st.view))
          => \A r \in 1..st.h : (r \notin st.top..st.bot /\ r # st.row) => st'.buf[r] = st.buf[r]]_vars
LocateReported ==
    [][(act'.op = "locate" /\ act'.done /\ act'.r # -1 /\ act'.c # -1)
          => (Csrlin(st') = act'.r /\ Pos(st') = act'.c)]_vars
LocateOutsideRefused ==
    [][(act'.op = "locate" /\ act'.done) => (LocRow(st, act') \in 1..st.h /\ LocCol(st, act') \in 1..st.w)]_vars
=============================================================================
