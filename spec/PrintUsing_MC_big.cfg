SPECIFICATION Spec
CONSTANT MaxPos = 6
CONSTANT MaxNum = 2000
INVARIANT ParseLaw
INVARIANT DigitLaw
