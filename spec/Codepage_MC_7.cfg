SPECIFICATION Spec
CONSTANTS
  Alphabet <- Alpha7
  MaxLen = 7
  History = TRUE
VIEW View
INVARIANT ConcatInv
INVARIANT ChunkIndependent
INVARIANT Shape
INVARIANT Segmentation
INVARIANT PairsNoBox
INVARIANT PreservedAlone
PROPERTY StepLaw
CHECK_DEADLOCK FALSE
