SPECIFICATION Spec
CONSTANTS
  AlphaName = "seven"
  MaxLen = 7
  History = TRUE
VIEW View
INVARIANT ConcatInv
INVARIANT ChunkIndependent
INVARIANT Shape
INVARIANT Segmentation
INVARIANT PairsNoBox
INVARIANT PreservedAlone
PROPERTY StepLaw
CHECK_DEADLOCK FALSE
