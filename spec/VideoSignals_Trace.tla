-------------------------- MODULE VideoSignals_Trace --------------------------
(* Total trace specification for C35.  One event per BASIC statement run on
   the real interpreter with a recording video queue:
     {sigs: [signal, ..],          -- the picture signals emitted by the statement, payloads reduced to cells
      emu:  {th, tw, ph, pw, rows: [[r, [cell, ..]], ..]}}   -- the visible page as the interpreter reports it
                                      (get_chars / get_pixels), rows that differ from the previous observation
   The model display `disp` applies the signals with VideoSignals!Apply (the
   consumer semantics live in the specification); the property demands
   disp.cells = emu after every statement.  A rejected event re-synchronises
   the display from the emulator so that later events are still checked.      *)
EXTENDS VideoSignals, TraceBase
VARIABLES disp, emu, l, viol
tvars == <<disp, emu, l, viol>>

RowOf(e, r, prev) ==
    LET idx == {i \in 1..Len(e.emu.rows) : e.emu.rows[i][1] = r}
    IN  IF idx = {} THEN prev[r] ELSE e.emu.rows[CHOOSE i \in idx : TRUE][2]
Min(S) == CHOOSE x \in S : \A y \in S : x <= y

Diff(d, em) ==
    LET rs == {r \in 1..Len(em) : d[r] # em[r]}
        r0 == Min(rs)
        c0 == Min({c \in 1..Len(em[r0]) : d[r0][c] # em[r0][c]})
    IN  <<IF d[r0][c0][1] # em[r0][c0][1] THEN "characters_differ" ELSE "pixels_differ", r0, c0, d[r0][c0], em[r0][c0]>>

Step(e) ==
    LET res == Consume(disp, e.sigs, 1, 0)
        em  == [r \in 1..e.emu.th |-> RowOf(e, r, emu)]
        d   == res.d
        v   == IF res.bad # 0 THEN <<"malformed_signal", res.bad>>
               ELSE IF <<d.th, d.tw, d.ph, d.pw>> # <<e.emu.th, e.emu.tw, e.emu.ph, e.emu.pw>> THEN <<"display_size_differs">>
               ELSE IF d.cells # em THEN Diff(d.cells, em)
               ELSE <<"ok">>
    IN  /\ emu' = em
        /\ disp' = IF v[1] = "ok" THEN d
                   ELSE [th |-> e.emu.th, tw |-> e.emu.tw, ph |-> e.emu.ph, pw |-> e.emu.pw,
                         fh |-> CeilDiv(e.emu.ph, e.emu.th), fw |-> e.emu.pw \div e.emu.tw, cells |-> em]
        /\ viol' = IF v[1] = "ok" THEN viol ELSE Append(viol, <<l, v>>)

TInit == disp = NoDisplay /\ emu = <<>> /\ l = 1 /\ viol = <<>>
TNext == l <= NEvents /\ l' = l + 1 /\ Step(Events[l])
TSpec == TInit /\ [][TNext]_tvars
TDone == (l = NEvents + 1) => WriteVerdict(l - 1, viol)
=============================================================================
