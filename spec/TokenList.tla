------------------------------ MODULE TokenList ------------------------------
(* Tokenising and listing (property C17).

   A program line is seen ABSTRACTLY as a line number and a sequence of tokens
       <<"kw", id>>          keyword (id = its canonical upper-case spelling)
       <<"op", id>>          operator symbol(s): + - * / \ ^ = < > <= >= <>
       <<"num", cls, v>>     integer literal of token class digit|byte|int|hex|oct with value v
       <<"flt", cls, n, e>>  single|double literal with the exactly representable value n * 2^e
       <<"name", s>>         numeric variable name (bytes, upper case, optional sigil % ! #)
       <<"sname", s>>        string variable name (ends in $)
       <<"str", s>>          string literal with content s
       <<"jump", v>>         line number operand (after GOTO, THEN, ...)
       <<"adigit", v>>       a digit that stays text (after the non-keyword BASE)
       <<"word", s>>         a word that is not a keyword (BASE)
       <<"p", c>>            punctuation byte ( ) , ; :
       <<"tail", s>>         text after REM or '        <<"dtail", s>>  text after DATA
   separated by canonical separators: seps[i] = 1 iff one blank precedes token i.

   The module defines
     * the GRAMMAR of well-formed statements as a position automaton over token
       classes (Delta / Accepting): TokenList_MC enumerates its language, the trace
       spec uses the same automaton to check that a recorded line is in it;
     * Encode: the tokenised form (bytes) of an abstract line, given the keyword
       table kt of the dialect (observed from the code: kt[id] = [b |-> spelling,
       t |-> token bytes]); number tokens by class and value (integers exactly,
       single/double in Microsoft binary format from n * 2^e);
     * where a blank is REQUIRED between two tokens in canonical spelling.
   The property: the text rendered from an abstract line (any capitalisation)
   tokenises to Encode(line) - keywords recognised case-insensitively, literals
   get their class and value - and the listing of that re-enters as the very
   same bytes.  The keyword table is a bijection in every dialect.           *)
EXTENDS Integers, Sequences, FiniteSets

Dialects == {"advanced", "pcjr", "tandy"}

(* ------------------------------------------------------------------ keyword classes *)
KW0base  == {"CLS", "BEEP", "END", "STOP", "WEND", "TRON", "TROFF", "RESET", "SYSTEM", "NEW", "CONT", "LCOPY", "MOTOR", "FILES", "CLOSE"}
KW1base  == {"POKE", "COLOR", "SCREEN", "WIDTH", "LOCATE", "SOUND", "OUT", "WAIT", "ERROR", "RANDOMIZE", "CLEAR", "PCOPY"}
KW0(d)   == KW0base \cup (IF d \in {"pcjr", "tandy"} THEN {"TERM"} ELSE {})
KW1(d)   == KW1base \cup (IF d \in {"pcjr", "tandy"} THEN {"NOISE"} ELSE {})
FuncKw   == {"ABS", "INT", "SQR", "SIN", "COS", "TAN", "ATN", "LOG", "EXP", "SGN", "FIX", "CINT", "CSNG", "CDBL", "RND", "PEEK",
             "FRE", "POS", "INP", "LPOS", "EOF", "LOC", "LOF", "PEN", "STICK", "STRIG"}
SFuncKw  == {"CHR$", "STR$", "HEX$", "OCT$", "SPACE$", "MKI$", "MKS$", "MKD$"}
SFunc0Kw == {"INKEY$", "DATE$", "TIME$"}
ValueKw  == {"ERR", "CSRLIN", "TIMER", "ERDEV"}
WordOps  == {"AND", "OR", "XOR", "EQV", "IMP", "MOD"}
GotoKw   == {"GOTO", "GOSUB"}
JumpOpt  == {"RESTORE", "RUN", "RETURN", "RESUME"}
ListKw   == {"LIST", "LLIST", "DELETE"}
RenumKw  == {"RENUM", "AUTO"}
TabSpc   == {"TAB(", "SPC("}
Single   == {"PRINT", "LET", "IF", "THEN", "ELSE", "FOR", "TO", "STEP", "NEXT", "ON", "REM", "'", "DATA", "DIM", "WHILE", "DEF", "FN",
             "OPTION", "ERL", "NOT", "EDIT"}
BinOps   == {"+", "-", "*", "/", "\\", "^", "=", "<", ">", "<=", ">=", "<>"}

KwClass(d, id) ==
    CASE id \in KW0(d)    -> "KW0"    [] id \in KW1(d)   -> "KW1"    [] id \in FuncKw  -> "FUNC"
      [] id \in SFuncKw   -> "SFUNC"  [] id \in SFunc0Kw -> "SFUNC0" [] id \in ValueKw -> "KWV"
      [] id \in WordOps   -> "WOP"    [] id \in GotoKw   -> "GOTOKW" [] id \in JumpOpt -> "JKWOPT"
      [] id \in ListKw    -> "LISTKW" [] id \in RenumKw  -> "RENUMKW" [] id \in TabSpc -> "TABSPC"
      [] id = "'"         -> "QREM"
      [] id \in Single    -> id
      [] OTHER            -> "?"
KeywordsUsed(d) == KW0(d) \cup KW1(d) \cup FuncKw \cup SFuncKw \cup SFunc0Kw \cup ValueKw \cup WordOps \cup GotoKw \cup JumpOpt
                   \cup ListKw \cup RenumKw \cup TabSpc \cup Single

IntClasses == {"digit", "byte", "int", "hex", "oct"}
FltClasses == {"single", "double"}

ClassOf(d, t) ==
    CASE t[1] = "kw"     -> KwClass(d, t[2])
      [] t[1] = "op"     -> (IF t[2] = "=" THEN "OPEQ" ELSE IF t[2] = "-" THEN "OPMINUS" ELSE IF t[2] \in BinOps THEN "OP" ELSE "?")
      [] t[1] = "num"    -> "NUM"
      [] t[1] = "flt"    -> "NUM"
      [] t[1] = "name"   -> "VAR"
      [] t[1] = "sname"  -> "SVAR"
      [] t[1] = "str"    -> "STR"
      [] t[1] = "jump"   -> "JUMP"
      [] t[1] = "adigit" -> "ADIGIT"
      [] t[1] = "word"   -> "BASE"
      [] t[1] = "p"      -> (CASE t[2] = 40 -> "LP" [] t[2] = 41 -> "RP" [] t[2] = 44 -> "COMMA" [] t[2] = 59 -> "SEMI"
                               [] t[2] = 58 -> "COLON" [] OTHER -> "?")
      [] t[1] = "tail"   -> "TAIL"
      [] t[1] = "dtail"  -> "DTAIL"
      [] OTHER -> "?"

Classes == {"KW0", "KW1", "FUNC", "SFUNC", "SFUNC0", "KWV", "WOP", "GOTOKW", "JKWOPT", "LISTKW", "RENUMKW", "TABSPC", "QREM",
            "PRINT", "LET", "IF", "THEN", "ELSE", "FOR", "TO", "STEP", "NEXT", "ON", "REM", "DATA", "DIM", "WHILE", "DEF", "FN",
            "OPTION", "ERL", "NOT", "EDIT", "OPEQ", "OPMINUS", "OP", "NUM", "VAR", "SVAR", "STR", "JUMP", "ADIGIT", "BASE",
            "LP", "RP", "COMMA", "SEMI", "COLON", "TAIL", "DTAIL"}

(* ------------------------------------------------------------------ the grammar *)
\* automaton state: p position, c context of the expression being read, par open parentheses (0/1),
\* th: 0 = plain statement, 1 = inside a THEN clause, 2 = inside an ELSE clause
Q(p, c, par, th) == [p |-> p, c |-> c, par |-> par, th |-> th]
Bad  == Q("X", "-", 0, 0)
Q0   == Q("S", "-", 0, 0)
IsBinOp(k) == k \in {"OP", "OPEQ", "OPMINUS", "WOP"}

\* statement start (also after THEN / ELSE / colon)
DStart(q, k) ==
    CASE k = "PRINT"   -> Q("PE", "-", 0, q.th)
      [] k = "LET"     -> Q("LV", "-", 0, q.th)
      [] k = "VAR"     -> Q("EQ", "let", 0, q.th)
      [] k = "SVAR"    -> Q("SEQ", "-", 0, q.th)
      [] k = "IF"      -> IF q.th = 0 THEN Q("A", "if", 0, 0) ELSE Bad
      [] k = "GOTOKW"  -> Q("J", "one", 0, q.th)
      [] k = "JKWOPT"  -> Q("JO", "-", 0, q.th)
      [] k = "LISTKW"  -> Q("L0", "-", 0, q.th)
      [] k = "EDIT"    -> Q("J", "one", 0, q.th)
      [] k = "RENUMKW" -> Q("R0", "-", 0, q.th)
      [] k = "FOR"     -> Q("FV", "-", 0, q.th)
      [] k = "NEXT"    -> Q("NV", "-", 0, q.th)
      [] k = "ON"      -> IF q.th = 0 THEN Q("A", "on", 0, 0) ELSE Bad
      [] k = "REM"     -> Q("T", "-", 0, q.th)
      [] k = "QREM"    -> Q("T", "-", 0, q.th)
      [] k = "DATA"    -> IF q.th = 0 THEN Q("DT", "-", 0, 0) ELSE Bad
      [] k = "DIM"     -> Q("DV", "-", 0, q.th)
      [] k = "KW1"     -> Q("A", "args", 0, q.th)
      [] k = "KW0"     -> Q("END", "-", 0, q.th)
      [] k = "WHILE"   -> Q("A", "stmt", 0, q.th)
      [] k = "DEF"     -> IF q.th = 0 THEN Q("DF", "-", 0, 0) ELSE Bad
      [] k = "OPTION"  -> IF q.th = 0 THEN Q("OB", "-", 0, 0) ELSE Bad
      [] OTHER -> Bad

\* an expression is complete (outside parentheses): what may follow, by context
DAfterExpr(q, k) ==
    CASE q.c = "print" -> IF k \in {"SEMI", "COMMA"} THEN Q("PE", "-", 0, q.th) ELSE Bad
      [] q.c = "if"    -> IF k = "THEN" THEN Q("TH", "-", 0, 1) ELSE IF k = "GOTOKW" THEN Q("J", "ifgoto", 0, 1) ELSE Bad
      [] q.c = "on"    -> IF k = "GOTOKW" THEN Q("J", "list", 0, 0) ELSE Bad
      [] q.c = "for1"  -> IF k = "TO" THEN Q("A", "for2", 0, q.th) ELSE Bad
      [] q.c = "for2"  -> IF k = "STEP" THEN Q("A", "for3", 0, q.th) ELSE Bad
      [] q.c = "args"  -> IF k = "COMMA" THEN Q("A", "args", 0, q.th) ELSE Bad
      [] OTHER -> Bad
\* contexts in which the expression may also end the statement
ExprMayEnd(c) == c \in {"print", "let", "for2", "for3", "args", "stmt"}

\* a statement is complete: colon, or ELSE inside a THEN clause
DEnd(q, k) == IF k = "COLON" THEN Q("S", "-", 0, q.th)
              ELSE IF k = "ELSE" /\ q.th = 1 THEN Q("EL", "-", 0, 2)
              ELSE Bad

Delta(q, k) ==
    CASE q.p = "S"   -> DStart(q, k)
      [] q.p = "TH"  -> IF k = "JUMP" THEN Q("END", "-", 0, 1) ELSE IF k \in {"IF", "ON", "DATA", "DEF", "OPTION"} THEN Bad ELSE DStart(q, k)
      [] q.p = "EL"  -> IF k = "JUMP" THEN Q("END", "-", 0, 2) ELSE IF k \in {"IF", "ON", "DATA", "DEF", "OPTION"} THEN Bad ELSE DStart(q, k)
      [] q.p = "PE"  -> (CASE k \in {"STR", "SVAR", "SFUNC0"} -> Q("PB", "-", 0, q.th)
                           [] k = "TABSPC" -> Q("A", "tab", 1, q.th)
                           [] k = "SFUNC"  -> Q("FL", "sprint", 0, q.th)
                           [] k \in {"NUM", "VAR", "KWV"} -> Q("B", "print", 0, q.th)
                           [] k \in {"OPMINUS", "NOT"}    -> Q("A1", "print", 0, q.th)
                           [] k = "FUNC" -> Q("FL", "print", 0, q.th)
                           [] k = "LP"   -> Q("A", "print", 1, q.th)
                           [] OTHER -> DEnd(q, k))
      [] q.p = "PB"  -> IF k \in {"SEMI", "COMMA"} THEN Q("PE", "-", 0, q.th) ELSE DEnd(q, k)
      [] q.p = "PT"  -> IF k \in {"NUM", "STR"} THEN Q("PB", "-", 0, q.th)          \* PRINT TAB(5)12 : a literal may follow the bracket
                        ELSE IF k \in {"SEMI", "COMMA"} THEN Q("PE", "-", 0, q.th) ELSE DEnd(q, k)
      [] q.p = "LV"  -> IF k = "VAR" THEN Q("EQ", "let", 0, q.th) ELSE IF k = "SVAR" THEN Q("SEQ", "-", 0, q.th) ELSE Bad
      [] q.p = "EQ"  -> IF k = "OPEQ" THEN Q("A", q.c, 0, q.th) ELSE Bad
      [] q.p = "SEQ" -> IF k = "OPEQ" THEN Q("SA", "-", 0, q.th) ELSE Bad
      [] q.p = "SA"  -> IF k \in {"STR", "SVAR", "SFUNC0"} THEN Q("SB", "-", 0, q.th)
                        ELSE IF k = "SFUNC" THEN Q("FL", "sassign", 0, q.th) ELSE Bad
      [] q.p = "SB"  -> IF k = "OP" THEN Q("SA", "-", 0, q.th) ELSE DEnd(q, k)          \* string concatenation with +
      \* expression atoms
      [] q.p = "A"   -> (CASE k \in {"NUM", "VAR", "KWV"} -> Q("B", q.c, q.par, q.th)
                           [] k \in {"OPMINUS", "NOT"}    -> Q("A1", q.c, q.par, q.th)
                           [] k = "FUNC" /\ q.par = 0     -> Q("FL", q.c, 0, q.th)
                           [] k = "LP" /\ q.par = 0       -> Q("A", q.c, 1, q.th)
                           [] k = "ERL" /\ q.c = "if" /\ q.par = 0 -> Q("ERLEQ", "if", 0, q.th)
                           [] OTHER -> Bad)
      [] q.p = "A1"  -> IF k \in {"NUM", "VAR"} THEN Q("B", q.c, q.par, q.th) ELSE Bad
      [] q.p = "FL"  -> IF k = "LP" THEN Q("A", q.c, 1, q.th) ELSE Bad
      [] q.p = "ERLEQ" -> IF k = "OPEQ" THEN Q("ERLJ", "if", 0, q.th) ELSE Bad
      [] q.p = "ERLJ"  -> IF k = "JUMP" THEN Q("BE", "if", 0, q.th) ELSE Bad            \* IF ERL=100 THEN ...: the number is a line number
      \* after it only a word operator or THEN/GOTO (a symbol operator would keep the tokeniser in line-number mode)
      [] q.p = "BE"    -> IF k = "WOP" THEN Q("A", "if", 0, q.th) ELSE DAfterExpr(q, k)
      [] q.p = "B"   -> IF IsBinOp(k) THEN Q("A", q.c, q.par, q.th)
                        ELSE IF q.par = 1
                             THEN (IF k # "RP" THEN Bad
                                   ELSE CASE q.c = "tab"     -> Q("PT", "-", 0, q.th)
                                          [] q.c = "dim"     -> Q("END", "-", 0, q.th)
                                          [] q.c = "sassign" -> Q("SB", "-", 0, q.th)
                                          [] q.c = "sprint"  -> Q("PB", "-", 0, q.th)
                                          [] OTHER           -> Q("B", q.c, 0, q.th))
                             ELSE IF DAfterExpr(q, k) # Bad THEN DAfterExpr(q, k)
                             ELSE IF ExprMayEnd(q.c) THEN DEnd(q, k) ELSE Bad
      \* line number operands
      [] q.p = "J"   -> IF k = "JUMP" THEN (IF q.c = "list" THEN Q("JL", "-", 0, q.th) ELSE Q("END", "-", 0, q.th)) ELSE Bad
      [] q.p = "JL"  -> IF k = "COMMA" THEN Q("J", "list", 0, q.th) ELSE DEnd(q, k)
      [] q.p = "JO"  -> IF k = "JUMP" THEN Q("END", "-", 0, q.th) ELSE DEnd(q, k)
      [] q.p = "L0"  -> IF k = "JUMP" THEN Q("L1", "-", 0, q.th) ELSE IF k = "OPMINUS" THEN Q("L2", "-", 0, q.th) ELSE DEnd(q, k)
      [] q.p = "L1"  -> IF k = "OPMINUS" THEN Q("L3", "-", 0, q.th) ELSE DEnd(q, k)
      [] q.p = "L2"  -> IF k = "JUMP" THEN Q("END", "-", 0, q.th) ELSE Bad
      [] q.p = "L3"  -> IF k = "JUMP" THEN Q("END", "-", 0, q.th) ELSE DEnd(q, k)
      [] q.p = "R0"  -> IF k = "JUMP" THEN Q("JL", "-", 0, q.th) ELSE DEnd(q, k)
      \* the rest
      [] q.p = "FV"  -> IF k = "VAR" THEN Q("EQ", "for1", 0, q.th) ELSE Bad
      [] q.p = "NV"  -> IF k = "VAR" THEN Q("END", "-", 0, q.th) ELSE DEnd(q, k)
      [] q.p = "T"   -> IF k = "TAIL" THEN Q("FIN", "-", 0, q.th) ELSE Bad
      [] q.p = "DT"  -> IF k = "DTAIL" THEN Q("END", "-", 0, q.th) ELSE DEnd(q, k)
      [] q.p = "DV"  -> IF k \in {"VAR", "SVAR"} THEN Q("DL", "-", 0, q.th) ELSE Bad
      [] q.p = "DL"  -> IF k = "LP" THEN Q("A", "dim", 1, q.th) ELSE Bad
      [] q.p = "DF"  -> IF k = "FN" THEN Q("DF1", "-", 0, 0) ELSE Bad
      [] q.p = "DF1" -> IF k = "VAR" THEN Q("DF2", "-", 0, 0) ELSE Bad
      [] q.p = "DF2" -> IF k = "LP" THEN Q("DF3", "-", 0, 0) ELSE Bad
      [] q.p = "DF3" -> IF k = "VAR" THEN Q("DF4", "-", 0, 0) ELSE Bad
      [] q.p = "DF4" -> IF k = "RP" THEN Q("EQ", "let", 0, 0) ELSE Bad
      [] q.p = "OB"  -> IF k = "BASE" THEN Q("OB1", "-", 0, 0) ELSE Bad
      [] q.p = "OB1" -> IF k = "ADIGIT" THEN Q("END", "-", 0, 0) ELSE Bad
      [] q.p = "END" -> DEnd(q, k)
      [] OTHER -> Bad                                \* "FIN" (after a comment tail) and "X"

\* positions in which the line may end
Accepting(q) ==
    \/ q.p \in {"END", "FIN", "PE", "PB", "PT", "SB", "JL", "JO", "L0", "L1", "L3", "R0", "NV", "T", "DT"}
    \/ q.p = "B" /\ q.par = 0 /\ ExprMayEnd(q.c)

RECURSIVE RunFrom(_, _, _)
RunFrom(q, ks, i) == IF q = Bad \/ i > Len(ks) THEN q ELSE RunFrom(Delta(q, ks[i]), ks, i + 1)
WellFormed(ks) == Len(ks) > 0 /\ Accepting(RunFrom(Q0, ks, 1))

(* ------------------------------------------------------------------ lexical well-formedness of the operands *)
IsUpper(c) == c >= 65 /\ c <= 90
IsDigit(c) == c >= 48 /\ c <= 57
IsNameChar(c) == IsUpper(c) \/ IsDigit(c) \/ c = 46
Prefix(s, p) == Len(s) >= Len(p) /\ SubSeq(s, 1, Len(p)) = p
\* letters/digits/dots part and optional sigil
Stem(s) == IF Len(s) > 0 /\ s[Len(s)] \in {33, 35, 36, 37} THEN SubSeq(s, 1, Len(s) - 1) ELSE s
\* a variable name the tokeniser cannot mistake for a keyword: no keyword equals the name, its stem, or its stem followed by "("
\* (TAB( SPC(); FN, USR and GO start special forms
NameOK(kt, s, stringvar) ==
    LET st == Stem(s)
    IN  /\ Len(st) >= 1 /\ Len(s) <= 12 /\ IsUpper(st[1]) /\ \A i \in 1..Len(st) : IsNameChar(st[i])
        /\ (stringvar <=> (s[Len(s)] = 36))
        /\ ~Prefix(st, <<70, 78>>) /\ ~Prefix(st, <<85, 83, 82>>) /\ ~Prefix(st, <<71, 79>>)
        /\ \A id \in DOMAIN kt : kt[id].b \notin {s, st, st \o <<40>>, st \o <<36>>}
PlainByte(c) == (c >= 32 /\ c <= 126) \/ (c >= 128 /\ c <= 255)
StrOK(s)   == \A i \in 1..Len(s) : PlainByte(s[i]) /\ s[i] # 34
\* comment text: anything printable; after the word REM it must not continue the word
TailOK(s, afterword) == /\ \A i \in 1..Len(s) : PlainByte(s[i])
                        /\ (afterword /\ Len(s) > 0 => s[1] = 32)
DTailOK(s)  == /\ \A i \in 1..Len(s) : (s[i] >= 32 /\ s[i] <= 126 /\ s[i] \notin {34, 58})
               /\ (Len(s) > 0 => s[1] = 32)
Pow2(n) == 2 ^ n
RECURSIVE BitLen(_)
BitLen(n) == IF n = 0 THEN 0 ELSE 1 + BitLen(n \div 2)
\* exponent byte of n * 2^e in Microsoft binary format (mantissa normalised to 24 bits)
MbfExp(n, e) == e + BitLen(n) + 128
NumOK(t) ==
    IF t[1] = "num"
    THEN CASE t[2] = "digit" -> t[3] \in 0..9
           [] t[2] = "byte"  -> t[3] \in 10..255
           [] t[2] = "int"   -> t[3] \in 256..32767
           [] t[2] \in {"hex", "oct"} -> t[3] \in 0..65535
           [] OTHER -> FALSE
    ELSE /\ t[2] \in FltClasses /\ t[3] >= 0 /\ t[3] < Pow2(24)
         /\ (t[3] > 0 => MbfExp(t[3], t[4]) \in 1..255)
         /\ (t[3] = 0 => t[4] = 0)

OperandOK(kt, d, prev, t) ==
    CASE t[1] = "kw"     -> t[2] \in DOMAIN kt /\ t[2] \in KeywordsUsed(d)
      [] t[1] = "op"     -> t[2] \in DOMAIN kt /\ t[2] \in BinOps
      [] t[1] \in {"num", "flt"} -> NumOK(t)
      [] t[1] = "name"   -> NameOK(kt, t[2], FALSE)
      [] t[1] = "sname"  -> NameOK(kt, t[2], TRUE)
      [] t[1] = "str"    -> StrOK(t[2])
      [] t[1] = "jump"   -> t[2] \in 0..65529
      [] t[1] = "adigit" -> t[2] \in 0..9
      [] t[1] = "word"   -> t[2] = <<66, 65, 83, 69>>
      [] t[1] = "p"      -> t[2] \in {40, 41, 44, 58, 59}
      [] t[1] = "tail"   -> TailOK(t[2], prev = "REM")
      [] t[1] = "dtail"  -> DTailOK(t[2])
      [] OTHER -> FALSE

(* ------------------------------------------------------------------ canonical separators *)
\* does the spelling of a token end / begin like a word (letter, digit, dot, sigil, ampersand)?
WordishEnd(k)   == k \notin {"OP", "OPEQ", "OPMINUS", "LP", "RP", "COMMA", "SEMI", "COLON", "STR", "TABSPC", "QREM", "TAIL", "DTAIL"}
WordishStart(k) == k \notin {"OP", "OPEQ", "OPMINUS", "LP", "RP", "COMMA", "SEMI", "COLON", "STR", "QREM", "TAIL", "DTAIL"}
\* "req": exactly one blank; "no": none (the blank would change the tokens); "opt": none or one
Sep(prev, k) ==
    IF prev = "" THEN "opt"                                    \* after the line number (one blank is part of the number)
    ELSE IF prev = "FN" \/ k \in {"TAIL", "DTAIL"} THEN "no"   \* FN and its name; comment/DATA text carries its own blanks
    ELSE IF prev \in {"FUNC", "SFUNC"} /\ k = "LP" THEN "opt"
    ELSE IF WordishEnd(prev) /\ WordishStart(k) THEN "req"
    ELSE "opt"
SepsOK(ks, seps) ==
    /\ Len(seps) = Len(ks)
    /\ \A i \in 1..Len(ks) :
         LET s == Sep(IF i = 1 THEN "" ELSE ks[i - 1], ks[i])
         IN  seps[i] \in {0, 1} /\ (s = "req" => seps[i] = 1) /\ (s = "no" => seps[i] = 0)

(* ------------------------------------------------------------------ the tokenised form *)
Lo(v) == v % 256
Hi(v) == v \div 256
\* 24-bit mantissa bytes and exponent byte of n * 2^e, n > 0
Mbf4(n, e) == LET s  == 24 - BitLen(n)
                  m  == n * Pow2(s)
              IN  <<m % 256, (m \div 256) % 256, (m \div 65536) % 128, MbfExp(n, e)>>
FltBytes(cls, n, e) ==
    LET b4 == IF n = 0 THEN <<0, 0, 0, 0>> ELSE Mbf4(n, e)
    IN  IF cls = "single" THEN <<29>> \o b4 ELSE <<31, 0, 0, 0, 0>> \o b4
NumBytes(cls, v) ==
    CASE cls = "digit" -> <<17 + v>>
      [] cls = "byte"  -> <<15, v>>
      [] cls = "int"   -> <<28, Lo(v), Hi(v)>>
      [] cls = "hex"   -> <<12, Lo(v), Hi(v)>>
      [] cls = "oct"   -> <<11, Lo(v), Hi(v)>>
Enc(kt, t) ==
    CASE t[1] = "kw" ->
           (CASE t[2] = "ELSE"  -> <<58>> \o kt["ELSE"].t              \* ELSE is stored as :ELSE
              [] t[2] = "WHILE" -> kt["WHILE"].t \o kt["+"].t          \* WHILE is stored as WHILE+
              [] t[2] = "'"     -> <<58>> \o kt["REM"].t \o kt["'"].t  \* ' is stored as :REM'
              [] OTHER          -> kt[t[2]].t)
      [] t[1] = "op"     -> kt[t[2]].t
      [] t[1] = "num"    -> NumBytes(t[2], t[3])
      [] t[1] = "flt"    -> FltBytes(t[2], t[3], t[4])
      [] t[1] \in {"name", "sname", "word", "tail", "dtail"} -> t[2]
      [] t[1] = "str"    -> <<34>> \o t[2] \o <<34>>
      [] t[1] = "jump"   -> <<14, Lo(t[2]), Hi(t[2])>>
      [] t[1] = "adigit" -> <<48 + t[2]>>
      [] t[1] = "p"      -> <<t[2]>>
\* GW-BASIC reads the digits of an octal literal across blanks, so a blank that follows an octal literal is consumed with it
\* (the grammar never puts a digit after a literal, so the value is unaffected)
AfterOctal(toks, i) == i > 1 /\ toks[i - 1][1] = "num" /\ toks[i - 1][2] = "oct"
RECURSIVE EncodeFrom(_, _, _, _)
EncodeFrom(kt, toks, seps, i) ==
    IF i > Len(toks) THEN <<>>
    ELSE (IF seps[i] = 1 /\ ~AfterOctal(toks, i) THEN <<32>> ELSE <<>>) \o Enc(kt, toks[i]) \o EncodeFrom(kt, toks, seps, i + 1)
LineBytes(kt, n, toks, seps) == <<0, 192, 222, Lo(n), Hi(n)>> \o EncodeFrom(kt, toks, seps, 1)

(* ------------------------------------------------------------------ keyword table *)
\* kt as a set of <<spelling, token>> pairs is a bijection
TableBijective(kt) ==
    \A a, b \in DOMAIN kt : a # b => (kt[a].b # kt[b].b /\ kt[a].t # kt[b].t)
=============================================================================
