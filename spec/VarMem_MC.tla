------------------------------ MODULE VarMem_MC ------------------------------
(* Bounded design check of the implementation-shaped layout model of VarMem.tla, and transition emitter for
   the replay on the real interpreter.  Values are abstract encodings Enc(t, k).                        *)
EXTENDS VarMem, Json
CONSTANTS MaxScalars, MaxArrays, MaxOps
VARIABLES st, act, nops
vars == <<st, act, nops>>

\* names of 1, 2, 3, 4 and 40 letters (the record header grows from the 4th character on); a curated family of
\* variables keeps the model finite and small: the state space is bounded by MaxScalars / MaxArrays, not by depth
Long40 == [i \in 1..40 |-> 65 + (i % 26)]
SVars == {<<<<65>>, "%">>, <<<<66, 67>>, "!">>, <<<<68, 88, 70>>, "#">>, <<<<71, 72, 73, 74>>, "$">>, <<Long40, "%">>, <<<<65>>, "$">>}
AVars == {<<<<80>>, "%", <<1>>>>, <<<<80>>, "$", <<2, 1>>>>, <<<<81, 82, 83, 84, 85>>, "#", <<1>>>>, <<<<81, 82, 83, 84, 85>>, "!", <<1, 1>>>>}
Enc(t, k) == [i \in 1..Size(t) |-> 16 * k + i]
Ks == {1, 2}

Acts(s) ==
    {[op |-> "scalar", name |-> v[1], t |-> v[2], k |-> k] : v \in SVars, k \in Ks}
    \cup {[op |-> "dim", name |-> v[1], t |-> v[2], dims |-> v[3]] : v \in AVars}
    \cup {[op |-> "elem", i |-> i, k |-> 1, j |-> j] : i \in 1..Len(s.ar), j \in {1, 2}}
    \cup {[op |-> "erase", i |-> i] : i \in 1..Len(s.ar)}
    \cup {[op |-> "swap", i |-> p[1], j |-> p[2]] : p \in {q \in (1..Len(s.sc)) \X (1..Len(s.sc)) : q[1] < q[2]}}
Enabled(s, a) ==
    CASE a.op = "scalar" -> IF HasScalar(s, a.name, a.t) THEN TRUE ELSE (Len(s.sc) < MaxScalars /\ a.k = 1)
      [] a.op = "dim"    -> ~HasArray(s, a.name, a.t) /\ Len(s.ar) < MaxArrays
      [] a.op = "elem"   -> a.j = 1 \/ Len(s.ar[a.i].vals) > 2        \* first element, and the last one of the longer arrays
      [] a.op = "swap"   -> s.sc[a.i].t = s.sc[a.j].t
      [] OTHER -> TRUE
Do(s, a) ==
    CASE a.op = "scalar" -> SetScalar(s, a.name, a.t, Enc(a.t, a.k))
      [] a.op = "dim"    -> Dim(s, a.name, a.t, a.dims)
      [] a.op = "elem"   -> [s EXCEPT !.ar[a.i].vals[IF a.j = 1 THEN 1 ELSE Len(s.ar[a.i].vals)] = Enc(s.ar[a.i].t, a.k)]
      [] a.op = "erase"  -> Erase(s, s.ar[a.i].name, s.ar[a.i].t)
      [] a.op = "swap"   -> [s EXCEPT !.sc[a.i].val = s.sc[a.j].val, !.sc[a.j].val = s.sc[a.i].val]

Init == st = InitSt /\ act = [op |-> "init"] /\ nops = 0
Next == /\ nops < MaxOps
        /\ \E a \in Acts(st) : Enabled(st, a) /\ st' = Do(st, a) /\ act' = a
        /\ nops' = nops + 1
Spec == Init /\ [][Next]_vars
View == st
\* for depth-bounded runs (emit): with several workers a state could otherwise be first reached on a longer path and
\* not be expanded
ViewD == <<st, nops>>

FaithfulInv == Faithful(st)
TilesInv == Tiles(st)
ScalarAreaInv == ScalarsInScalarArea(st)
\* an assignment changes no other cell: the model's cells other than the target keep their value (action property)
Others == [][\A i \in 1..Len(st.sc) : (act'.op \in {"elem", "dim", "erase"} \/ (act'.op = "scalar" /\ ~(st.sc[i].name = act'.name /\ st.sc[i].t = act'.t)))
                                        => st'.sc[i].val = st.sc[i].val]_vars

\* spec -> code: every transition once, with the sweep the model predicts after it (addresses relative to VarStart)
\* canonical state key (ToString of a record is not canonical: the field order depends on how the record was built)
Key(s) == ToString(<<[i \in 1..Len(s.sc) |-> <<s.sc[i].name, s.sc[i].t, s.sc[i].np, s.sc[i].vp, s.sc[i].val>>], s.scur,
                     [i \in 1..Len(s.ar) |-> <<s.ar[i].name, s.ar[i].t, s.ar[i].dims, s.ar[i].np, s.ar[i].ap, s.ar[i].vals>>], s.acur>>)
Emit == PrintT(<<"TRANSITION", ToJson([from |-> Key(st), d |-> nops, a |-> act', to |-> Key(st'),
            sc |-> [i \in 1..Len(st'.sc) |-> [name |-> st'.sc[i].name, t |-> st'.sc[i].t, vp |-> st'.sc[i].vp - VarStart]],
            ar |-> [i \in 1..Len(st'.ar) |-> [name |-> st'.ar[i].name, t |-> st'.ar[i].t, dims |-> st'.ar[i].dims,
                                              vp |-> ElemVarptr(st', i, 1) - VarStart]],
            end |-> st'.scur + st'.acur])>>)
=============================================================================
