SPECIFICATION Spec
CONSTANTS
  A <- HA
  C <- HC
  Lb = 256
  Steps = 65536
INVARIANT TypeOK
INVARIANT ConstantsOK
INVARIANT HullDobellInv
INVARIANT NoShortCycle
INVARIANT ClosesAtPeriod
CHECK_DEADLOCK FALSE
