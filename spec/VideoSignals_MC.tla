--------------------------- MODULE VideoSignals_MC ---------------------------
(* Bounded design check of the signal protocol: every history of at most D
   emulator operations (put a character in the current attribute, graphics in
   a cell rectangle, clear rows, scroll up/down any row range, change
   attribute, switch visible/active page, copy a page) on H x W cells and 2
   pages; after every operation the consumer that applied the emitted signals
   shows exactly the visible page.  With AsCoded = TRUE (scrolling as coded
   before the repair) TLC must find the counterexample (selftest).           *)
EXTENDS VideoSignals, TLC
CONSTANTS H, W, D
VARIABLES em, disp, n
vars == <<em, disp, n>>

Mode == [t |-> "mode", ph |-> H, pw |-> W, th |-> H, tw |-> W]
Init == /\ em = [pages |-> <<Cells(H, W, 0), Cells(H, W, 0)>>, v |-> 1, a |-> 1, fore |-> 7, back |-> 0]
        /\ disp = Consume(NoDisplay, <<Mode, FullUpdate(Cells(H, W, 0))>>, 1, 0).d
        /\ n = 0
Rects == {q \in (1..H) \X (1..W) \X (1..H) \X (1..W) : q[3] >= q[1] /\ q[4] >= q[2]}
Ranges == {q \in (1..H) \X (1..H) : q[1] <= q[2]}
Ops(e) ==
    {EmPut(e, r, c, 65) : r \in 1..H, c \in 1..W}
    \cup {EmPixels(e, q[1], q[2], q[3], q[4], 300) : q \in Rects}
    \cup {EmClear(e, q[1], q[2]) : q \in Ranges}
    \cup {EmScroll(e, dir, q[1], q[2]) : dir \in {-1, 1}, q \in Ranges}
    \cup {EmSetAttr(e, 7, b) : b \in {0, 1}}
    \cup {EmSetPage(e, v, a) : v \in 1..2, a \in 1..2}
    \cup {EmCopyPage(e, s, t) : s \in 1..2, t \in 1..2}
Next == /\ n < D
        /\ n' = n + 1
        /\ \E op \in Ops(em) :
              /\ em' = op.em
              /\ disp' = Consume(disp, op.sigs, 1, 0).d
              /\ Consume(disp, op.sigs, 1, 0).bad = 0          \* every emitted signal is well-formed
Spec == Init /\ [][Next]_vars

DisplayEqualsEmulator == disp.cells = em.pages[em.v]
\* every operation is possible (no emitted signal is malformed for the consumer)
AllOpsEnabled == \A op \in Ops(em) : Consume(disp, op.sigs, 1, 0).bad = 0
=============================================================================
