----------------------------- MODULE C31_Trace -----------------------------
(* Trace validation for C31: every recorded drawing statement of the real
   interpreter is judged by the predicates of Geometry.tla.  Events:
     pset   {x, y, c, px, point}            px = changed pixels [[x,y,v],..]; c = -1: default attribute
     line   {x0, y0, x1, y1, c, px}         px ordered along the major axis from (x0,y0) to (x1,y1)
     box / boxf {x0, y0, x1, y1, c, px}
     getput {n}                             pixels changed by GET r,A : PUT r.topleft,A,PSET
     put    {verb, before, sprite, after, bpp, outside}   PUT of a sprite GOT elsewhere; outside = pixels changed
                                                          outside the destination rectangle
     xor2   {before, sprite, mid, bpp, n, outside}        PUT ..,XOR twice: mid = after the first, n = pixels that
                                                          differ from `before` after the second                    *)
EXTENDS Geometry, TraceBase

P0(e) == <<e.x0, e.y0>>
P1(e) == <<e.x1, e.y1>>

PsetV(e) ==
    IF Len(e.px) # 1 THEN "pset_not_exactly_one_pixel"
    ELSE IF Pt(e.px[1]) # <<e.x, e.y>> THEN "pset_wrong_place"
    ELSE IF e.px[1][3] # e.point THEN "point_differs_from_pixel"
    ELSE IF e.c >= 0 /\ ~PsetOK(e.px, <<e.x, e.y>>, e.c, e.point) THEN "pset_wrong_attribute"
    ELSE "ok"

LineV(e) ==
    IF Len(e.px) # Cheb(P0(e), P1(e)) + 1 THEN "line_pixel_count"
    ELSE IF ~(P0(e) \in Points(e.px) /\ P1(e) \in Points(e.px)) THEN "line_endpoint_missing"
    ELSE IF ~AllAttr(e.px, e.c) THEN "line_attribute"
    ELSE IF ~LineOK(e.px, P0(e), P1(e), e.c) THEN "line_not_8_connected_path"
    ELSE "ok"

V(e) ==
    CASE e.op = "pset"   -> PsetV(e)
      [] e.op = "line"   -> LineV(e)
      [] e.op = "box"    -> IF BoxOK(e.px, P0(e), P1(e), e.c) THEN "ok" ELSE "box_not_exact_outline"
      [] e.op = "boxf"   -> IF BoxFillOK(e.px, P0(e), P1(e), e.c) THEN "ok" ELSE "boxfill_not_exact_rectangle"
      [] e.op = "getput" -> IF e.n = 0 THEN "ok" ELSE "get_put_pset_changed_screen"
      [] e.op = "put"    -> IF e.outside # 0 THEN "put_changed_outside_sprite_rectangle"
                            ELSE IF ~PutOK(e.verb, e.before, e.sprite, e.after, e.bpp) THEN "put_" \o e.verb \o "_wrong_pixels"
                            ELSE "ok"
      [] e.op = "xor2"   -> IF e.outside # 0 THEN "put_changed_outside_sprite_rectangle"
                            ELSE IF ~PutOK("xor", e.before, e.sprite, e.mid, e.bpp) THEN "put_xor_wrong_pixels"
                            ELSE IF e.n # 0 THEN "xor_twice_not_identity"
                            ELSE "ok"
      [] OTHER -> "unknown_op"

VARIABLES l, viol
INSTANCE OracleTrace WITH Verdict <- V
=============================================================================
