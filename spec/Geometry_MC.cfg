SPECIFICATION Spec
CONSTANTS
  GW = 4
  GH = 3
INVARIANT WitnessEquivalent
INVARIANT RectLaws
