---------------------------- MODULE DosPath_Trace ----------------------------
(* Total trace specification for C27.  One event per BASIC file statement
   executed on a real Session inside a sandbox directory:

     header: {roots: [[drive, host path]], cur: drive}
     event:  {stmt, path, path2?,                 statement form and path string(s) (byte arrays)
              pre?:  {dirs, files, cwd},          observed sandbox before (given when it is not the previous `post`)
              post?: {dirs, files, cwd},          observed sandbox after (absent = unchanged)
              ops:  [{op, path, kind}],           host operations seen by the audit-hook monitor during the statement:
                                                  abstract operation, real path (names from the sandbox top; a path
                                                  outside the sandbox starts with the name <<0>>), kind of the target
                                                  when the operation was issued
              od0, od1}                           digest of everything outside the mounts before / after

   Host paths are sequences of names, names are byte sequences.  Judged by
   DosPath: every host operation that can have an effect lies inside a mount
   (TouchedOK), nothing outside the mounts changed, no current directory left
   its mount, and - for path strings inside the modelled fragment - the
   sandbox and the current directories after the statement are the ones
   Apply() yields from the observed state before it.  The state is
   re-synchronised from the observation after every event.                  *)
EXTENDS DosPath, TraceBase
VARIABLES st, l, viol
tvars == <<st, l, viol>>

SeqToSet(s) == {s[i] : i \in 1..Len(s)}
HdrRoots == LET R == SeqToSet(Header.roots) IN [d \in {r[1] : r \in R} |-> (CHOOSE r \in R : r[1] = d)[2]]
HdrCur == Header.cur

ObsSt(o) == [fs  |-> [dirs |-> SeqToSet(o.dirs), files |-> SeqToSet(o.files)],
             cwd |-> LET C == SeqToSet(o.cwd) IN [d \in DOMAIN Roots |-> (CHOOSE c \in C : c[1] = d)[2]]]

\* the fragment of path strings for which Apply() is an exact model: the small alphabet, no doubled leading
\* separator (UNC prefix), at most one colon, and then only as a one-letter drive prefix
FragChars == {65, 66, 70, 78, 97, DOT, SP, BSL, SL}
FragRest(p) == /\ Range(p) \subseteq FragChars
               /\ ~(Len(p) >= 2 /\ p[1] \in {BSL, SL} /\ p[2] \in {BSL, SL})
InFragStr(p) == LET c == FirstIdx(p, COLON)
                IN IF c = 0 THEN FragRest(p)
                   ELSE c = 2 /\ Up(p[1]) \in 65..90 /\ FragRest(SubSeq(p, 3, Len(p)))
InFragment(e) == /\ e.stmt \in Stmts
                 /\ e.path # <<>> /\ InFragStr(e.path)
                 /\ (e.stmt = "NAME" => e.path2 # <<>> /\ InFragStr(e.path2))

NormCwd(s) == [d \in DOMAIN Roots |-> HostNorm(Roots[d] \o s.cwd[d])]

Step(e) ==
    LET s0   == IF Has(e, "pre") THEN ObsSt(e.pre) ELSE st
        s1   == IF Has(e, "post") THEN ObsSt(e.post) ELSE s0
        ops  == {[op |-> e.ops[i].op, path |-> e.ops[i].path, kind |-> e.ops[i].kind] : i \in 1..Len(e.ops)}
        pred == Apply(s0, e)
        v == IF ~TouchedOK(ops) THEN "effective_host_operation_outside_mounts"
             ELSE IF e.od0 # e.od1 \/ (Has(e, "post") /\ OutsideOf(s0.fs) # OutsideOf(s1.fs)) THEN "outside_tree_changed"
             ELSE IF ~CwdInsideSt(s1) THEN "cwd_outside_mount"
             ELSE IF InFragment(e) /\ pred.st.fs # s1.fs THEN "files_differ_from_model"
             ELSE IF InFragment(e) /\ NormCwd(pred.st) # NormCwd(s1) THEN "cwd_differs_from_model"
             ELSE "ok"
    IN  /\ st' = s1
        /\ viol' = IF v = "ok" THEN viol ELSE Append(viol, <<l, v>>)

NoSt == [fs |-> [dirs |-> {}, files |-> {}], cwd |-> [d \in DOMAIN Roots |-> <<>>]]
TInit == st = NoSt /\ l = 1 /\ viol = <<>>
TNext == l <= NEvents /\ l' = l + 1 /\ Step(Events[l])
TSpec == TInit /\ [][TNext]_tvars
TDone == (l = NEvents + 1) => WriteVerdict(l - 1, viol)
=============================================================================
