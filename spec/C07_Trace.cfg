SPECIFICATION OSpec
CONSTANTS
  LB = 32768
  LBits = 15
INVARIANT ODone
CHECK_DEADLOCK FALSE
