SPECIFICATION Spec
CONSTANTS
  AlphaName = "a8"
  MaxLen = 5
INVARIANT Laws
INVARIANT Emit
