------------------------------- MODULE Arrays -------------------------------
(* Array variables (property C12), functional-core style, two layers.

   REFERENCE layer (judges the code): an abstract state
       [base |-> Unset (-1) | 0 | 1, dims |-> [Names -> bounds], val |-> [Names -> [tuples -> value]]]
   stores one value PER SUBSCRIPT TUPLE - injectivity of a flat index is not
   assumed anywhere.  Must(st, a) names the outcome the property DEMANDS of an
   operation, Posts(st, a, ok) the set of abstract states the property allows
   afterwards (where the statement is silent - is OPTION BASE forgotten when
   the last array is erased? does a failing first use already dimension the
   array? - several are allowed).

   IMPLEMENTATION-SHAPED layer (never judges the code; checked BY TLC against
   the reference layer in Arrays_MC and used to generate behaviours for the
   replay): flat buffers and the index arithmetic transcribed from
   pcbasic/basic/memory/arrays.py (allocate, check_dim, index, erase_,
   option_base_).                                                          *)
EXTENDS Integers, Sequences, FiniteSets

CONSTANTS Names,      \* array names
          Auto,       \* upper bound of an implicitly dimensioned array (10 in GW-BASIC)
          MaxCells    \* DIM of at most this many elements must succeed (closed fragment: no Out of memory)

Unset == -1                                     \* "unset" (an integer so that it compares with 0 and 1)
Lo(base) == IF base = 1 THEN 1 ELSE 0           \* lower bound of every axis

RECURSIVE Box(_, _)
\* all subscript tuples within bounds d (upper bounds, one per axis) for lower bound lo
Box(lo, d) == IF d = <<>> THEN {<<>>}
              ELSE {<<x>> \o t : x \in lo..Head(d), t \in Box(lo, Tail(d))}
RECURSIVE Cells(_, _)
Cells(lo, d) == IF d = <<>> THEN 1
                ELSE (IF Head(d) < lo THEN 0 ELSE Head(d) + 1 - lo) * Cells(lo, Tail(d))

Zero(lo, d) == [t \in Box(lo, d) |-> 0]
AutoDims(n) == [i \in 1..n |-> Auto]

InitSt == [base |-> Unset,
           dims |-> [n \in Names |-> <<>>],        \* <<>> = not dimensioned
           val  |-> [n \in Names |-> <<>>]]

IsDim(st, n) == st.dims[n] # <<>>
NoneLeft(st) == \A n \in Names : ~IsDim(st, n)

(* ---- action records ------------------------------------------------------
   [op |-> "dim", name, b]        DIM name(b1,..,bn)
   [op |-> "base", b]             OPTION BASE b
   [op |-> "erase", name]         ERASE name
   [op |-> "get", name, idx]      read name(idx)
   [op |-> "set", name, idx, v]   name(idx) = v
   [op |-> "clear"]               CLEAR (also NEW, RUN)                      *)
IsUse(a) == a.op \in {"get", "set"}
EffDims(st, a) == IF IsDim(st, a.name) THEN st.dims[a.name] ELSE AutoDims(Len(a.idx))

\* classification of a subscript tuple against the bounds in effect
UseClass(st, a) ==
    LET d   == EffDims(st, a)
        lo  == Lo(st.base)
        idx == a.idx
        I   == 1..Len(idx)
        neg == \E i \in I : idx[i] < 0
    IN  IF Len(idx) # Len(d) THEN (IF neg THEN "e5or9" ELSE "e9")
        ELSE IF neg THEN (IF \E i \in I : idx[i] >= 0 /\ (idx[i] < lo \/ idx[i] > d[i]) THEN "e5or9" ELSE "e5")
        ELSE IF \E i \in I : idx[i] < lo \/ idx[i] > d[i] THEN "e9"
        ELSE "ok"

(* the outcome the property demands: "ok" | "e5" | "e9" | "e10" | "e5or9" (a tuple that is both negative
   and out of range / of the wrong arity: either error) | "fail" (any error) | "any" (statement silent)    *)
Must(st, a) ==
    CASE a.op = "dim" ->
           IF IsDim(st, a.name) THEN "e10"                                  \* redimensioning
           ELSE IF \E i \in 1..Len(a.b) : a.b[i] < Lo(st.base) THEN "any"   \* empty/negative axis: statement silent
           ELSE IF Cells(Lo(st.base), a.b) <= MaxCells THEN "ok"
           ELSE "any"                                                       \* may not fit in memory
      [] a.op = "base" ->
           \* moving the lower bound under existing arrays would change their declared bounds
           IF ~NoneLeft(st) /\ Lo(a.b) # Lo(st.base) THEN "fail" ELSE "any"
      [] a.op = "erase" -> IF IsDim(st, a.name) THEN "ok" ELSE "any"
      [] IsUse(a)       -> UseClass(st, a)
      [] a.op = "clear" -> "ok"

Accepts(must, ok, code) ==
    CASE must = "any"   -> TRUE
      [] must = "ok"    -> ok
      [] must = "fail"  -> ~ok
      [] must = "e5"    -> ~ok /\ code = 5
      [] must = "e9"    -> ~ok /\ code = 9
      [] must = "e10"   -> ~ok /\ code = 10
      [] must = "e5or9" -> ~ok /\ code \in {5, 9}

\* allocation sets an unset base to 0 (or may leave it unset: indistinguishable while arrays exist)
BasesAfterAlloc(b) == IF b = Unset THEN {0, Unset} ELSE {b}
Alloc(st, n, d, b2) == [base |-> b2,
                        dims |-> [st.dims EXCEPT ![n] = d],
                        val  |-> [st.val EXCEPT ![n] = Zero(Lo(b2), d)]]
Dimmed(st, a) == {Alloc(st, a.name, AutoDims(Len(a.idx)), b2) : b2 \in BasesAfterAlloc(st.base)}

\* OPTION BASE b took effect.  Demanded only while no array exists or the lower bound stays the same (then the
\* values are untouched); made total for the reporting of a violation: elements keep their value where the
\* tuple stays in bounds.
Rebox(st, b) ==
    [base |-> b, dims |-> st.dims,
     val  |-> [n \in Names |-> IF IsDim(st, n)
                               THEN [t \in Box(Lo(b), st.dims[n]) |-> IF t \in DOMAIN st.val[n] THEN st.val[n][t] ELSE 0]
                               ELSE <<>>]]

\* the value a successful read returns: the element's own value (0 if the array was just dimensioned)
Res(st, a) == IF IsDim(st, a.name) THEN st.val[a.name][a.idx] ELSE 0

\* abstract states allowed after the operation, given whether it succeeded
Posts(st, a, ok) ==
    CASE a.op = "dim" ->
           IF ok THEN {Alloc(st, a.name, a.b, b2) : b2 \in BasesAfterAlloc(st.base)} ELSE {st}
      [] a.op = "base" -> IF ok THEN {Rebox(st, a.b)} ELSE {st}
      [] a.op = "erase" ->
           IF ~ok THEN {st}
           ELSE LET s1 == [st EXCEPT !.dims[a.name] = <<>>, !.val[a.name] = <<>>]
                IN  {s1} \cup (IF NoneLeft(s1) /\ st.base = 0 THEN {[s1 EXCEPT !.base = Unset]} ELSE {})
      [] IsUse(a) ->
           LET pre == IF IsDim(st, a.name) THEN {st} ELSE Dimmed(st, a)
           IN  IF ~ok THEN {st} \cup pre                        \* NO ELEMENT CHANGES
               ELSE IF a.op = "get" THEN pre
               ELSE {[s EXCEPT !.val[a.name][a.idx] = a.v] : s \in pre}   \* exactly one element changes
      [] a.op = "clear" -> {InitSt}

\* the property's structural invariant: the elements of a dimensioned array are exactly the tuples in bounds
DomainOK(st) == \A n \in Names : DOMAIN st.val[n] = (IF IsDim(st, n) THEN Box(Lo(st.base), st.dims[n]) ELSE {})

(* ======================= implementation-shaped layer ======================= *)
\* ist = [base, bydim, dims, buf]: buf[n] the flat element buffer (sequence), bydim = _base_set_by_dim
IInit == [base |-> Unset, bydim |-> FALSE,
          dims |-> [n \in Names |-> <<>>],
          buf  |-> [n \in Names |-> <<>>]]

RECURSIVE IIdx(_, _, _, _, _, _)
IIdx(idx, d, b, i, big, area) ==
    IF i > Len(idx) THEN big
    ELSE IIdx(idx, d, b, i + 1, big + area * (idx[i] - b), area * (d[i] + 1 - b))
IIndex(idx, d, b) == IIdx(idx, d, b, 1, 0, 1)          \* Arrays.index
IFlatLen(d, b) == IIndex(d, d, b) + 1                  \* Arrays.flat_length

RECURSIVE IChk(_, _, _, _)
\* Arrays.check_dim: first failing subscript decides (0 = all in range)
IChk(idx, d, b, i) == IF i > Len(idx) THEN 0
                      ELSE IF idx[i] < 0 THEN 5
                      ELSE IF idx[i] < b \/ idx[i] > d[i] THEN 9
                      ELSE IChk(idx, d, b, i + 1)

R(s, ok, code, v) == [st |-> s, ok |-> ok, code |-> code, v |-> v]

\* Arrays.allocate
IAlloc(s, n, d) ==
    IF s.dims[n] # <<>> THEN R(s, FALSE, 10, 0)
    ELSE IF \E i \in 1..Len(d) : d[i] < 0 THEN R(s, FALSE, 5, 0)
    ELSE LET s1 == IF s.base = Unset THEN [s EXCEPT !.base = 0, !.bydim = TRUE] ELSE s
         IN  IF s.base # Unset /\ \E i \in 1..Len(d) : d[i] < s.base THEN R(s, FALSE, 9, 0)
             ELSE R([s1 EXCEPT !.dims[n] = d, !.buf[n] = [k \in 1..IFlatLen(d, s1.base) |-> 0]], TRUE, 0, 0)

IApply(s, a) ==
    CASE a.op = "dim" -> IAlloc(s, a.name, a.b)
      [] a.op = "base" ->
           IF s.base # Unset /\ a.b # s.base THEN R(s, FALSE, 10, 0) ELSE R([s EXCEPT !.base = a.b], TRUE, 0, 0)
      [] a.op = "erase" ->
           IF s.dims[a.name] = <<>> THEN R(s, FALSE, 5, 0)
           ELSE LET s1 == [s EXCEPT !.dims[a.name] = <<>>, !.buf[a.name] = <<>>]
                IN  IF (\A n \in Names : s1.dims[n] = <<>>) /\ s1.bydim
                    THEN R([s1 EXCEPT !.base = Unset, !.bydim = FALSE], TRUE, 0, 0)
                    ELSE R(s1, TRUE, 0, 0)
      [] IsUse(a) ->
           LET al == IF s.dims[a.name] = <<>> THEN IAlloc(s, a.name, AutoDims(Len(a.idx))) ELSE R(s, TRUE, 0, 0)
               s1 == al.st
               d  == s1.dims[a.name]
           IN  IF ~al.ok THEN al
               ELSE IF Len(a.idx) # Len(d) THEN R(s1, FALSE, 9, 0)
               ELSE IF IChk(a.idx, d, s1.base, 1) # 0 THEN R(s1, FALSE, IChk(a.idx, d, s1.base, 1), 0)
               ELSE LET k == IIndex(a.idx, d, s1.base) + 1
                    IN  IF k \notin DOMAIN s1.buf[a.name] THEN R(s1, FALSE, -1, 0)      \* would be an internal error
                        ELSE IF a.op = "get" THEN R(s1, TRUE, 0, s1.buf[a.name][k])
                        ELSE R([s1 EXCEPT !.buf[a.name][k] = a.v], TRUE, 0, 0)
      [] a.op = "clear" -> R(IInit, TRUE, 0, 0)

\* abstraction function: read every tuple in bounds through the flat index
Abs(s) ==
    [base |-> s.base, dims |-> s.dims,
     val  |-> [n \in Names |->
                 IF s.dims[n] = <<>> THEN <<>>
                 ELSE [t \in Box(Lo(s.base), s.dims[n]) |->
                         LET k == IIndex(t, s.dims[n], Lo(s.base)) + 1
                         IN  IF k \in DOMAIN s.buf[n] THEN s.buf[n][k] ELSE -1]]]

\* one implementation-shaped step refines the reference layer
Refines(s, a) ==
    LET r == IApply(s, a)
    IN  /\ Accepts(Must(Abs(s), a), r.ok, r.code)
        /\ Abs(r.st) \in Posts(Abs(s), a, r.ok)
        /\ (r.ok /\ a.op = "get") => r.v = Res(Abs(s), a)
\* every buffer cell belongs to exactly one tuple (no slack, no aliasing)
Packed(s) == \A n \in Names : s.dims[n] # <<>> =>
                 /\ Len(s.buf[n]) = Cells(Lo(s.base), s.dims[n])
                 /\ Cardinality({IIndex(t, s.dims[n], Lo(s.base)) : t \in Box(Lo(s.base), s.dims[n])})
                        = Cells(Lo(s.base), s.dims[n])
=============================================================================
