SPECIFICATION TSpec
CONSTANTS
  FileNums = {1, 2, 3}
  Names = {"X", "Y"}
  MaxRec = 8
  AsCoded = FALSE
INVARIANT TDone
CHECK_DEADLOCK FALSE
