---------------------------- MODULE DosNames_Trace ----------------------------
(* Total trace specification for C28.  One event per create / open / FILES /
   NAME / KILL executed on a real Session with a native mount; names are byte
   arrays, `dir` is the host directory listing after the operation as
   [[host name, content id]], `pre` the listing before when the harness
   (re)built the directory.  Every event is judged by DosNames!Judge against
   the OBSERVED directory before it; the directory and the birth names are
   re-synchronised from the observation.                                     *)
EXTENDS DosNames, TraceBase
VARIABLES D, born, l, viol
tvars == <<D, born, l, viol>>

TRoots == (67 :> <<>>)
ObsDir(s) == {<<s[i][1], s[i][2]>> : i \in 1..Len(s)}

Step(e) ==
    LET reset == Has(e, "pre")
        D0 == IF reset THEN ObsDir(e.pre) ELSE D
        b0 == IF reset THEN {} ELSE born
        DA == ObsDir(e.dir)
        v  == Judge(D0, b0, e, DA)
    IN  /\ D' = DA
        /\ born' = BornAfter(D0, b0, e, DA)
        /\ viol' = IF v = "ok" THEN viol ELSE Append(viol, <<l, v>>)

TInit == D = {} /\ born = {} /\ l = 1 /\ viol = <<>>
TNext == l <= NEvents /\ l' = l + 1 /\ Step(Events[l])
TSpec == TInit /\ [][TNext]_tvars
TDone == (l = NEvents + 1) => WriteVerdict(l - 1, viol)
=============================================================================
