SPECIFICATION Spec
CONSTANTS
  AsCoded = FALSE
  MaxDepth = 8
VIEW View
INVARIANT NoLeak
ACTION_CONSTRAINT Emit
CHECK_DEADLOCK FALSE
