--------------------------- MODULE RandFile_Trace ---------------------------
(* Total trace specification for C25.  Each event is one BASIC statement executed on the real interpreter:
     {op, n, name, reclen, off, w, s, imp, rec, ok, code, reset, init,
      obs: {f: [ per file number: {open, name, reclen, lof, loc, buf, vars: [[off, w, bytes], ..]} ],
            host: [[name, bytes], ..]}}
   obs.f[k].lof / .loc are LOF(k) / LOC(k), .buf is the value of a FIELD variable spanning the whole record, .vars the
   values of the other FIELD variables currently defined on the buffer, obs.host the bytes of host files (reported only
   when the file is closed, or just opened: buffered writes need not have reached the host before CLOSE).
   The demanded outcome is RandFile!Must, the expected state RandFile!Effect on the observed outcome; the state is then
   re-synchronised from the observation so that the rest of the trace is still checked.  Clauses prefixed ext_ judge
   behaviour documented for GW-BASIC but not spelled out in the statement of C25 (LSET/RSET justification).           *)
EXTENDS RandFile, TraceBase
VARIABLES st, l, viol
tvars == <<st, l, viol>>

Resize(d, len) == [i \in 1..len |-> IF i <= Len(d) THEN d[i] ELSE 0]
HostOf(e, x) == LET hs == {i \in 1..Len(e.obs.host) : e.obs.host[i][1] = x}
                IN  IF hs = {} THEN <<FALSE, <<>>>> ELSE <<TRUE, e.obs.host[CHOOSE i \in hs : TRUE][2]>>

StartSt(e) == IF Has(e, "reset") /\ e.reset
              THEN [InitSt EXCEPT !.disk = [x \in Names |-> LET hv == {i \in 1..Len(e.init) : e.init[i][1] = x}
                                                           IN  IF hv = {} THEN <<>> ELSE e.init[CHOOSE i \in hv : TRUE][2]]]
              ELSE st

\* number of bytes of the file inside the record a GET addresses, when that record straddles the end of the file (else 0)
PartialLen(s0, e) ==
    LET f == s0.fil[e.n]  d == s0.disk[f.name]  t == Target(s0, e)
    IN  IF t = FullRecs(d, f.reclen) + 1 THEN Len(d) - FullRecs(d, f.reclen) * f.reclen ELSE 0
IsAccess(e) == e.op \in {"put", "get"}

\* first clause violated by event e (s0 before, s1 expected after), "ok" if none
Judge(e, s0, s1) ==
    LET must == Must(s0, e)
        n    == e.n
        o    == e.obs.f
        mine == IsOpen(s1, n) /\ o[n].open
        others == {k \in FileNums : k # n /\ IsOpen(s1, k) /\ o[k].open}
    IN  IF ~Accepts(must, e.ok, e.code)
            THEN (IF must = "err63" THEN "bad_record_number_not_raised" ELSE "valid_operation_failed")
        ELSE IF \E k \in FileNums : o[k].open # IsOpen(s1, k) THEN "open_files_differ_from_model"
        ELSE IF mine /\ e.op = "get" /\ e.ok /\ GetDetermined(s0, e) /\ o[n].buf # s1.buf[n]
            THEN "get_differs_from_bytes_last_put"
        \* the record that straddles the end of the file (its length is not a multiple of this OPEN's record length, e.g. it was
        \* written with another LEN): the bytes that lie inside the file are bytes last PUT and must be delivered; what pads the
        \* rest of the buffer is not fixed by the statement
        ELSE IF mine /\ e.op = "get" /\ e.ok /\ ~GetDetermined(s0, e) /\ PartialLen(s0, e) > 0
                /\ SubSeq(o[n].buf, 1, PartialLen(s0, e)) # SubSeq(s1.buf[n], 1, PartialLen(s0, e))
            THEN "get_of_record_straddling_the_end_differs_from_bytes_in_file"
        ELSE IF mine /\ e.op \in {"lset", "rset"} /\ e.ok /\ o[n].buf # s1.buf[n] THEN "ext_lset_rset_result"
        ELSE IF mine /\ o[n].lof # Len(s1.disk[s1.fil[n].name]) THEN "lof_differs_from_reclen_times_highest_record"
        ELSE IF mine /\ s1.fil[n].acc /\ o[n].loc # s1.fil[n].loc THEN "loc_not_last_record_accessed"
        ELSE IF \E k \in FileNums : o[k].open /\ \E i \in 1..Len(o[k].vars) :
                    LET v == o[k].vars[i] IN v[3] # SubSeq(o[k].buf, v[1] + 1, v[1] + v[2])
            THEN "field_variable_differs_from_record_buffer"
        ELSE IF \E x \in Names : HostOf(e, x)[1] /\ HostOf(e, x)[2] # s1.disk[x] THEN "host_file_bytes_differ"
        ELSE IF \E k \in others : \/ o[k].lof # Len(s1.disk[s1.fil[k].name])
                                  \/ (s1.fil[k].acc /\ o[k].loc # s1.fil[k].loc)
                                  \/ o[k].buf # s1.buf[k]
            THEN "other_file_affected"
        ELSE "ok"

\* the state re-synchronised from the observation
\* (operators take evaluated VALUES bound by \E x \in {..}: TLC re-evaluates LET definitions and lazy arguments at every mention)
AdjDisk(e, s0, d, ok, x) ==
    LET o == e.obs.f
        holder == {k \in FileNums : o[k].open /\ o[k].name = x}
    IN  IF HostOf(e, x)[1] THEN HostOf(e, x)[2]
        ELSE IF holder = {} THEN d
        ELSE LET k == CHOOSE j \in holder : TRUE
             IN  IF Len(d) = o[k].lof /\ ~(e.op = "get" /\ e.n = k) THEN d
                 ELSE IF e.op = "get" /\ ok /\ e.n = k /\ IsOpen(s0, k) /\ GetDetermined(s0, e)
                          /\ Target(s0, e) <= o[k].lof \div o[k].reclen /\ Len(o[k].buf) = o[k].reclen
                      THEN PutBytes(Resize(d, o[k].lof), o[k].reclen, Target(s0, e), o[k].buf)
                      ELSE Resize(d, o[k].lof)

Resync(e, s0, s1) ==
    LET o == e.obs.f
    IN  [disk |-> [x \in Names |-> AdjDisk(e, s0, s1.disk[x], e.ok, x)],
         fil  |-> [k \in FileNums |-> IF o[k].open
                                      THEN [open |-> TRUE, name |-> o[k].name, reclen |-> o[k].reclen, loc |-> o[k].loc,
                                            acc |-> IF IsOpen(s1, k) THEN s1.fil[k].acc ELSE FALSE]
                                      ELSE Closed],
         buf  |-> [k \in FileNums |-> IF o[k].open THEN o[k].buf ELSE <<>>]]

\* operations on a number that is not open (or opens of an open number) are outside the fragment: no demand
InFrag(e, s0) == IF e.op = "open" THEN ~IsOpen(s0, e.n) ELSE IsOpen(s0, e.n)

Step(e) ==
    \E s0 \in {StartSt(e)} :
    \E s1 \in {IF e.ok /\ InFrag(e, s0) THEN Effect(s0, e) ELSE s0} :
    \E v \in {IF InFrag(e, s0) THEN Judge(e, s0, s1) ELSE "ok"} :
        /\ st' = Resync(e, s0, s1)
        /\ viol' = IF v = "ok" THEN viol ELSE Append(viol, <<l, v>>)

TInit == st = InitSt /\ l = 1 /\ viol = <<>>
TNext == l <= NEvents /\ l' = l + 1 /\ \E e \in {Events[l]} : Step(e)
TSpec == TInit /\ [][TNext]_tvars
TDone == (l = NEvents + 1) => WriteVerdict(l - 1, viol)
=============================================================================
