----------------------------- MODULE TextScreen -----------------------------
(* Text cursor and screen content (property C36), functional-core style.

   State record st:
     w, h        screen width / height in character cells
     mode        SCREEN number (0 = text); only used to tell mode CHANGES apart
     top, bot    scroll window (VIEW PRINT), inclusive; view = a VIEW PRINT is set
     row, col    cursor cell; ovf = "overflow": a character was printed in the last
                 column and the cursor logically stands before column 1 of the next
                 row, which only materialises (and only then scrolls) with the
                 next character
     bra         the bottom row (below the default window) may be written (LOCATE h,c)
     buf         buf[r][c] = byte last written at that cell
     wrap        wrap[r] = row r continues on row r+1 (logical line)

   Statements are action records a = [op |-> ...]:
     print(s, nl)      PRINT s;  /  PRINT s      s a sequence of bytes incl. control codes
     locate(r, c)      LOCATE r,c   (-1 = argument omitted)
     cls               CLS
     viewprint(t, b)   VIEW PRINT t TO b   (t = b = 0: VIEW PRINT without arguments)
     width(n, fresh, nw, nmode)   WIDTH n;  fresh = the video mode was (re)initialised,
     screen(m, fresh, nw, nmode)  SCREEN m; nw / nmode = width and mode the statement leads to

   Must(st, a)   is what the property DEMANDS of the outcome: "ok", "ifc"
                 (Illegal function call, 5) or "any";
   Effect(st, a) is the state after a successful statement;
   RefOk(st, a)  resolves "any" in the reference model (used to generate behaviours).
   The property's invariants are InScreen / ReportsInScreen, the equations
   Csrlin / Pos / ScreenFn and the placement law Placement (checked against the
   operational PRINT model in TextScreen_MC).                                   *)
EXTENDS Integers, Sequences

CONSTANT TextWidths      \* widths WIDTH n must provide in text mode ({40, 80} on the real machine)

Blank == 32
BlankRow(w) == [c \in 1..w |-> Blank]

Fresh(w, h, mode) ==
    [w |-> w, h |-> h, mode |-> mode, top |-> 1, bot |-> h - 1, view |-> FALSE,
     row |-> 1, col |-> 1, ovf |-> FALSE, bra |-> FALSE,
     buf |-> [r \in 1..h |-> BlankRow(w)], wrap |-> [r \in 1..h |-> FALSE]]

-----------------------------------------------------------------------------
(* what BASIC reports *)
Csrlin(st) == IF st.ovf /\ st.col = st.w /\ st.row < st.bot THEN st.row + 1 ELSE st.row
Pos(st)    == IF st.ovf /\ st.col = st.w THEN 1 ELSE st.col
ScreenFn(st, r, c) == st.buf[r][c]

InScreen(st) == st.row \in 1..st.h /\ st.col \in 1..st.w
ReportsInScreen(st) == Csrlin(st) \in 1..st.h /\ Pos(st) \in 1..st.w
WindowOk(st) == /\ 1 <= st.top /\ st.top <= st.bot /\ st.bot <= st.h
                /\ (st.view => st.row \in st.top..st.bot)
                /\ (~st.view => (st.row < st.h \/ st.bra))

-----------------------------------------------------------------------------
(* scrolling and clearing *)

\* rows from..bot move up by one, a blank row enters at bot; everything outside from..bot stays
ScrollUp(st, from) ==
    LET prev == IF from = 1 THEN st.h ELSE from - 1
        wr0  == IF (from > 1 \/ st.bot < st.h) /\ st.wrap[prev]
                THEN [st.wrap EXCEPT ![prev] = st.wrap[from]] ELSE st.wrap
    IN  [st EXCEPT
           !.buf  = [r \in 1..st.h |-> IF r < from \/ r > st.bot THEN st.buf[r]
                                       ELSE IF r < st.bot THEN st.buf[r + 1] ELSE BlankRow(st.w)],
           !.wrap = [r \in 1..st.h |-> IF r < from \/ r > st.bot THEN wr0[r]
                                       ELSE IF r < st.bot THEN wr0[r + 1] ELSE FALSE]]

ClearRows(st, a, b) ==
    [st EXCEPT !.buf  = [r \in 1..st.h |-> IF r >= a /\ r <= b THEN BlankRow(st.w) ELSE st.buf[r]],
               !.wrap = [r \in 1..st.h |-> IF r >= a /\ r <= b THEN FALSE ELSE st.wrap[r]]]

-----------------------------------------------------------------------------
(* cursor movement: bring <<row, col>> back onto the screen / into the window,
   scrolling the window when scrollOk and the cursor left it at the bottom     *)
WrapAround(st, scrollOk) ==
    IF st.bra /\ st.row = st.h
    THEN [st EXCEPT !.col = IF st.col > st.w THEN st.w ELSE IF st.col < 1 THEN st.col + 1 ELSE st.col]
    ELSE
      LET s0 == [st EXCEPT !.bra = FALSE]
          s1 == IF s0.col > s0.w
                THEN IF s0.row < s0.bot \/ scrollOk
                     THEN [s0 EXCEPT !.col = s0.col - s0.w, !.row = s0.row + 1]
                     ELSE [s0 EXCEPT !.col = s0.w]
                ELSE IF s0.col < 1
                THEN IF s0.row > s0.top
                     THEN [s0 EXCEPT !.col = s0.col + s0.w, !.row = s0.row - 1]
                     ELSE [s0 EXCEPT !.col = 1]
                ELSE s0
      IN  IF s1.row > s1.bot
          THEN [(IF scrollOk THEN ScrollUp(s1, s1.top) ELSE s1) EXCEPT !.row = s1.bot]
          ELSE IF s1.row < s1.top THEN [s1 EXCEPT !.row = s1.top]
          ELSE s1

SetPos(st, r, c, scrollOk) ==
    WrapAround([st EXCEPT !.row = r, !.col = c, !.ovf = IF c < st.w THEN FALSE ELSE st.ovf], scrollOk)

-----------------------------------------------------------------------------
(* one plain character at the cursor *)
WriteCharFull(st, ch) ==
    LET \* the pending overflow materialises: go to column 1 of the next row
        a0 == IF st.ovf THEN [st EXCEPT !.col = st.col + 1, !.ovf = FALSE] ELSE st
        a1 == IF a0.col > a0.w
              THEN IF a0.row < a0.h
                   THEN [a0 EXCEPT !.wrap[a0.row] = TRUE, !.row = a0.row + 1, !.col = 1]
                   ELSE [a0 EXCEPT !.col = a0.w]
              ELSE a0
        a2 == WrapAround(a1, TRUE)
        a3 == [a2 EXCEPT !.buf[a2.row][a2.col] = ch]
        a4 == IF a3.col < a3.w THEN [a3 EXCEPT !.col = a3.col + 1]
              ELSE IF a3.wrap[a3.row] THEN [a3 EXCEPT !.row = a3.row + 1, !.col = 1]
              ELSE [a3 EXCEPT !.ovf = TRUE]
    IN  WrapAround(a4, TRUE)

\* the common case (cursor inside the window, not in the last column): TextScreen_MC checks that this shortcut
\* equals WriteCharFull in every reachable state; it only makes trace validation of long strings cheaper
Simple(st) == ~st.ovf /\ ~st.bra /\ st.col >= 1 /\ st.col < st.w /\ st.row >= st.top /\ st.row <= st.bot
WriteChar(st, ch) ==
    IF Simple(st) THEN [st EXCEPT !.buf[st.row][st.col] = ch, !.col = st.col + 1] ELSE WriteCharFull(st, ch)

RECURSIVE Spaces(_, _)
Spaces(st, n) == IF n <= 0 THEN st ELSE Spaces(WriteChar(st, Blank), n - 1)

NewLine(st) == SetPos([st EXCEPT !.wrap[st.row] = FALSE], st.row + 1, 1, TRUE)
ClearView(st) == SetPos(ClearRows(st, st.top, st.bot), st.top, 1, TRUE)
ClearAll(st)  == SetPos(ClearRows(st, 1, st.h), 1, 1, TRUE)

Controls == {7, 9, 10, 11, 12, 13, 28, 29, 30, 31}
ConsoleChar(st, c) ==
    CASE c = 9  -> Spaces(st, 8 - ((st.col - 1) % 8))                 \* TAB
      [] c \in {10, 13} -> NewLine(st)                               \* LF, CR
      [] c = 7  -> st                                                 \* BEL
      [] c = 11 -> SetPos(st, 1, 1, FALSE)                            \* HOME
      [] c = 12 -> ClearView(st)                                      \* CLS
      [] c = 28 -> SetPos(st, st.row, st.col + 1, FALSE)              \* RIGHT
      [] c = 29 -> SetPos(st, st.row, st.col - 1, FALSE)              \* LEFT
      [] c = 30 -> SetPos(st, st.row - 1, st.col, FALSE)              \* UP
      [] c = 31 -> SetPos(st, st.row + 1, st.col, FALSE)              \* DOWN
      [] OTHER  -> WriteChar(st, c)

\* a string goes to the console in segments ending at CR/LF; the row a segment starts on no longer continues
RECURSIVE Seg(_, _, _, _)
Seg(st, s, i, start) ==
    IF i > Len(s) THEN st
    ELSE LET s0 == IF start THEN [st EXCEPT !.wrap[st.row] = FALSE] ELSE st
             nx == ConsoleChar(s0, s[i])
         IN  \* (the test only makes TLC evaluate nx before descending, which keeps its evaluation stack shallow)
             IF nx.row = nx.row THEN Seg(nx, s, i + 1, s[i] \in {10, 13}) ELSE st
ConsoleWrite(st, s) == Seg(st, s, 1, TRUE)

\* printed width of the first line of s, and whether s contains a line end
RECURSIVE FirstLine(_, _, _)
FirstLine(s, i, acc) ==
    IF i > Len(s) THEN [width |-> acc, nl |-> FALSE]
    ELSE IF s[i] \in {10, 13} THEN [width |-> acc, nl |-> TRUE]
    ELSE FirstLine(s, i + 1, IF s[i] = 8 THEN acc - 1 ELSE IF s[i] >= 32 THEN acc + 1 ELSE acc)

\* a print item that does not fit on the rest of the row starts on the next row
ItemWrite(st, s) ==
    IF Len(s) = 0 THEN st
    ELSE LET fl  == FirstLine(s, 1, 0)
             brk == st.row # st.h /\ st.col # 1 /\ st.col - 1 + fl.width > st.w /\ ~fl.nl
         IN  ConsoleWrite(IF brk THEN ConsoleWrite(st, <<13>>) ELSE st, s)

PrintStmt(st, s, nl) ==
    LET s1 == ItemWrite(st, s)
        s2 == IF s1.ovf THEN ConsoleWrite(s1, <<13>>) ELSE s1
    IN  IF nl THEN ConsoleWrite(s2, <<13>>) ELSE s1

-----------------------------------------------------------------------------
(* statements *)
LocRow(st, a) == IF a.r = -1 THEN st.row ELSE a.r
LocCol(st, a) == IF a.c = -1 THEN st.col ELSE a.c

Must(st, a) ==
    CASE a.op = "print" -> "ok"
      [] a.op = "cls"   -> "ok"
      [] a.op = "locate" ->
           IF LocRow(st, a) \in 1..st.h /\ LocCol(st, a) \in 1..st.w THEN "any" ELSE "ifc"
      [] a.op = "viewprint" ->
           IF a.t = 0 /\ a.b = 0 THEN "ok"
           ELSE IF a.t < 1 \/ a.b > st.h \/ a.b < a.t THEN "ifc"
           ELSE IF a.b = st.h THEN "any" ELSE "ok"
      [] a.op = "width" -> IF st.mode = 0 /\ a.n \in TextWidths THEN "ok" ELSE "any"
      [] a.op = "screen" -> IF a.m = st.mode THEN "ok" ELSE "any"

Effect(st, a) ==
    CASE a.op = "print" -> PrintStmt(st, a.s, a.nl)
      [] a.op = "cls"   -> IF st.view THEN ClearView(st) ELSE ClearAll(st)
      [] a.op = "locate" ->
           LET r == LocRow(st, a)
               c == LocCol(st, a)
               s0 == [st EXCEPT !.bra = (st.bra \/ r = st.h),
                                \* the cursor goes to the REQUESTED cell: an explicit column ends an overflow
                                !.ovf = IF a.c # -1 THEN FALSE ELSE st.ovf]
           IN  SetPos(s0, r, c, FALSE)
      [] a.op = "viewprint" ->
           IF a.t = 0 /\ a.b = 0 THEN [st EXCEPT !.top = 1, !.bot = st.h - 1, !.view = FALSE]
           ELSE \* the cursor moves INTO the window (so a pending permission to write the bottom row ends)
                [st EXCEPT !.top = a.t, !.bot = a.b, !.view = TRUE, !.ovf = FALSE, !.row = a.t, !.col = 1,
                           !.bra = FALSE]
      [] a.op \in {"width", "screen"} ->
           \* a.fresh: the statement (re)initialised the video mode; nw / nmode: the width and mode it leads to
           IF a.fresh THEN Fresh(a.nw, st.h, a.nmode) ELSE st

\* demanded relation between a successful WIDTH / SCREEN statement and the mode it leads to: a statement that changes
\* the width or the mode re-initialises the screen; WIDTH n in text mode gives n columns; SCREEN 0 keeps the width
\* (40 when coming from 20 columns).  Which graphics mode WIDTH n selects is an adapter table the property does not fix.
WidthOk(st, a) ==
    /\ (a.nw # st.w \/ a.nmode # st.mode) => a.fresh
    /\ (~a.fresh) => (a.nw = st.w /\ a.nmode = st.mode)
    /\ (a.op = "width" /\ st.mode = 0 /\ a.n \in TextWidths) => (a.nw = a.n /\ a.nmode = 0)
    /\ (a.op = "screen") => a.nmode = a.m
    /\ (a.op = "screen" /\ a.m = 0 /\ st.mode # 0) => a.nw = (IF st.w = 20 THEN 40 ELSE st.w)

\* reference resolution of outcomes the property leaves open
RefOk(st, a) ==
    CASE a.op = "locate" -> /\ Must(st, a) = "any"
                            /\ (st.view => LocRow(st, a) \in st.top..st.bot)
      [] a.op = "viewprint" -> Must(st, a) = "ok"
      [] OTHER -> Must(st, a) # "ifc"

Accepts(must, ok, code) ==
    CASE must = "ok"  -> ok
      [] must = "ifc" -> ~ok /\ code = 5
      [] must = "any" -> ok \/ code = 5

-----------------------------------------------------------------------------
(* the placement law: n plain characters printed one after the other from the home
   position of a cleared window top..bot of width w end up at these cells      *)
Lines(n, w) == IF n = 0 THEN 0 ELSE (n + w - 1) \div w                \* rows needed
Scrolled(n, w, top, bot) == IF Lines(n, w) > bot - top + 1 THEN Lines(n, w) - (bot - top + 1) ELSE 0
PlaceRow(i, n, w, top, bot) == top + ((i - 1) \div w) - Scrolled(n, w, top, bot)
PlaceCol(i, w) == ((i - 1) % w) + 1
\* content of window cell <<r, c>> after printing s
PlacedAt(s, w, top, bot, r, c) ==
    LET i == (r - top + Scrolled(Len(s), w, top, bot)) * w + c
    IN  IF i >= 1 /\ i <= Len(s) THEN s[i] ELSE Blank
Placement(st, s) ==
    LET n == Len(s)
    IN  /\ \A r \in st.top..st.bot : \A c \in 1..st.w : st.buf[r][c] = PlacedAt(s, st.w, st.top, st.bot, r, c)
        /\ IF n = 0 THEN Csrlin(st) = st.top /\ Pos(st) = 1
           ELSE IF n % st.w = 0
           THEN /\ Pos(st) = 1
                /\ Csrlin(st) = (IF PlaceRow(n, n, st.w, st.top, st.bot) < st.bot
                                 THEN PlaceRow(n, n, st.w, st.top, st.bot) + 1 ELSE st.bot)
           ELSE Csrlin(st) = PlaceRow(n, n, st.w, st.top, st.bot) /\ Pos(st) = PlaceCol(n, st.w) + 1
=============================================================================
