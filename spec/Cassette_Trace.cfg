SPECIFICATION TSpec
CONSTANTS
  Payload = 255
  AsCoded = FALSE
INVARIANT TDone
CHECK_DEADLOCK FALSE
