---------------------------- MODULE Arrays_Trace ----------------------------
(* Total trace specification for C12.  Each event is one operation on the real
   interpreter:
     {op: dim|base|erase|get|set|clear, name, b, idx, v, ok, code, reset,
      obs: {base: -1|0|1, dims: {name: [..]}}}            (projection after the operation)
     {op: sweep, name, cells: [[idx, v], ..], full}       (every element read back through BASIC)
   The demanded outcome comes from Arrays!Must, the allowed post-states from
   Arrays!Posts on the OBSERVED outcome; the post-state that matches the observed
   base/bounds is adopted (element values are never taken from the implementation
   except after a reported violation), so every later read and sweep is judged
   against the values the MODEL holds per subscript tuple.                       *)
EXTENDS Arrays, TraceBase
VARIABLES st, l, viol
tvars == <<st, l, viol>>

ObsDims(e) == [n \in Names |-> e.obs.dims[n]]
ZeroOrNone(lo, d) == IF d = <<>> THEN <<>> ELSE Zero(lo, d)

Clause(must, e) ==
    CASE must = "e10" -> "redimension_not_duplicate_definition"
      [] must = "e9"  -> "out_of_bounds_or_arity_not_subscript_out_of_range"
      [] must = "e5"  -> "negative_subscript_not_illegal_function_call"
      [] must = "e5or9" -> "bad_subscript_not_rejected"
      [] must = "fail" -> "option_base_changed_under_existing_arrays"
      [] OTHER -> IF e.op \in {"get", "set"} THEN "subscript_in_bounds_rejected"
                  ELSE IF e.op = "dim" THEN "dim_rejected"
                  ELSE IF e.op = "erase" THEN "erase_rejected" ELSE "operation_rejected"

\* after a violation: adopt the observed base/bounds, keep the model's values where the bounds agree
Resync(ref, e) ==
    LET d == ObsDims(e)
    IN  [base |-> e.obs.base, dims |-> d,
         val  |-> [n \in Names |-> IF d[n] = ref.dims[n] /\ Lo(e.obs.base) = Lo(ref.base)
                                   THEN ref.val[n] ELSE ZeroOrNone(Lo(e.obs.base), d[n])]]

OpStep(e) ==
    LET s0    == IF Has(e, "reset") /\ e.reset THEN InitSt ELSE st
        must  == Must(s0, e)
        posts == Posts(s0, e, e.ok)
        cand  == {s \in posts : s.base = e.obs.base /\ s.dims = ObsDims(e)}
        v     == IF ~Accepts(must, e.ok, e.code) THEN Clause(must, e)
                 ELSE IF e.op = "get" /\ e.ok /\ e.v # Res(s0, e) THEN "element_read_differs_from_value_written"
                 ELSE IF cand = {} THEN "bounds_or_base_not_allowed_by_model"
                 ELSE "ok"
    IN  /\ st' = IF cand # {} THEN CHOOSE s \in cand : TRUE ELSE Resync(CHOOSE s \in posts : TRUE, e)
        /\ viol' = IF v = "ok" THEN viol ELSE Append(viol, <<l, v>>)

SweepStep(e) ==
    LET n    == e.name
        box  == DOMAIN st.val[n]            \* = Box(Lo(st.base), st.dims[n]) (Arrays!DomainOK), {} when not dimensioned
        I    == 1..Len(e.cells)
        seen == {e.cells[i][1] : i \in I}
        at(t) == IF t \in DOMAIN st.val[n] THEN st.val[n][t] ELSE -1
        bad  == {i \in I : e.cells[i][1] \in box /\ at(e.cells[i][1]) # e.cells[i][2]}
        v    == IF e.full /\ seen # box THEN "elements_are_not_exactly_the_declared_bounds"
                ELSE IF ~(seen \subseteq box) THEN "element_outside_declared_bounds_readable"
                ELSE IF bad # {} THEN "element_does_not_hold_its_own_value"
                ELSE "ok"
        obsv == [t \in box |-> IF \E i \in I : e.cells[i][1] = t
                               THEN e.cells[CHOOSE i \in I : e.cells[i][1] = t][2] ELSE at(t)]
    IN  /\ st' = IF bad = {} THEN st ELSE [st EXCEPT !.val[n] = obsv]
        /\ viol' = IF v = "ok" THEN viol ELSE Append(viol, <<l, v>>)

Step(e) == IF e.op = "sweep" THEN SweepStep(e) ELSE OpStep(e)

TInit == st = InitSt /\ l = 1 /\ viol = <<>>
TNext == l <= NEvents /\ l' = l + 1 /\ Step(Events[l])
TSpec == TInit /\ [][TNext]_tvars
TDone == (l = NEvents + 1) => WriteVerdict(l - 1, viol)
=============================================================================
