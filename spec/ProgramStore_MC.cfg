SPECIFICATION Spec
CONSTANTS
  CodeStart = 4717
  LineNums = {0, 10, 20, 30, 65529}
  MaxEdits = 5
  RenumNew <- NewBig
  RenumOld <- OldBig
  RenumInc <- IncBig
VIEW View
INVARIANT RefinesInv
INVARIANT IndexIsScanInv
INVARIANT LinksChainInv
INVARIANT GotoLandsInv
INVARIANT OutcomeInv
CHECK_DEADLOCK FALSE
