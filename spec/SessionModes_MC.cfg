SPECIFICATION Spec
CONSTANTS
  MaxDepth = 1
  FullArgs = FALSE
VIEW View
INVARIANT TypeInv
ACTION_CONSTRAINT Emit
CHECK_DEADLOCK FALSE
