SPECIFICATION Spec
CONSTANTS
  MaxDepth = 1
  FullArgs = FALSE
VIEW View
CONSTRAINT Bound
INVARIANT TypeInv
ACTION_CONSTRAINT Emit
CHECK_DEADLOCK FALSE
