------------------------------ MODULE Geometry ------------------------------
(* Geometry of the drawing primitives (property C31): predicates over the SET
   of pixels a statement changed on an unclipped screen whose previous content
   differs from the drawing attribute everywhere (so "set" = "changed").
   Points are <<x, y>>; a changed pixel is reported as <<x, y, v>> with v the
   new attribute.  Sprites/regions are sequences of rows of attributes.      *)
EXTENDS Integers, FiniteSets, Sequences

Abs(a) == IF a < 0 THEN -a ELSE a
Max(a, b) == IF a >= b THEN a ELSE b
Min(a, b) == IF a <= b THEN a ELSE b
Cheb(p, q) == Max(Abs(p[1] - q[1]), Abs(p[2] - q[2]))      \* chessboard distance
Adj8(p, q) == Cheb(p, q) = 1                                \* 8-neighbours
SeqSet(s) == {s[i] : i \in 1..Len(s)}
Pt(c) == <<c[1], c[2]>>
Points(px) == {Pt(px[i]) : i \in 1..Len(px)}
AllAttr(px, c) == \A i \in 1..Len(px) : px[i][3] = c

(* ---------------- PSET ------------------------------------------------- *)
\* exactly one pixel, at the requested place, and POINT returns what it now holds (= the requested attribute)
PsetOK(px, p, c, point) ==
    /\ Len(px) = 1
    /\ Pt(px[1]) = p
    /\ px[1][3] = point
    /\ point = c

(* ---------------- LINE ------------------------------------------------- *)
\* Literal statement: S has max(|dx|,|dy|)+1 pixels, contains both endpoints and is 8-connected.
\* Connectedness by the least fixpoint of neighbour expansion (used on small sets and in Geometry_MC).
RECURSIVE Reach8(_, _, _)
Reach8(S, R, F) == IF F = {} THEN R
                   ELSE LET N == {q \in S \ R : \E f \in F : Adj8(q, f)} IN Reach8(S, R \cup N, N)
Connected8(S) == S = {} \/ LET s == CHOOSE s \in S : TRUE IN Reach8(S, {s}, {s}) = S
LineSetOK(S, p, q) ==
    /\ Cardinality(S) = Cheb(p, q) + 1
    /\ p \in S /\ q \in S
    /\ Connected8(S)
\* Equivalent linear-time form used on recorded lines (up to 720 pixels): a set of Cheb+1 pixels containing both
\* endpoints is 8-connected iff, ordered along the major axis from p to q, consecutive pixels are 8-neighbours
\* (such a set is a shortest king's-move path).  `path` is that ordering, supplied by the harness as a WITNESS and
\* checked here; Geometry_MC proves the equivalence LinePathOK <=> LineSetOK for every pixel set of a small grid.
LinePathOK(path, p, q) ==
    /\ Len(path) = Cheb(p, q) + 1
    /\ path[1] = p /\ path[Len(path)] = q
    /\ \A i \in 1..Len(path) - 1 : Adj8(path[i], path[i + 1])
LineOK(px, p, q, c) == LinePathOK([i \in 1..Len(px) |-> Pt(px[i])], p, q) /\ AllAttr(px, c)

(* ---------------- LINE ,B and ,BF -------------------------------------- *)
Rect(p, q) == {<<x, y>> : x \in Min(p[1], q[1])..Max(p[1], q[1]), y \in Min(p[2], q[2])..Max(p[2], q[2])}
Outline(p, q) == {r \in Rect(p, q) : r[1] \in {p[1], q[1]} \/ r[2] \in {p[2], q[2]}}
BoxOK(px, p, q, c) == Points(px) = Outline(p, q) /\ Len(px) = Cardinality(Outline(p, q)) /\ AllAttr(px, c)
BoxFillOK(px, p, q, c) == Points(px) = Rect(p, q) /\ Len(px) = Cardinality(Rect(p, q)) /\ AllAttr(px, c)

(* ---------------- GET / PUT -------------------------------------------- *)
RECURSIVE Bits(_, _, _, _)
\* bitwise combination of two attributes over n bits
Bits(op, a, b, n) ==
    IF n = 0 THEN 0
    ELSE LET x == a % 2
             y == b % 2
             r == CASE op = "xor" -> (x + y) % 2
                    [] op = "and" -> x * y
                    [] op = "or"  -> IF x + y > 0 THEN 1 ELSE 0
         IN  r + 2 * Bits(op, a \div 2, b \div 2, n - 1)
Pow2(n) == IF n = 0 THEN 1 ELSE IF n = 1 THEN 2 ELSE IF n = 2 THEN 4 ELSE IF n = 3 THEN 8 ELSE 16
\* what a PUT with the given verb leaves in a pixel holding `old` when the sprite pixel is `s` (bpp bits per pixel)
PutPixel(verb, old, s, bpp) ==
    CASE verb = "pset"   -> s
      [] verb = "preset" -> Bits("xor", s, Pow2(bpp) - 1, bpp)
      [] OTHER           -> Bits(verb, old, s, bpp)
SameShape(a, b) == Len(a) = Len(b) /\ \A i \in 1..Len(a) : Len(a[i]) = Len(b[i])
PutOK(verb, before, sprite, after, bpp) ==
    /\ SameShape(before, sprite) /\ SameShape(before, after)
    /\ \A i \in 1..Len(after) : \A j \in 1..Len(after[i]) :
           after[i][j] = PutPixel(verb, before[i][j], sprite[i][j], bpp)
=============================================================================
