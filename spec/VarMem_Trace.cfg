SPECIFICATION TSpec
CONSTANTS
  VarStart = 0
  AsCoded = FALSE
INVARIANT TDone
CHECK_DEADLOCK FALSE
