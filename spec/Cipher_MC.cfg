SPECIFICATION Spec
CONSTANT Source = "observed"
INVARIANT Shape
INVARIANT RangeInv
INVARIANT DecEncInv
INVARIANT EncDecInv
INVARIANT PeriodInv
INVARIANT PermInv
