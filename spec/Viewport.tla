------------------------------ MODULE Viewport ------------------------------
(* Graphics viewport / active page state machine (property C30), functional
   core style.  State: the video mode (text or graphics, pixel size, pages),
   active and visible page, the graphics viewport rectangle (VIEW / VIEW
   SCREEN), whether a WINDOW is set.  The property is the relation
   Allowed(st, a): WHERE a statement may change pixels (page, rectangle), and
   Must(st, a): the outcome it demands (text modes: Illegal function call).
   Rectangles are <<x0, y0, x1, y1>>, inclusive, in absolute screen pixels.   *)
EXTENDS Integers, Sequences

Max(a, b) == IF a >= b THEN a ELSE b
Min(a, b) == IF a <= b THEN a ELSE b

NoRect == <<0, 0, -1, -1>>
IsEmpty(r) == r[3] < r[1] \/ r[4] < r[2]
Inside(r, s) == IsEmpty(r) \/ (s[1] <= r[1] /\ r[3] <= s[3] /\ s[2] <= r[2] /\ r[4] <= s[4])
Inter(r, s) == <<Max(r[1], s[1]), Max(r[2], s[2]), Min(r[3], s[3]), Min(r[4], s[4])>>
Grow(r) == <<r[1] - 1, r[2] - 1, r[3] + 1, r[4] + 1>>
Area(r) == IF IsEmpty(r) THEN 0 ELSE (r[3] - r[1] + 1) * (r[4] - r[2] + 1)
Ordered(x0, y0, x1, y1) == <<Min(x0, x1), Min(y0, y1), Max(x0, x1), Max(y0, y1)>>

ScreenRect(st) == <<0, 0, st.w - 1, st.h - 1>>

\* st: [mode, text, w, h, np, ap, vp, view, vact, vabs, win]
\* m : [mode, text, w, h, np, ap, vp]  (a video mode with its page selection)
Fresh(m) == [mode |-> m.mode, text |-> m.text, w |-> m.w, h |-> m.h, np |-> m.np, ap |-> m.ap, vp |-> m.vp,
             view |-> <<0, 0, m.w - 1, m.h - 1>>, vact |-> FALSE, vabs |-> FALSE, win |-> FALSE]

\* statements that draw (the list of the property) + the whole-viewport fill used as a probe of the viewport
DrawOps == {"pset", "preset", "line", "box", "boxf", "circle", "paint", "draw", "put", "probe"}
ViewOps == {"view", "viewoff"}
OtherOps == {"screen", "window", "windowoff", "cls"}

\* outcome the property demands: graphics statements in text modes raise Illegal function call
Must(st, a) == IF st.text /\ a.op \in DrawOps \cup ViewOps THEN "ifc" ELSE "any"
Accepts(must, ok, code) == must = "any" \/ (~ok /\ code = 5)

\* Free: the property does not constrain where the statement changes pixels (mode switch, CLS, WINDOW).
\* Otherwise AllowedRect is the rectangle of the ACTIVE page inside which the statement may change pixels;
\* every other page: nothing.
Free(a) == a.op \in OtherOps
NewRect(a) == Ordered(a.x0, a.y0, a.x1, a.y1)
AllowedRect(st, a) ==
    IF st.text THEN NoRect
    ELSE IF a.op = "view" THEN Inter(Grow(NewRect(a)), ScreenRect(st))     \* fill + 1-pixel border of the NEW viewport
    ELSE st.view

\* ch: one entry per page (index page+1): <<>> if no pixel of the page changed, else <<count, x0, y0, x1, y1>>
Box(c) == <<c[2], c[3], c[4], c[5]>>
OtherPageTouched(st, a, ch) == ~Free(a) /\ \E p \in 1..Len(ch) : ch[p] # <<>> /\ p - 1 # st.ap
OutsideAllowed(st, a, ch) ==
    ~Free(a) /\ \E p \in 1..Len(ch) : ch[p] # <<>> /\ p - 1 = st.ap /\ ~Inside(Box(ch[p]), AllowedRect(st, a))
ChangedOK(st, a, ch) == ~OtherPageTouched(st, a, ch) /\ ~OutsideAllowed(st, a, ch)

\* the probe fills a rectangle covering the whole screen with an attribute different from everything in the
\* viewport: exactly the viewport changes.  This is how the viewport of the model is compared with the real one.
ProbeExact(st, ch) ==
    /\ \A p \in 1..Len(ch) : p - 1 # st.ap => ch[p] = <<>>
    /\ st.ap + 1 \in 1..Len(ch)
    /\ ch[st.ap + 1] = <<Area(st.view)>> \o st.view

\* state after a statement with observed outcome ok and observed mode/pages m
Effect(st, a, ok, m) ==
    LET base == IF m.mode # st.mode THEN Fresh(m)            \* a mode change resets viewport and window
                ELSE [st EXCEPT !.np = m.np, !.ap = m.ap, !.vp = m.vp]
    IN  IF ~ok \/ base.text THEN base
        ELSE CASE a.op = "view"      -> [base EXCEPT !.view = NewRect(a), !.vact = TRUE, !.vabs = a.abs]
               [] a.op = "viewoff"   -> [base EXCEPT !.view = ScreenRect(base), !.vact = FALSE, !.vabs = FALSE]
               [] a.op = "window"    -> [base EXCEPT !.win = TRUE]
               [] a.op = "windowoff" -> [base EXCEPT !.win = FALSE]
               [] OTHER -> base

(* invariants of the state machine *)
ViewInScreen(st) == /\ ~IsEmpty(st.view) /\ Inside(st.view, ScreenRect(st))
                    /\ (~st.vact => st.view = ScreenRect(st) /\ ~st.vabs)
                    /\ (st.vact => st.view[1] < st.view[3] /\ st.view[2] < st.view[4])
PagesExist(st) == st.ap \in 0..st.np - 1 /\ st.vp \in 0..st.np - 1
TextHasNoView(st) == st.text => ~st.vact /\ ~st.win
=============================================================================
