----------------------------- MODULE C07_Trace -----------------------------
(* C07: decimal conversion in both directions, judged with exact arithmetic.

   PRINTING  event [dir |-> "print", form, b (2, 4 or 8 value bytes), text]
     text = [" " | "-"] number [" "*]       (number as in DecimalBig, no sign, no blanks)
     S = shown value, k = decimal place of the last digit shown, v = exact stored value:
       |S - v| < 10^k                                              print_error
       at most 7 (single) / 16 (double) significant digits         print_digits
       v an integer with |v| <= 2^24 / 2^56  =>  S = v             print_int_inexact
         (print_int_exact_impossible when |v| >= 10^7 / 10^16 and v is not a multiple
          of ten: such an integer needs more digits than the digit clause allows)

   READING  event [dir |-> "read", via, text, k ("val" | "err" | "soft"), code, b, wid]
     the text denotes dec exactly; the stored number b has type Len(b) \in {2, 4, 8}:
       type from the sigil, the exponent letter and the digit count  read_type
       integer: b = dec exactly; float: |b - dec| < ulp(b)           read_error (read_error_long_mantissa,
                                                                     read_error_trailing_zeros)
       b = 0 only for dec = 0 or |dec| < 2^-128                      read_zero (read_zero_near_min)
       Overflow only when |dec| exceeds the largest number           read_overflow_spurious
                                                                     (read_overflow_long_mantissa)
     wid = TRUE: the number was observed after storing it in a double variable (exact
     widening): the type is then inferred (a double whose low four bytes are zero may be
     a widened single or integer).                                           *)
EXTENDS DecimalBig, TraceBase
VARIABLES l, viol

RECURSIVE StripTrail(_)
StripTrail(t) == IF Len(t) > 0 /\ t[Len(t)] = 32 THEN StripTrail(Front(t, Len(t) - 1)) ELSE t

PrintV(e) ==
    IF ~(NumWellFormed(e.b) /\ IsByteSeq(e.text)) THEN "malformed_event"
    ELSE
    LET t0 == StripTrail(e.text)
        lead == IF Len(t0) > 0 /\ t0[1] \in {32, 45} THEN t0[1] ELSE 0
        t1 == IF lead = 0 THEN t0 ELSE From(t0, 2)
        p == ParseNum(t1)
        shown == LET u == NumVal(p) IN IF lead = 45 THEN ScNeg(u) ELSE u
        b == e.b
        v == StoredVal(b)
        isint == Len(b) = 2 \/ ScIsZero(v) \/ (MbfInExactRange(b) /\ MbfIsInteger(b))
    IN  IF Len(t1) = 0 \/ p.signed \/ ~p.ok \/ \E i \in 1..Len(t1) : IsBlank(t1[i]) THEN "print_malformed"
        ELSE IF Len(b) # 2 /\ SigLoose(p) > MaxDigits(b) THEN "print_digits"
        ELSE IF ~ScAbsLt(ScSub(shown, v), ScPow10(LastPlace(p))) THEN "print_error"
        ELSE IF isint /\ ~ScEq(shown, v) THEN
            IF Len(b) # 2 /\ ~ScIsZero(v) /\ ~ScAbsLt(v, ScPow10(MaxDigits(b))) /\ ~MbfIsMultipleOf10(b)
            THEN "print_int_exact_impossible" ELSE "print_int_inexact"
        ELSE "ok"

\* set of types (byte lengths) the text may be stored as
TypeSet(p, dec, hasBlank) ==
    IF p.sigil = 35 THEN {8}
    ELSE IF p.sigil = 33 THEN {4}
    ELSE IF p.letter = 68 THEN {8}
    ELSE IF SigStrict(p) > 7 THEN (IF p.letter = 69 THEN {4, 8} ELSE {8})
    ELSE IF SigLoose(p) > 7 THEN {4, 8}
    ELSE IF p.letter = 0 /\ ~p.point /\ ScCmp(dec, ScInt(32767)) <= 0 /\ ScCmp(dec, ScInt(-32768)) >= 0
         THEN (IF hasBlank \/ p.signed THEN {2, 4} ELSE {2})
    ELSE {4}

\* Does the stored number b (2, 4, 8 bytes) stand for dec?  mant = the mantissa digits of the text as an integer,
\* mant0 = the same without the trailing zeros of the fraction part (which do not change the value).
\* Three classes get their own clause names (open findings, see notes/C07.md), each only for an error below 3 ulp:
\*   read_error_trailing_zeros   mant does not fit the mantissa of the type exactly, but mant0 does: the only
\*                               reason for the inaccuracy are trailing zeros after the decimal point
\*   read_error_long_mantissa    mant0 does not fit either (more significant digits than the type holds)
\*   read_zero_near_min          a value less than 3 ulp above the smallest positive number is flushed to zero
ValueOK(b, dec, mant, mant0) ==
    IF Len(b) = 2 THEN (IF ScEq(IntVal(b), dec) THEN "ok" ELSE "read_error")
    ELSE IF MbfIsZero(b) THEN
        IF ScIsZero(dec) \/ ScAbsLt(dec, MbfMinPos) THEN "ok"
        ELSE IF ScAbsLt(dec, ScAdd(MbfMinPos, Sc(FALSE, <<3>>, -127 - MbfWidth(b), 0))) THEN "read_zero_near_min"
        ELSE "read_zero"
    ELSE LET diff == ScSub(MbfVal(b), dec)
             U == MbfUlp(b)
             lim == Pow2(MbfWidth(b))
         IN  IF ScAbsLt(diff, U) THEN "ok"
             ELSE IF ~Lt(mant, lim) /\ ScAbsLt(diff, ScMul(ScInt(3), U))
                  THEN (IF Lt(mant0, lim) THEN "read_error_trailing_zeros" ELSE "read_error_long_mantissa")
             ELSE "read_error"

ReadV(e) ==
    IF ~IsByteSeq(e.text) THEN "malformed_event"
    ELSE
    LET t1 == Unblank(e.text)
        p == ParseNum(t1)
        dec == NumVal(p)
        mant == FromDec(p.ds)
        \* trailing zeros of the fraction part: at most nfrac of the trailing zero digits
        tz == Len(p.ds) - LastNonZero(p.ds, Len(p.ds))
        strip == IF tz < p.nfrac THEN tz ELSE p.nfrac
        mant0 == FromDec(Front(p.ds, Len(p.ds) - strip))
        \* blanks inside the number (leading and trailing ones do not count)
        f == FirstIn(e.text, {c \in 0..255 : NotBlank(c)}, 1)
        inner == IF f = 0 THEN <<>> ELSE StripTrail(From(e.text, f))
        hasBlank == \E i \in 1..Len(inner) : IsBlank(inner[i])
        types == TypeSet(p, dec, hasBlank)
        maxlen == IF 4 \in types THEN 4 ELSE 8
    IN  IF ~p.ok THEN "read_fragment"            \* the driver left the modelled fragment (machinery)
        ELSE IF e.k \in {"err", "soft"} THEN
            IF e.code # 6 THEN "read_unexpected_error"
            ELSE IF ScAbsLe(dec, MbfMax(maxlen)) THEN
                \* own clause (open finding): the digit string taken as an integer is itself out of range (>= 2^127)
                (IF ~Lt(mant, Pow2(127)) THEN "read_overflow_long_mantissa" ELSE "read_overflow_spurious")
            ELSE IF e.k = "soft" THEN
                IF ~(NumWellFormed(e.b) /\ Len(e.b) # 2) THEN "malformed_event"
                ELSE IF IsMaxBytes(e.b, p.neg) \/ (e.wid /\ DoubleIsSingle(e.b) /\ IsMaxBytes(From(e.b, 5), p.neg)) THEN "ok"
                ELSE "read_overflow_not_signed_max"
            ELSE "ok"
        ELSE IF ~NumWellFormed(e.b) THEN "malformed_event"
        ELSE IF ~e.wid THEN
            IF Len(e.b) \notin types THEN "read_type" ELSE ValueOK(e.b, dec, mant, mant0)
        ELSE
            \* observed as a double: judge every type the text may have, report the most favourable verdict
            IF Len(e.b) # 8 THEN "malformed_event"
            ELSE LET v8 == IF 8 \in types THEN ValueOK(e.b, dec, mant, mant0) ELSE "none"
                     v4 == IF 4 \in types /\ DoubleIsSingle(e.b) THEN ValueOK(From(e.b, 5), dec, mant, mant0) ELSE "none"
                     v2 == IF 2 \in types /\ ScEq(MbfVal(e.b), dec) THEN "ok" ELSE "none"
                     vs == {v8, v4, v2}
                 IN  IF "ok" \in vs THEN "ok"
                     ELSE IF "read_error_trailing_zeros" \in vs THEN "read_error_trailing_zeros"
                     ELSE IF "read_error_long_mantissa" \in vs THEN "read_error_long_mantissa"
                     ELSE IF "read_zero_near_min" \in vs THEN "read_zero_near_min"
                     ELSE IF v4 # "none" THEN v4
                     ELSE IF v8 # "none" THEN v8
                     ELSE "read_type"

V(e) == IF e.dir = "print" THEN PrintV(e) ELSE IF e.dir = "read" THEN ReadV(e) ELSE "malformed_event"

INSTANCE OracleTrace WITH Verdict <- V
=============================================================================
