-------------------------------- MODULE Play --------------------------------
(* The PLAY statement (property C42), functional-core style.

   State of a voice: octave 0..6, default note length L (1..64), tempo T
   (32..255 quarter notes a minute), articulation MN/ML/MS, and the
   foreground/background flag of the statement queue.

   A music string is a sequence of COMMANDS (records); Render turns it into
   the text handed to PLAY, Run computes what the statement must do:
        [st |-> state afterwards, tones |-> emitted notes and pauses, err |-> 0 | 5]
   A tone is [n |-> note number 1..84 (0: pause), dur, gap, snd |-> <<num, den>>] in seconds (snd = dur - gap):
   dur = (60*4/T)/L * (3/2)^dots is the time slot of the note, gap the silent tail of the slot
   (1/8, 0, 1/4 of it under MN, ML, MS); a pause has no gap.
   What reaches the sound device (Raw) is, per note, a tone of dur - gap seconds at the note's
   frequency followed (gap > 0) by gap seconds of silence.
   Frequency (statement): 440 * 2^((n - 33)/12) Hz for note number n = octave*12 + semitone + 1 or N n;
   FreqMilli tabulates it in milli-hertz for n = 0..84.
   Malformed strings: Illegal function call (5).                              *)
EXTENDS Integers, Sequences, TLC

IFC == 5
Voice0 == [oct |-> 4, len |-> 4, tempo |-> 120, fill |-> "N", fg |-> TRUE]   \* GW-BASIC defaults (reference for generation only)

FreqMilli == <<
    65406, 69296, 73416, 77782, 82407, 87307, 92499, 97999, 103826, 110000, 116541, 123471,
    130813, 138591, 146832, 155563, 164814, 174614, 184997, 195998, 207652, 220000, 233082, 246942,
    261626, 277183, 293665, 311127, 329628, 349228, 369994, 391995, 415305, 440000, 466164, 493883,
    523251, 554365, 587330, 622254, 659255, 698456, 739989, 783991, 830609, 880000, 932328, 987767,
    1046502, 1108731, 1174659, 1244508, 1318510, 1396913, 1479978, 1567982, 1661219, 1760000, 1864655, 1975533,
    2093005, 2217461, 2349318, 2489016, 2637020, 2793826, 2959955, 3135963, 3322438, 3520000, 3729310, 3951066,
    4186009, 4434922, 4698636, 4978032, 5274041, 5587652, 5919911, 6271927, 6644875, 7040000, 7458620, 7902133,
    8372018 >>
Freq(n) == FreqMilli[n + 1]        \* 440000 * 2^((n-33)/12), n = 0..84, rounded to the milli-hertz
\* sanity of the table: octaves double (up to rounding), note 33 is the 440 Hz reference
TableOK == /\ Len(FreqMilli) = 85 /\ Freq(33) = 440000
           /\ \A n \in 0..72 : Freq(n + 12) - 2 * Freq(n) \in -2..2
           /\ \A n \in 0..83 : Freq(n + 1) > Freq(n)

(* ---------------- rationals ------------------------------------------------------------------------------ *)
RECURSIVE Gcd(_, _)
Gcd(a, b) == IF b = 0 THEN a ELSE Gcd(b, a % b)
Rat(n, d) == LET g == Gcd(n, d) IN IF n = 0 THEN <<0, 1>> ELSE <<n \div g, d \div g>>
RECURSIVE Pow(_, _)
Pow(b, e) == IF e = 0 THEN 1 ELSE b * Pow(b, e - 1)
\* slot of a note: (240/T)/L * (3/2)^dots ;  dots <= 4 keeps every product below 2^31
Slot(T, L, dots) == Rat(240 * Pow(3, dots), T * L * Pow(2, dots))
GapNum(fill) == CASE fill = "N" -> 1 [] fill = "L" -> 0 [] fill = "S" -> 2        \* eighths of the slot
GapOf(slot, fill) == Rat(slot[1] * GapNum(fill), slot[2] * 8)
Sounding(slot, fill) == Rat(slot[1] * (8 - GapNum(fill)), slot[2] * 8)

(* ---------------- commands ------------------------------------------------------------------------------- *)
\* [c |-> "note", name |-> "A".."G", acc |-> "" | "#" | "+" | "-", len |-> -1 (none) | 0.., dots |-> 0..]
\* [c |-> "P", len, dots]      [c |-> "N", n, dots, via]     [c |-> "L" | "T" | "O", n, via]
\* [c |-> "<"]  [c |-> ">"]    [c |-> "M", m |-> "N" | "L" | "S" | "F" | "B" | other]
\* [c |-> "X", sub |-> commands, var |-> name]              [c |-> "bad", x |-> text]
\* via: "lit" literal number, or the name of an integer variable holding it ("=NAME;")
Semi(name) == CASE name = "C" -> 0 [] name = "D" -> 2 [] name = "E" -> 4 [] name = "F" -> 5
                [] name = "G" -> 7 [] name = "A" -> 9 [] name = "B" -> 11
Black == {1, 3, 6, 8, 10}
AccOK(name, acc) == acc = "" \/ (Semi(name) + (IF acc = "-" THEN -1 ELSE 1)) \in Black
SemiOf(name, acc) == Semi(name) + (IF acc = "" THEN 0 ELSE IF acc = "-" THEN -1 ELSE 1)

Clamp(x, lo, hi) == IF x < lo THEN lo ELSE IF x > hi THEN hi ELSE x
Fail(st) == [st |-> st, tones |-> <<>>, err |-> IFC]
Done(st, tones) == [st |-> st, tones |-> tones, err |-> 0]
Tone(n, slot, fill) == [n |-> n, dur |-> slot, gap |-> GapOf(slot, fill), snd |-> Sounding(slot, fill)]
Pause(slot) == [n |-> 0, dur |-> slot, gap |-> <<0, 1>>, snd |-> <<0, 1>>]

Step(st, c) ==
    CASE c.c = "note" ->
            IF ~AccOK(c.name, c.acc) \/ c.len > 64 THEN Fail(st)
            ELSE LET L == IF c.len <= 0 THEN st.len ELSE c.len      \* no suffix or suffix 0: the current L
                 IN  Done(st, <<Tone(st.oct * 12 + SemiOf(c.name, c.acc) + 1, Slot(st.tempo, L, c.dots), st.fill)>>)
      [] c.c = "P" ->
            IF c.len < 0 \/ c.len > 64 \/ (c.len = 0 /\ c.dots > 0) THEN Fail(st)
            ELSE IF c.len = 0 THEN Done(st, <<>>)
            ELSE Done(st, <<Pause(Slot(st.tempo, c.len, c.dots))>>)
      [] c.c = "N" ->
            IF c.n < 0 \/ c.n > 84 THEN Fail(st)
            ELSE IF c.n = 0 THEN Done(st, <<Pause(Slot(st.tempo, st.len, c.dots))>>)
            ELSE Done(st, <<Tone(c.n, Slot(st.tempo, st.len, c.dots), st.fill)>>)
      [] c.c = "L" -> IF c.n < 1 \/ c.n > 64 THEN Fail(st) ELSE Done([st EXCEPT !.len = c.n], <<>>)
      [] c.c = "T" -> IF c.n < 32 \/ c.n > 255 THEN Fail(st) ELSE Done([st EXCEPT !.tempo = c.n], <<>>)
      [] c.c = "O" -> IF c.n < 0 \/ c.n > 6 THEN Fail(st) ELSE Done([st EXCEPT !.oct = c.n], <<>>)
      [] c.c = ">" -> Done([st EXCEPT !.oct = Clamp(st.oct + 1, 0, 6)], <<>>)
      [] c.c = "<" -> Done([st EXCEPT !.oct = Clamp(st.oct - 1, 0, 6)], <<>>)
      [] c.c = "M" -> IF c.m \in {"N", "L", "S"} THEN Done([st EXCEPT !.fill = c.m], <<>>)
                      ELSE IF c.m = "F" THEN Done([st EXCEPT !.fg = TRUE], <<>>)
                      ELSE IF c.m = "B" THEN Done([st EXCEPT !.fg = FALSE], <<>>)
                      ELSE Fail(st)
      [] OTHER -> Fail(st)

\* a statement: commands in order, X splices its substring in place; the first malformed command stops the statement
RECURSIVE Run(_, _)
Run(st, cs) ==
    IF cs = <<>> THEN Done(st, <<>>)
    ELSE LET c == Head(cs)
         IN  IF c.c = "X" THEN Run(st, c.sub \o Tail(cs))
             ELSE LET r == Step(st, c)
                  IN  IF r.err # 0 THEN r
                      ELSE LET q == Run(r.st, Tail(cs))
                           IN  [st |-> q.st, tones |-> r.tones \o q.tones, err |-> q.err]

\* what reaches the device: <<frequency in mHz, duration>> per tone, silence has frequency 0
RECURSIVE Raw(_)
Raw(tones) ==
    IF tones = <<>> THEN <<>>
    ELSE LET t == Head(tones)
         IN  (IF t.n = 0 THEN <<[f |-> 0, d |-> t.dur]>>
              ELSE IF t.gap[1] = 0 THEN <<[f |-> Freq(t.n), d |-> t.dur]>>
              ELSE <<[f |-> Freq(t.n), d |-> t.snd], [f |-> 0, d |-> t.gap]>>) \o Raw(Tail(tones))

(* ---------------- text ----------------------------------------------------------------------------------- *)
Dots(k) == CASE k = 0 -> "" [] k = 1 -> "." [] k = 2 -> ".." [] k = 3 -> "..." [] OTHER -> "...."
NumText(c) == IF c.via = "lit" THEN ToString(c.n) ELSE "=" \o c.via \o ";"
CmdText(c) ==
    CASE c.c = "note" -> c.name \o c.acc \o (IF c.len < 0 THEN "" ELSE ToString(c.len)) \o Dots(c.dots)
      [] c.c = "P" -> "P" \o (IF c.len < 0 THEN "" ELSE ToString(c.len)) \o Dots(c.dots)
      [] c.c = "N" -> "N" \o NumText(c) \o Dots(c.dots)
      [] c.c \in {"L", "T", "O"} -> c.c \o NumText(c)
      [] c.c \in {"<", ">"} -> c.c
      [] c.c = "M" -> "M" \o c.m
      [] c.c = "X" -> "X" \o c.var \o ";"
      [] c.c = "bad" -> c.x
RECURSIVE Render(_, _)
Render(cs, sep) == IF cs = <<>> THEN "" ELSE CmdText(Head(cs)) \o (IF Len(cs) > 1 THEN sep ELSE "") \o Render(Tail(cs), sep)

\* variables the harness must set before the statement: <<[name, n]>> for numbers, <<[name, text]>> for substrings
RECURSIVE VarsOf(_)
VarsOf(cs) ==
    IF cs = <<>> THEN <<>>
    ELSE LET c == Head(cs)
         IN  (IF c.c \in {"N", "L", "T", "O"} /\ c.via # "lit" THEN <<[name |-> c.via, n |-> c.n]>>
              ELSE IF c.c = "X" THEN VarsOf(c.sub) \o <<[name |-> c.var, text |-> Render(c.sub, "")]>>
              ELSE <<>>) \o VarsOf(Tail(cs))

(* ---------------- properties of the machine ---------------------------------------------------------------- *)
StateOK(st) == st.oct \in 0..6 /\ st.len \in 1..64 /\ st.tempo \in 32..255 /\ st.fill \in {"N", "L", "S"} /\ st.fg \in BOOLEAN
TonesOK(ts) == \A i \in 1..Len(ts) :
                  /\ ts[i].n \in 0..84
                  /\ ts[i].dur[1] > 0 /\ ts[i].dur[2] > 0 /\ ts[i].gap[1] >= 0
                  /\ (ts[i].n = 0 => ts[i].gap[1] = 0)
=============================================================================
