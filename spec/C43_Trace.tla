----------------------------- MODULE C43_Trace -----------------------------
(* Trace validation for C43: every recorded round trip through the Python
   session API is judged by the operators of SessionApi.tla.  The header
   carries the session's codepage table (byte -> code point), read from the
   implementation once and held constant.                                   *)
EXTENDS SessionApi, TraceBase
VARIABLES l, viol

CP == Header.cp
V(e) == Verdict0(CP, e)

INSTANCE OracleTrace WITH Verdict <- V
=============================================================================
