SPECIFICATION TSpec
CONSTANTS
  Cells <- TCells
  CellOrder <- TCellOrder
  Arrays <- TArrays
  Fns <- TFns
  MaxLen = 255
  Top = 0
  VarStart = 0
  VarEnd = 0
  AsCoded = FALSE
INVARIANT TDone
CHECK_DEADLOCK FALSE
