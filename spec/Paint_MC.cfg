SPECIFICATION Spec
CONSTANTS
  W = 3
  H = 3
  Stride = 1
  Phase = 0
  SeedIdx = {0, 1, 2, 3, 4, 5, 6, 7, 8}
INVARIANT FixpointLaws
INVARIANT Emit
