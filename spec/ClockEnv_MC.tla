---------------------------- MODULE ClockEnv_MC ----------------------------
(* Oracle self-check of ClockEnv.tla (no implementation involved):
   (a) the calendar arithmetic: for EVERY month of 1980..2099 the day numbers of
       consecutive days differ by one across the month and year boundary, and
       known anchor dates have their known day numbers;
   (b) the grammars: for EVERY string over a small alphabet up to length 5 the
       class of a string is stable under the laws the statement implies (a valid
       time read back in canonical form is valid and has the same value; anything
       containing a sign/blank/letter is invalid; HH:MM:SS output parses).     *)
EXTENDS ClockEnv
CONSTANTS Alphabet, MaxLen
VARIABLES y, m, s

RECURSIVE Strs(_)
Strs(n) == IF n = 0 THEN {<<>>} ELSE Strs(n - 1) \cup {t \o <<c>> : t \in {u \in Strs(n - 1) : Len(u) = n - 1}, c \in Alphabet}

Init == \/ (y \in 1980..2099 /\ m \in 1..12 /\ s = <<>>)
        \/ (y = 1980 /\ m = 1 /\ s \in Strs(MaxLen))
Next == UNCHANGED <<y, m, s>>
Spec == Init /\ [][Next]_<<y, m, s>>

Calendar ==
    /\ \A d \in 1..(DaysIn(m, y) - 1) : DayNum(y, m, d + 1) = DayNum(y, m, d) + 1
    /\ IF m < 12 THEN DayNum(y, m + 1, 1) = DayNum(y, m, DaysIn(m, y)) + 1
       ELSE DayNum(y + 1, 1, 1) = DayNum(y, 12, 31) + 1
    /\ DayNum(1980, 1, 1) = 0 /\ DayNum(2000, 1, 1) = 7305 /\ DayNum(2000, 3, 1) = 7365
    /\ DayNum(2026, 9, 22) = 17066 /\ DayNum(2100, 1, 1) = 43830
Digits2(v) == <<48 + (v \div 10), 48 + (v % 10)>>
Canon(t) == (Digits2(t \div 3600) \o <<Colon>>) \o (Digits2((t \div 60) % 60) \o <<Colon>>) \o Digits2(t % 60)
Grammar ==
    /\ TimeClass(s) = "valid" =>
          /\ BytesOf(s) \subseteq (48..57) \cup {Colon}
          /\ TimeVal(s) \in 0..86399
          /\ TimeOut(Canon(TimeVal(s))) = TimeVal(s)
          /\ TimeClass(Canon(TimeVal(s))) = "valid" /\ TimeVal(Canon(TimeVal(s))) = TimeVal(s)
    /\ (BytesOf(s) \cap {43, 32, 95, 97} # {}) => (TimeClass(s) = "invalid" /\ DateClass(s) = "invalid")
    /\ (Dash \in BytesOf(s) /\ Len(s) > 0) => TimeClass(s) = "invalid"          \* a negative component
    /\ DateClass(s) = "valid" => (DateVal(s) \in 0..43829 /\ Len(DateComps(s)) = 3)
    /\ s = <<>> => (TimeClass(s) = "invalid" /\ DateClass(s) = "invalid" /\ EnvClass(s) = "invalid")
=============================================================================
