----------------------------- MODULE C02_Trace -----------------------------
(* Trace validation for C02: every recorded call of the real interpreter
   {op, a, b, k, v} is judged by the defining equations of Int16.            *)
EXTENDS Int16, TraceBase
VARIABLES l, viol

Out(e) == IF e.k = "val" THEN <<"val", e.v>> ELSE IF e.k = "err" THEN <<"err", e.v>> ELSE <<e.k, 0>>

RECURSIVE ForOK(_, _, _)
\* seq: counter values seen by the body; end: "done" | "overflow" | "cut" (iteration budget)
ForOK(e, i, c) ==
    IF i > Len(e.seq)
    THEN TRUE
    ELSE /\ e.seq[i] = c
         /\ IF i < Len(e.seq)
            THEN InS(W16, c + e.step) /\ ForOK(e, i + 1, c + e.step)
            ELSE TRUE

ForVerdict(e) ==
    LET n == Len(e.seq)
        last == IF n = 0 THEN e.start ELSE e.seq[n]
    IN  IF ~ForOK(e, 1, e.start) THEN "for_counter_not_exact"
        ELSE IF e.end = "overflow" /\ InS(W16, last + e.step) THEN "for_overflow_spurious"
        ELSE IF e.end = "done" /\ n > 0 /\ ~InS(W16, last + e.step) THEN "for_overflow_missed"
        ELSE IF e.end \notin {"done", "overflow", "cut"} THEN "for_outcome"
        ELSE "ok"

V(e) ==
    CASE e.op = "idiv" -> IF Out(e) = IntDivOut(W16, e.a, e.b) THEN "ok"
                          ELSE IF e.b = 0 THEN "idiv_zero" ELSE IF ~InS(W16, TDiv(e.a, e.b)) THEN "idiv_overflow" ELSE "idiv_value"
      [] e.op = "mod"  -> IF Out(e) = ModOut(W16, e.a, e.b) THEN "ok"
                          ELSE IF e.b = 0 THEN "mod_zero" ELSE IF ~InS(W16, TDiv(e.a, e.b)) THEN "mod_overflow" ELSE "mod_value"
      [] e.op \in {"and", "or", "xor", "eqv", "imp"} ->
                          IF Out(e) = BitOut(W16, e.op, e.a, e.b) THEN "ok"
                          ELSE IF InBit(W16, e.a) /\ InBit(W16, e.b) THEN "bit_value" ELSE "bit_range"
      [] e.op = "not"  -> IF Out(e) = NotOut(W16, e.a) THEN "ok"
                          ELSE IF InBit(W16, e.a) THEN "bit_value" ELSE "bit_range"
      [] e.op = "for"  -> ForVerdict(e)
      [] OTHER -> "unknown_op"

INSTANCE OracleTrace WITH Verdict <- V
=============================================================================
