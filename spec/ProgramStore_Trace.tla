-------------------------- MODULE ProgramStore_Trace --------------------------
(* Total trace specification for C13.  One event per edit made on the real
   interpreter: the action record of ProgramStore (op, arguments), the outcome
   (ok, code, kind), `reset` (fresh session) and the projection `obs` taken
   after the edit:
     list    [[number, "text"], ...]   parsed LIST output
     start   address of the first link field (PEEK(&H30) + 256 * PEEK(&H31))
     chain   [[address, link, number], ...]  PEEK walk from `start` following the links
     term    TRUE iff the walk ended on a 00 00 link;  end = address of that link
     idx     Program.line_numbers as [[number, offset], ...] ascending
     rescan  the same from a fresh rebuild_line_dict on a copy of the buffer; relinks = links it wrote
     goto    [[n, landed], ...]  direct-mode GOTO n with TRON: first line executed
     fault   "" or what broke while projecting (PEEK raising, rescan raising)
   Optional `model` (behaviour replay): the memory layout predicted by the
   implementation-shaped layer for this transition.
   The reference layer alone decides: the listing must equal Listing(ref) of
   the state reached by ProgramStore!After on the observed outcome, the chain
   must enumerate exactly the reference lines in ascending order through
   consecutive links and end with the terminator, the index must agree with
   that walk and with the rescan, every probed GOTO must land on its line.   *)
EXTENDS ProgramStore, TraceBase
VARIABLES st, l, viol
tvars == <<st, l, viol>>

Col(seq, k) == [i \in DOMAIN seq |-> seq[i][k]]
ChainLinked(o) ==
    /\ (Len(o.chain) > 0 => o.chain[1][1] = o.start)
    /\ (Len(o.chain) = 0 => o.end = o.start)
    /\ \A i \in DOMAIN o.chain :
          /\ o.chain[i][2] > o.chain[i][1] + 4
          /\ (IF i < Len(o.chain) THEN o.chain[i + 1][1] ELSE o.end) = o.chain[i][2]
IndexFromChain(o) ==
    [i \in DOMAIN o.chain |-> <<o.chain[i][3], o.chain[i][1] - o.start>>] \o <<<<Sentinel, o.end - o.start>>>>
RelChain(o) == [i \in DOMAIN o.chain |-> <<o.chain[i][1] - o.start, o.chain[i][2] - o.start, o.chain[i][3]>>]

\* keep the structured text of a line whose listing is as expected, take the observed text literally otherwise
Resync(ref, list) ==
    [n \in {list[i][1] : i \in DOMAIN list} |->
        LET t == list[CHOOSE i \in DOMAIN list : list[i][1] = n][2]
        IN  IF n \in DOMAIN ref /\ Render(ref[n]) = t THEN ref[n] ELSE Lit(t)]

Step(e) ==
    LET s0   == IF e.reset THEN InitSt ELSE st
        s1   == After(s0, e, e.ok)
        o    == e.obs
        exp  == Listing(s1.ref)
        good == o.list = exp
        v == IF e.kind = "internal" THEN "internal_error"
             ELSE IF Must(s0, e) = "ok" /\ ~e.ok THEN "edit_refused"
             ELSE IF ~good THEN "listing_differs_from_reference"
             ELSE IF o.fault # "" THEN "projection_failed_on_corrupt_program_memory"
             ELSE IF ~o.term THEN "no_terminator_at_end_of_link_chain"
             ELSE IF ~ChainLinked(o) THEN "link_chain_broken"
             ELSE IF Col(o.chain, 3) # Col(exp, 1) THEN "link_chain_lines_differ_from_reference"
             ELSE IF o.idx # o.rescan THEN "index_differs_from_rescan"
             ELSE IF o.idx # IndexFromChain(o) THEN "index_differs_from_link_walk"
             ELSE IF o.relinks # Col(o.chain, 2) THEN "links_differ_from_rebuilt_links"
             ELSE IF \E i \in DOMAIN o.goto : o.goto[i][1] # o.goto[i][2] THEN "goto_lands_on_another_line"
             ELSE IF Has(e, "model") /\ e.model.chain # RelChain(o) THEN "memory_layout_differs_from_model"
             ELSE "ok"
    IN  /\ st' = IF good THEN s1 ELSE [s1 EXCEPT !.ref = Resync(s1.ref, o.list)]
        /\ viol' = IF v = "ok" THEN viol ELSE Append(viol, <<l, v>>)

TInit == st = InitSt /\ l = 1 /\ viol = <<>>
TNext == l <= NEvents /\ l' = l + 1 /\ Step(Events[l])
TSpec == TInit /\ [][TNext]_tvars
TDone == (l = NEvents + 1) => WriteVerdict(l - 1, viol)
=============================================================================
