---------------------------- MODULE TraceBase ----------------------------
(* Shared plumbing of all trace specifications: the recorded implementation
   trace is a JSON document {header: {...}, events: [...]} named by the
   environment variable TRACE_FILE; the verdict list is written as JSON to
   OUT_FILE.  Trace specs are TOTAL: every event is consumed, an event the
   specification cannot explain appends <<index, clause>> to `viol`.       *)
EXTENDS Naturals, Sequences, TLC, Json, IOUtils

TraceDoc == JsonDeserialize(IOEnv.TRACE_FILE)
Events   == TraceDoc.events
Header   == TraceDoc.header
NEvents  == Len(Events)

WriteVerdict(n, viol) ==
    JsonSerialize(IOEnv.OUT_FILE, [n |-> n, viol |-> viol])

Has(rec, field) == field \in DOMAIN rec
=============================================================================
