SPECIFICATION Spec
INVARIANT NearLaw
INVARIANT RatLaw
