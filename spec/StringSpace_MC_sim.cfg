SPECIFICATION SimSpec
CONSTANTS
  Cells = {"A", "B", "C", "R0", "R1"}
  CellOrder <- MCCellOrder
  Arrays <- MCArrays
  Fns <- MCFns
  MaxLen = 4
  Top = 14
  VarStart = 2
  VarEnd = 4
  AsCoded = FALSE
  Lits <- MCLits
  Targets = {"A", "B", "R0"}
  Srcs = {"A", "B", "R0", "R1"}
  MaxOps = 8
  Shapes = {"l", "v", "vl", "lv", "ll", "vv", "vll", "v(lv)", "midset", "lset", "swap", "erase", "left", "mid", "fn"}
VIEW View
INVARIANT RefinesInv
INVARIANT WellFormedInv
INVARIANT NoAliasInv
INVARIANT NoOverflowInv
INVARIANT NoBadInv
CHECK_DEADLOCK FALSE
INVARIANT PrintBehaviour
