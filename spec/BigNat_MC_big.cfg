SPECIFICATION Spec
CONSTANTS
  LB = 8
  LBits = 3
  N = 1024
  NS = 32
INVARIANT NatOK
INVARIANT ScOK
CHECK_DEADLOCK FALSE
