SPECIFICATION Spec
CONSTANTS
  LB = 8
  LBits = 3
  N = 768
  NS = 28
INVARIANT NatOK
INVARIANT ScOK
CHECK_DEADLOCK FALSE
