SPECIFICATION Spec
CONSTANTS
  LB = 8
  LBits = 3
  N = 512
  NS = 24
INVARIANT NatOK
INVARIANT ScOK
CHECK_DEADLOCK FALSE
