SPECIFICATION Spec
CONSTANTS
  FileNums = {1, 2}
  Names = {"A", "B"}
  AsCoded = FALSE
  RecLens = {2, 3}
  MaxRec = 3
  Contents = {1}
  MaxOps = 5
  BadRecs = {0}
VIEW ViewSt
INVARIANT RecordsInv
ACTION_CONSTRAINT Emit
CHECK_DEADLOCK FALSE
