----------------------------- MODULE C39_Trace -----------------------------
(* Oracle events for C39 (independent of each other, one TLC state each):

   {op: "seg", vals: [m1, e1, m2, e2, ...], proj: s}
       consecutive results of RND on the real generator, each as the compact
       form of its 4 single-precision bytes (m = b1 + 256 b2 + 65536 b3, e = b4).
       Consecutive segments overlap by one value, so together they cover the
       whole run; proj is the generator state (Randomiser._seed) projected at
       the end of the segment.  Demanded: every value is k/2^24 for an integer
       0 <= k < 2^24, consecutive values satisfy k' = Next(k), proj = last k.
   {op: "step", runs: [[s, s', m, e], ...]}
       the transition function on chosen states: state s installed, RND called.
   {op: "reseed", kind: "randomize" | "rndneg", arg: [bytes], runs: [[pre, post, m, e], ...]}
       the same reseeding operation performed from several generator states
       pre; post = state afterwards; (m, e) = the value RND(0) (randomize) or
       the call itself (rndneg) returned.  Demanded: post in range, value =
       post/2^24, and equal arguments reseed identically (all post equal).   *)
EXTENDS Rnd, TraceBase
VARIABLES l, viol

HA == Header.A
HC == Header.C

K(e, i) == DecME(e.vals[2 * i - 1], e.vals[2 * i])
SegBad(e) ==
    LET n == Len(e.vals) \div 2
    IN  IF \E i \in 1..n : K(e, i) = -1 THEN "value_not_seed_over_2^24"
        ELSE IF \E i \in 1..(n - 1) : K(e, i + 1) # Next(K(e, i)) THEN "sequence_not_lcg"
        ELSE IF Has(e, "proj") /\ e.proj # K(e, n) THEN "projected_seed_differs_from_value"
        ELSE "ok"

StepBad(e) ==
    IF \E i \in 1..Len(e.runs) : Dec2(<<e.runs[i][3], e.runs[i][4]>>) # Next(e.runs[i][1]) THEN "sequence_not_lcg"
    ELSE IF \E i \in 1..Len(e.runs) : e.runs[i][2] # Next(e.runs[i][1]) THEN "projected_seed_differs_from_value"
    ELSE "ok"

ReseedBad(e) ==
    LET R == e.runs
        I == 1..Len(R)
    IN  IF \E i \in I : ~InRange(R[i][2]) THEN "reseed_out_of_range"
        ELSE IF \E i \in I : Dec2(<<R[i][3], R[i][4]>>) # R[i][2] THEN "value_after_reseed_not_seed_over_2^24"
        \* a function of the argument and (at most) the low byte of the previous state: this much the code promises
        ELSE IF \E i, j \in I : R[i][1] % 256 = R[j][1] % 256 /\ R[i][2] # R[j][2] THEN "reseed_not_deterministic"
        \* the statement: equal arguments reseed identically
        ELSE IF \E i, j \in I : R[i][2] # R[j][2] THEN
                 (IF e.kind = "randomize" THEN "randomize_depends_on_previous_state" ELSE "reseed_not_deterministic")
        ELSE "ok"

V(e) == CASE e.op = "seg" -> SegBad(e)
          [] e.op = "step" -> StepBad(e)
          [] e.op = "reseed" -> ReseedBad(e)
          [] OTHER -> "unknown_op"

INSTANCE OracleTrace WITH Verdict <- V
=============================================================================
