SPECIFICATION Spec
CONSTANT Alpha = {32, 200}
CONSTANT MaxL = 3
CONSTANT MaxU = 1
INVARIANT LeftRightLaw
INVARIANT MidLaw
INVARIANT InstrLaw
INVARIANT OrderLaw
INVARIANT ConcatLaw
INVARIANT MidSetLaw
INVARIANT JustifyLaw
INVARIANT StringLaw
INVARIANT EvalLaw
INVARIANT StmtLaw
