----------------------------- MODULE C03_Trace -----------------------------
(* Trace validation for C03: every recorded conversion of the real interpreter
   is judged by the defining equations of MBFConv.tla / MBF.tla.
   Event fields: fn, t (operand type), x (operand bytes, little-endian),
   k ("val" | "err" | "soft" | "internal"), rt (result type), r (result bytes),
   c (error code); integers by value in v / back; strings as byte arrays s.  *)
EXTENDS MBFConv, TraceBase
VARIABLES l, viol

IsVal(e) == e.k = "val" /\ WellFormed(e.rt, e.r)

CintV(e) == LET o == CintOut(Decode(e.x)) IN
    IF o[1] = "err"
    THEN (IF e.k = "err" /\ e.c = Overflow THEN "ok" ELSE "cint_overflow_missed")
    ELSE IF e.k # "val" THEN "cint_spurious_error"
    ELSE IF ~WellFormed(e.rt, e.r) THEN "cint_result_malformed"
    ELSE IF EqualV(Decode(e.r), FromInt(o[2])) THEN "ok" ELSE "cint_value"

FixV(e) == IF ~IsVal(e) THEN "fix_outcome"
           ELSE IF EqualV(Decode(e.r), Fix(Decode(e.x))) THEN "ok" ELSE "fix_value"
IntV(e) == IF ~IsVal(e) THEN "int_outcome"
           ELSE IF EqualV(Decode(e.r), IntF(Decode(e.x))) THEN "ok" ELSE "int_value"

\* CVI/CVS/CVD of a 2/4/8-byte string: a value of that type whose encoding is those bytes
CvV(e) == IF ~IsVal(e) THEN "cv_outcome"
          ELSE IF e.rt # TypeOfLen(Len(e.x)) THEN "cv_type"
          ELSE IF e.r = e.x THEN "ok" ELSE "cv_bytes"
\* MKI$/MKS$/MKD$ of a value of that type: exactly the stored binary form
MkV(e) == IF e.k # "val" THEN "mk_outcome" ELSE IF e.r = e.x THEN "ok" ELSE "mk_bytes"
\* the same by VALUE for integers: MKI$(v) is the two's-complement little-endian pair, CVI its inverse
MkiV(e) == IF e.k # "val" THEN "mki_outcome" ELSE IF e.r = BytesOfInt(e.v) THEN "ok" ELSE "mki_bytes"
CviV(e) == IF e.k # "val" THEN "cvi_outcome" ELSE IF e.v = IntOfBytes(e.x) THEN "ok" ELSE "cvi_value"

\* widening conversions are exact: integer -> single/double, single -> double
WidenV(e) == IF ~IsVal(e) THEN "widen_outcome"
             ELSE IF e.rt # e.to THEN "widen_type"
             ELSE IF EqualV(Decode(e.r), Decode(e.x)) THEN "ok" ELSE "widen_value"

D2sV(e) == LET out == IF e.k = "val" /\ WellFormed(e.rt, e.r) THEN <<"val", Decode(e.r)>>
                      ELSE IF e.k \in {"err", "soft"} THEN <<e.k, e.c>> ELSE <<"bad", 0>>
           IN IF e.k = "val" /\ e.rt # "s" THEN "d2s_type"
              ELSE IF DoubleToSingleOK(Decode(e.x), out) THEN "ok"
              ELSE IF out[1] # "val" THEN "d2s_outcome"
              ELSE IF IsZero(Decode(e.x)) THEN "d2s_zero"
              ELSE IF D2SExact(Decode(e.x)) THEN "d2s_exact_changed"
              ELSE IF ~EqualV(out[2], D2SLo(Decode(e.x))) /\ ~EqualV(out[2], D2SHi(Decode(e.x))) THEN "d2s_not_a_neighbour"
              ELSE "d2s_wrong_neighbour"

\* HEX$/OCT$: the digit string denotes the 16-bit pattern and &H/&O of it reads back the same integer
RadixV(e, base, nm) ==
    IF e.k # "val" THEN nm \o "_outcome"
    ELSE IF ~DigitsDenote(e.s, base, e.v) THEN nm \o "_digits"
    ELSE IF e.bk # "val" THEN nm \o "_reread_error"
    ELSE IF e.back = e.v THEN "ok" ELSE nm \o "_roundtrip"

V(e) ==
    IF e.k = "internal" THEN "internal_error"
    ELSE CASE e.fn = "cint" -> CintV(e)
           [] e.fn = "fix"  -> FixV(e)
           [] e.fn = "int"  -> IntV(e)
           [] e.fn = "cv"   -> CvV(e)
           [] e.fn = "mk"   -> MkV(e)
           [] e.fn = "mki"  -> MkiV(e)
           [] e.fn = "cvi"  -> CviV(e)
           [] e.fn = "widen" -> WidenV(e)
           [] e.fn = "d2s"  -> D2sV(e)
           [] e.fn = "hex"  -> RadixV(e, 16, "hex")
           [] e.fn = "oct"  -> RadixV(e, 8, "oct")
           [] OTHER -> "unknown_fn"

INSTANCE OracleTrace WITH Verdict <- V
=============================================================================
