SPECIFICATION Spec
CONSTANTS
  Names = {"A", "B"}
  Auto = 10
  MaxCells = 100000
  MaxDimsA = 2
  MaxBound = 1
  MaxSets = 1
VIEW View
INVARIANT PackedInv
ACTION_CONSTRAINT Emit
