------------------------------- MODULE VarMem -------------------------------
(* Variable storage exposed through PEEK / VARPTR / VARPTR$ (property C11).

   PART 1 - THE PROPERTY, stated on a SWEEP: the sequence of cells (scalar variables and array elements)
   alive after a step, each cell a record
       [n    name as written in BASIC ("AB%", "Q!(1,2)"),
        t    type sigil "%" | "!" | "#" | "$",
        vp   VARPTR(cell),
        vps  the 3 bytes of VARPTR$(cell),
        pk   the Size(t) bytes PEEKed at vp .. vp+Size(t)-1,
        val  the stored value: bytes of MKI$/MKS$/MKD$(cell) for numbers, the characters for strings,
        sa, sp   strings only: the address the characters were PEEKed at, and the bytes found there]
   and the variable area <<start (PEEK &H358), arrays (PEEK &H35A), end (PEEK &H35C)>>.
   CellVerdict / PairVerdict name the violated clause.  NonInterference relates two consecutive sweeps and
   the statement executed between them.  The trace specification VarMem_Trace evaluates these on the sweeps
   logged from the real interpreter; VarMem_MC evaluates the same predicates on sweeps DERIVED from the model.

   PART 2 - IMPLEMENTATION-SHAPED MODEL of memory/scalars.py, arrays.py, memory.py: scalar records with
   absolute name/value pointers, array records with pointers relative to the end of the scalars, record sizes
   max(3,|name|)+1+size resp. 1+max(3,|name|)+3+2*dims+elements, ERASE shifting the later arrays down, and
   Peek(st, addr) transcribing DataSegment._get_var_memory / Scalars.get_memory / Arrays.get_memory.
   AsCoded = TRUE transcribes Arrays.get_memory as pinned (relative name pointer compared with the absolute
   address, `break` on the first array); FALSE the repaired search (nearest record at or below the address). *)
EXTENDS Integers, Sequences, FiniteSets, TLC

CONSTANTS VarStart,     \* model: start of the variable area
          AsCoded

Size(t) == CASE t = "%" -> 2 [] t = "!" -> 4 [] t = "#" -> 8 [] t = "$" -> 3
Max(a, b) == IF a > b THEN a ELSE b

-----------------------------------------------------------------------------
(* ------------------------------- the property ------------------------------- *)
CellVerdict(c, area) ==
    IF c.vps # <<Size(c.t), c.vp % 256, c.vp \div 256>> THEN "varptr_str_differs_from_type_and_address"
    ELSE IF ~(area[1] <= c.vp /\ c.vp + Size(c.t) <= area[3]) THEN "value_outside_variable_area"
    ELSE IF c.t # "$" THEN (IF c.pk # c.val THEN "peek_at_varptr_differs_from_stored_encoding" ELSE "ok")
    ELSE IF c.pk[1] # Len(c.val) THEN "peek_at_varptr_differs_from_string_length"
    ELSE IF Len(c.val) > 0 /\ c.sa # c.pk[2] + 256 * c.pk[3] THEN "harness_peeked_wrong_string_address"
    ELSE IF Len(c.val) > 0 /\ c.sp # c.val THEN "peek_at_string_address_differs_from_characters"
    ELSE "ok"
Overlap(c, d) == ~(c.vp + Size(c.t) <= d.vp \/ d.vp + Size(d.t) <= c.vp)

\* first rejected clause of a sweep, "ok" if none
RECURSIVE FirstBad(_, _, _)
FirstBad(sweep, area, i) ==
    IF i > Len(sweep) THEN "ok"
    ELSE LET v == CellVerdict(sweep[i], area) IN
         IF v # "ok" THEN v
         ELSE IF \E j \in 1..(i - 1) : Overlap(sweep[i], sweep[j]) THEN "cells_overlap"
         ELSE FirstBad(sweep, area, i + 1)
SweepVerdict(sweep, area) == FirstBad(sweep, area, 1)

\* values of a sweep as a function name -> [val, arr] (arr: name of the array the cell belongs to, "" for scalars)
Vals(sweep) == [n \in {sweep[i].n : i \in 1..Len(sweep)} |->
                  LET c == sweep[CHOOSE i \in 1..Len(sweep) : sweep[i].n = n] IN [val |-> c.val, arr |-> c.arr]]

\* statement a: [op: "assign", x (, sv: the string assigned)] | [op: "swap", x, y] | [op: "erase"|"dim", arr] | [op: "other"]
\* ok: the statement succeeded.  prev / cur: Vals of the sweeps before and after.
\* A statement may create variables (new names in cur) and ERASE removes an array's elements; every cell alive
\* before and after, other than the statement's own targets, keeps its value.
Targets(a) == CASE a.op = "assign" -> {a.x} [] a.op = "swap" -> {a.x, a.y} [] OTHER -> {}
\* ERASE may name two arrays in one statement (arr, arr2)
ErasedBy(a, x) == a.op = "erase" /\ (x = a.arr \/ ("arr2" \in DOMAIN a /\ x = a.arr2))
NonInterference(prev, cur, a, ok) ==
    LET both == DOMAIN prev \cap DOMAIN cur IN
    IF \E n \in both : (~ok \/ n \notin Targets(a)) /\ cur[n].val # prev[n].val
        THEN "another_variable_changed"
    ELSE IF \E n \in DOMAIN prev \ DOMAIN cur : ~(ok /\ ErasedBy(a, prev[n].arr)) THEN "a_variable_disappeared"
    ELSE IF ok /\ a.op = "erase" /\ \E n \in both : ErasedBy(a, prev[n].arr) THEN "erased_array_still_alive"
    ELSE IF ok /\ a.op = "swap" /\ a.x \in DOMAIN prev /\ a.y \in DOMAIN prev
              /\ ~(cur[a.x].val = prev[a.y].val /\ cur[a.y].val = prev[a.x].val) THEN "swap_did_not_exchange"
    ELSE IF ok /\ a.op = "assign" /\ "sv" \in DOMAIN a /\ cur[a.x].val # a.sv THEN "string_target_differs_from_assigned_value"
    ELSE "ok"

-----------------------------------------------------------------------------
(* ------------------------- implementation-shaped model ------------------------- *)
\* names: sequences of character codes (upper case), without the sigil; |name| of the code = Len + 1
HdrLen(name) == Max(3, Len(name) + 1) + 1
NameHdr(name, t) ==                      \* scalars.get_name_in_memory
    [i \in 1..HdrLen(name) |->
        LET o == i - 1 IN
        IF o = 0 THEN Size(t)
        ELSE IF o = 1 THEN name[1]
        ELSE IF o = 2 THEN (IF Len(name) >= 2 THEN name[2] ELSE 0)
        ELSE IF o = 3 THEN (IF Len(name) >= 3 THEN Len(name) - 2 ELSE 0)
        ELSE name[o - 1] - 65 + 193]
Zero(t) == [i \in 1..Size(t) |-> 0]

RECURSIVE Prod(_, _)
Prod(dims, k) == IF k = 0 THEN 1 ELSE (dims[k] + 1) * Prod(dims, k - 1)        \* OPTION BASE 0
FlatLen(dims) == Prod(dims, Len(dims))
FlatIdx(idx, dims) == LET RECURSIVE F(_)
                          F(k) == IF k = 0 THEN 0 ELSE F(k - 1) + idx[k] * Prod(dims, k - 1)
                      IN F(Len(dims))
ArrHdrLen(name, dims) == 1 + Max(3, Len(name) + 1) + 3 + 2 * Len(dims)
ArrBytes(t, dims) == FlatLen(dims) * Size(t)

\* st = [sc: Seq of [name, t, np, vp, val], scur, ar: Seq of [name, t, dims, np, ap, vals], acur]
InitSt == [sc |-> <<>>, scur |-> 0, ar |-> <<>>, acur |-> 0]
VarCur(st) == VarStart + st.scur
HasScalar(st, name, t) == \E i \in 1..Len(st.sc) : st.sc[i].name = name /\ st.sc[i].t = t
HasArray(st, name, t) == \E i \in 1..Len(st.ar) : st.ar[i].name = name /\ st.ar[i].t = t
SIdx(st, name, t) == CHOOSE i \in 1..Len(st.sc) : st.sc[i].name = name /\ st.sc[i].t = t
AIdx(st, name, t) == CHOOSE i \in 1..Len(st.ar) : st.ar[i].name = name /\ st.ar[i].t = t

\* Scalars.set for a new name
NewScalar(st, name, t, v) ==
    LET np == VarCur(st) IN
    [st EXCEPT !.sc = Append(@, [name |-> name, t |-> t, np |-> np, vp |-> np + HdrLen(name), val |-> v]),
               !.scur = @ + HdrLen(name) + Size(t)]
SetScalar(st, name, t, v) == IF HasScalar(st, name, t) THEN [st EXCEPT !.sc[SIdx(st, name, t)].val = v] ELSE NewScalar(st, name, t, v)
\* Arrays.allocate
Dim(st, name, t, dims) ==
    [st EXCEPT !.ar = Append(@, [name |-> name, t |-> t, dims |-> dims, np |-> st.acur, ap |-> st.acur + ArrHdrLen(name, dims),
                                 vals |-> [k \in 1..FlatLen(dims) |-> Zero(t)]]),
               !.acur = @ + ArrHdrLen(name, dims) + ArrBytes(t, dims)]
SetElem(st, name, t, idx, v) == LET i == AIdx(st, name, t) IN [st EXCEPT !.ar[i].vals[FlatIdx(idx, st.ar[i].dims) + 1] = v]
\* Arrays.erase_
Erase(st, name, t) ==
    LET i == AIdx(st, name, t)
        a == st.ar[i]
        freed == ArrHdrLen(a.name, a.dims) + ArrBytes(a.t, a.dims)
        keep == [k \in 1..(Len(st.ar) - 1) |-> LET b == st.ar[IF k < i THEN k ELSE k + 1] IN
                    IF b.np > a.np THEN [b EXCEPT !.np = @ - freed, !.ap = @ - freed] ELSE b]
    IN [st EXCEPT !.ar = keep, !.acur = @ - freed]

ScalarVarptr(st, i) == st.sc[i].vp
ElemVarptr(st, i, k) == VarCur(st) + st.ar[i].ap + Size(st.ar[i].t) * (k - 1)          \* k: flat index + 1

\* Scalars.get_memory
PeekScalar(st, addr) ==
    LET S == {i \in 1..Len(st.sc) : st.sc[i].np <= addr} IN
    IF S = {} THEN 0 ELSE
    LET i == CHOOSE x \in S : \A j \in S : st.sc[j].np <= st.sc[x].np
        v == st.sc[i] IN
    IF addr >= v.vp THEN (IF addr - v.vp >= Size(v.t) THEN 0 ELSE v.val[addr - v.vp + 1])
    ELSE NameHdr(v.name, v.t)[addr - v.np + 1]
\* Arrays.get_memory
ArrData(a) ==        \* struct.pack('<HB', buffer_size + 1 + 2*len(dims), len(dims)) + '<H' per dimension
    LET n == ArrBytes(a.t, a.dims) + 1 + 2 * Len(a.dims) IN
    <<n % 256, n \div 256, Len(a.dims)>> \o
    [k \in 1..(2 * Len(a.dims)) |-> LET d == a.dims[(k + 1) \div 2] + 1 IN IF k % 2 = 1 THEN d % 256 ELSE d \div 256]
PeekArray(st, addr) ==
    LET vc == VarCur(st)
        S == IF AsCoded THEN (IF st.ar = <<>> THEN {} ELSE {1})            \* relative np <= absolute address: always; break
             ELSE {i \in 1..Len(st.ar) : vc + st.ar[i].np <= addr} IN
    IF S = {} THEN 0 ELSE
    LET i == CHOOSE x \in S : \A j \in S : st.ar[j].np <= st.ar[x].np
        a == st.ar[i] IN
    IF addr >= vc + a.ap
    THEN LET off == addr - a.ap - vc IN
         IF off >= ArrBytes(a.t, a.dims) THEN 0 ELSE a.vals[(off \div Size(a.t)) + 1][(off % Size(a.t)) + 1]
    ELSE LET off == addr - a.np - vc IN
         IF off < HdrLen(a.name) THEN NameHdr(a.name, a.t)[off + 1]
         ELSE LET d == ArrData(a) IN IF off - HdrLen(a.name) + 1 > Len(d) THEN 0 ELSE d[off - HdrLen(a.name) + 1]
\* DataSegment._get_var_memory (string space is not modelled here: C10)
Peek(st, addr) ==
    IF addr < VarCur(st) THEN PeekScalar(st, addr)
    ELSE IF addr < VarCur(st) + st.acur THEN PeekArray(st, addr)
    ELSE 0

\* the sweep the model predicts (string cells: the 3 pointer bytes are the stored value; characters are C10's)
ModelCell(n, t, vp, st, val) ==
    [n |-> n, t |-> t, vp |-> vp, vps |-> <<Size(t), vp % 256, vp \div 256>>,
     pk |-> [k \in 1..Size(t) |-> Peek(st, vp + k - 1)], val |-> val]
ModelCellOK(c, area) ==           \* CellVerdict for model cells (strings: pointer bytes compared like numbers)
    c.vps = <<Size(c.t), c.vp % 256, c.vp \div 256>> /\ area[1] <= c.vp /\ c.vp + Size(c.t) <= area[3] /\ c.pk = c.val
ModelSweep(st) ==
    [i \in 1..Len(st.sc) |-> ModelCell(<<"s", i>>, st.sc[i].t, ScalarVarptr(st, i), st, st.sc[i].val)]
    \o (LET RECURSIVE Elems(_)
            Elems(i) == IF i > Len(st.ar) THEN <<>>
                        ELSE [k \in 1..Len(st.ar[i].vals) |-> ModelCell(<<"a", i, k>>, st.ar[i].t, ElemVarptr(st, i, k), st, st.ar[i].vals[k])]
                             \o Elems(i + 1)
        IN Elems(1))
Area(st) == <<VarStart, VarCur(st), VarCur(st) + st.acur>>

\* design invariants of the model
Faithful(st) == LET sw == ModelSweep(st) IN
    /\ \A i \in 1..Len(sw) : ModelCellOK(sw[i], Area(st))
    /\ \A i, j \in 1..Len(sw) : i # j => ~Overlap(sw[i], sw[j])
ScalarsInScalarArea(st) == \A i \in 1..Len(st.sc) : VarStart <= st.sc[i].np /\ st.sc[i].vp + Size(st.sc[i].t) <= VarCur(st)
\* the records tile their areas exactly (no gap, no overlap), in sequence order
Tiles(st) ==
    /\ \A i \in 1..Len(st.sc) : st.sc[i].np = (IF i = 1 THEN VarStart ELSE st.sc[i - 1].vp + Size(st.sc[i - 1].t))
    /\ (Len(st.sc) > 0 => st.sc[Len(st.sc)].vp + Size(st.sc[Len(st.sc)].t) = VarCur(st))
    /\ \A i \in 1..Len(st.ar) : /\ st.ar[i].np = (IF i = 1 THEN 0 ELSE st.ar[i - 1].ap + ArrBytes(st.ar[i - 1].t, st.ar[i - 1].dims))
                                /\ st.ar[i].ap = st.ar[i].np + ArrHdrLen(st.ar[i].name, st.ar[i].dims)
    /\ (Len(st.ar) > 0 => st.ar[Len(st.ar)].ap + ArrBytes(st.ar[Len(st.ar)].t, st.ar[Len(st.ar)].dims) = st.acur)
    /\ (Len(st.ar) = 0 => st.acur = 0)
=============================================================================
