------------------------------ MODULE Interp_MC_for ------------------------------
EXTENDS Interp_MCF
VARIABLES s, hist
INSTANCE Interp_MCrun WITH Family <- ForFamily
=============================================================================
