------------------------------ MODULE Strings ------------------------------
(* GW-BASIC strings: sequences of bytes of length 0..255 (property C09).
   Reference definitions of LEFT$ RIGHT$ MID$ INSTR STRING$ SPACE$ LEN ASC CHR$,
   concatenation, comparison, and of the in-place statements MID$= LSET RSET,
   together with their error conditions.  An expression is a tree (leaves are
   strings and numbers, inner nodes are function calls); Eval gives for every
   tree the value or the set of error codes the property admits.
   Numbers are exact rationals <<num, den>> (den > 0): numeric arguments are
   rounded as CINT does (to nearest, halves away from zero).
   Strings_MC checks the laws relating the definitions (and a second,
   independently written definition of most operators) exhaustively on a
   reduced alphabet and length.                                             *)
EXTENDS Integers, Sequences, FiniteSets

MaxLen      == 255
ErrIFC      == 5       \* Illegal function call
ErrOverflow == 6       \* Overflow (CINT of an argument outside -32768..32767)
ErrTooLong  == 15      \* String too long
Blank       == 32

Min2(a, b) == IF a < b THEN a ELSE b
Max2(a, b) == IF a > b THEN a ELSE b
Abs(x) == IF x < 0 THEN -x ELSE x
Sgn(x) == IF x < 0 THEN -1 ELSE IF x = 0 THEN 0 ELSE 1
SetMin(S) == CHOOSE x \in S : \A y \in S : x <= y

\* CINT of the rational q = <<n, d>>, d > 0
Cint(q) == Sgn(q[1]) * ((2 * Abs(q[1]) + q[2]) \div (2 * q[2]))
InInt16(x) == x >= -32768 /\ x <= 32767

(* ---- reference definitions (arguments already integers in range) -------- *)
Left(s, n)   == SubSeq(s, 1, Min2(n, Len(s)))
Right(s, n)  == SubSeq(s, Len(s) - Min2(n, Len(s)) + 1, Len(s))
\* n characters from position p (1-based); fewer when the string ends; none when p > Len(s)
Mid(s, p, n) == SubSeq(s, p, Min2(Len(s), p + n - 1))

\* small occurs in big at position p
OccursAt(big, small, p) ==
    /\ p >= 1
    /\ p + Len(small) - 1 <= Len(big)
    /\ \A i \in 1..Len(small) : big[p + i - 1] = small[i]
\* GW-BASIC manual: 0 if start > LEN(big), if big is null, or if small is not found;
\* the null string is found at the start position; otherwise the first position >= start
Instr(start, big, small) ==
    IF Len(big) = 0 \/ start > Len(big) THEN 0
    ELSE LET P == {p \in start..Len(big) : OccursAt(big, small, p)}
         IN  IF P = {} THEN 0 ELSE SetMin(P)

StringS(n, c) == [i \in 1..n |-> c]
Space(n)      == StringS(n, Blank)
Concat(s, t)  == s \o t

\* byte-wise lexicographic order, a proper prefix sorts first
RECURSIVE LessFrom(_, _, _)
LessFrom(a, b, i) ==
    IF i > Len(b) THEN FALSE
    ELSE IF i > Len(a) THEN TRUE
    ELSE IF a[i] # b[i] THEN a[i] < b[i]
    ELSE LessFrom(a, b, i + 1)
StrLess(a, b) == LessFrom(a, b, 1)
StrEq(a, b)   == Len(a) = Len(b) /\ \A i \in 1..Len(a) : a[i] = b[i]

(* ---- in-place statements: the target keeps its length -------------------- *)
\* number of bytes MID$(t, p, n) = v replaces
MidCount(t, p, n, v) == Max2(0, Min2(Min2(n, Len(v)), Len(t) - p + 1))
MidSet(t, p, n, v) ==
    LET k == MidCount(t, p, n, v)
    IN  [i \in 1..Len(t) |-> IF i >= p /\ i < p + k THEN v[i - p + 1] ELSE t[i]]
\* source and target are the same string: GW-BASIC copies byte by byte from left to right
\* within the one buffer, so bytes already overwritten are copied again
RECURSIVE FwdCopy(_, _, _, _)
FwdCopy(buf, p, k, j) ==
    IF j >= k THEN buf ELSE FwdCopy([buf EXCEPT ![p + j] = buf[1 + j]], p, k, j + 1)
MidSetSelfForward(t, p, n) == FwdCopy(t, p, MidCount(t, p, n, t), 0)

LSet(t, v) == [i \in 1..Len(t) |-> IF i <= Len(v) THEN v[i] ELSE Blank]
RSet(t, v) ==
    LET k == Min2(Len(v), Len(t))
        pad == Len(t) - k
    IN  [i \in 1..Len(t) |-> IF i <= pad THEN Blank ELSE v[i - pad]]

(* ---- expression trees ----------------------------------------------------
   leaf  [t |-> "s", v |-> <<bytes>>]   [t |-> "n", v |-> <<num, den>>]
   node  [t |-> "f", op |-> name, a |-> <<subtrees>>]
   value [k |-> "s" | "n" | "e", v |-> bytes | <<num, den>> | set of admitted error codes,
          may |-> error codes admitted INSTEAD of the value (cases the property leaves open)] *)
SVal(v) == [k |-> "s", v |-> v, may |-> {}]
NVal(q) == [k |-> "n", v |-> q, may |-> {}]
IVal(n) == NVal(<<n, 1>>)
BVal(b) == IVal(IF b THEN -1 ELSE 0)

IsV(a, i, kind) == i <= Len(a) /\ a[i].k = kind
N(a, i) == Cint(a[i].v)
\* errors an integer argument admits: outside -32768..32767 the conversion itself fails (Overflow;
\* Illegal function call is admitted as well), inside that but outside lo..hi Illegal function call
NumErr(a, i, lo, hi) ==
    IF ~IsV(a, i, "n") THEN {}
    ELSE IF ~InInt16(N(a, i)) THEN {ErrIFC, ErrOverflow}
    ELSE IF N(a, i) < lo \/ N(a, i) > hi THEN {ErrIFC}
    ELSE {}
NumOK(a, i, lo, hi) == IsV(a, i, "n") /\ NumErr(a, i, lo, hi) = {}

ChildErrs(a) == UNION {a[i].v : i \in {j \in 1..Len(a) : a[j].k = "e"}}
ChildMay(a)  == UNION {a[i].may : i \in 1..Len(a)}
EmptyStr(a, i) == IsV(a, i, "s") /\ Len(a[i].v) = 0

OwnErrs(op, a) ==
    CASE op \in {"left", "right"} -> NumErr(a, 2, 0, 255)
      [] op = "mid"    -> NumErr(a, 2, 1, 255) \cup NumErr(a, 3, 0, 255)
      [] op = "instr"  -> IF Len(a) = 3 THEN NumErr(a, 1, 1, 255) ELSE {}
      [] op = "string" -> NumErr(a, 1, 0, 255) \cup NumErr(a, 2, 0, 255)
                          \* STRING$(n, x$) repeats the first character of x$: none exists in ""
                          \cup (IF EmptyStr(a, 2) /\ NumOK(a, 1, 1, 255) THEN {ErrIFC} ELSE {})
      [] op \in {"space", "chr"} -> NumErr(a, 1, 0, 255)
      [] op = "asc"    -> IF EmptyStr(a, 1) THEN {ErrIFC} ELSE {}
      [] op = "cat"    -> IF IsV(a, 1, "s") /\ IsV(a, 2, "s") /\ Len(a[1].v) + Len(a[2].v) > MaxLen
                          THEN {ErrTooLong} ELSE {}
      [] OTHER -> {}
\* zero copies of the first character of "": the statement does not say; "" and the error are admitted
OwnMay(op, a) == IF op = "string" /\ EmptyStr(a, 2) THEN {ErrIFC} ELSE {}

\* all arguments are values and in range
Value(op, a) ==
    CASE op = "left"   -> SVal(Left(a[1].v, N(a, 2)))
      [] op = "right"  -> SVal(Right(a[1].v, N(a, 2)))
      [] op = "mid"    -> SVal(Mid(a[1].v, N(a, 2), IF Len(a) = 3 THEN N(a, 3) ELSE MaxLen))
      [] op = "instr"  -> IF Len(a) = 3 THEN IVal(Instr(N(a, 1), a[2].v, a[3].v))
                          ELSE IVal(Instr(1, a[1].v, a[2].v))
      [] op = "string" -> IF a[2].k = "n" THEN SVal(StringS(N(a, 1), N(a, 2)))
                          ELSE IF Len(a[2].v) = 0 THEN SVal(<<>>)
                          ELSE SVal(StringS(N(a, 1), a[2].v[1]))
      [] op = "space"  -> SVal(Space(N(a, 1)))
      [] op = "chr"    -> SVal(<<N(a, 1)>>)
      [] op = "len"    -> IVal(Len(a[1].v))
      [] op = "asc"    -> IVal(a[1].v[1])
      [] op = "cat"    -> SVal(Concat(a[1].v, a[2].v))
      [] op = "eq"     -> BVal(StrEq(a[1].v, a[2].v))
      [] op = "ne"     -> BVal(~StrEq(a[1].v, a[2].v))
      [] op = "lt"     -> BVal(StrLess(a[1].v, a[2].v))
      [] op = "gt"     -> BVal(StrLess(a[2].v, a[1].v))
      [] op = "le"     -> BVal(~StrLess(a[2].v, a[1].v))
      [] op = "ge"     -> BVal(~StrLess(a[1].v, a[2].v))

Ops == {"left", "right", "mid", "instr", "string", "space", "chr", "len", "asc", "cat",
        "eq", "ne", "lt", "gt", "le", "ge"}

Apply(op, a) ==
    LET errs == ChildErrs(a) \cup OwnErrs(op, a)
        may  == ChildMay(a) \cup OwnMay(op, a)
    IN  IF errs # {} THEN [k |-> "e", v |-> errs \cup may, may |-> {}]
        ELSE LET r == Value(op, a) IN [k |-> r.k, v |-> r.v, may |-> may]

RECURSIVE Eval(_)
Eval(x) ==
    IF x.t = "s" THEN SVal(x.v)
    ELSE IF x.t = "n" THEN NVal(x.v)
    ELSE Apply(x.op, [i \in 1..Len(x.a) |-> Eval(x.a[i])])

(* ---- statements -----------------------------------------------------------
   MID$(t, start[, num]) = v ; LSET t = v ; RSET t = v.  `args` are evaluated trees
   <<start, num>> or <<start>>, `v` the evaluated source.  Result: the set of admitted
   error codes (must fail when `must` is non-empty), and the admitted new target values. *)
MidNum(args) == IF Len(args) = 2 THEN N(args, 2) ELSE MaxLen
MidStmt(t, args, v, self) ==
    LET numerr == NumErr(args, 2, 0, 255)
        ovf    == NumErr(args, 1, -32768, 32767)
        argsok == IsV(args, 1, "n") /\ (Len(args) = 1 \/ IsV(args, 2, "n")) /\ numerr = {} /\ ovf = {}
        inpos  == argsok /\ N(args, 1) >= 1 /\ N(args, 1) <= Len(t)
        \* the start position must lie in the target whenever a byte could be replaced (num > 0);
        \* for num = 0 the statement does not say: admitted both ways
        poserr == IF argsok /\ ~inpos /\ MidNum(args) > 0 THEN {ErrIFC} ELSE {}
        posmay == IF argsok /\ ~inpos /\ MidNum(args) = 0 THEN {ErrIFC} ELSE {}
        must   == ChildErrs(args) \cup ChildErrs(<<v>>) \cup numerr \cup ovf \cup poserr
        may    == ChildMay(args) \cup v.may \cup posmay
    IN  [must |-> must, may |-> may,
         vals |-> IF must # {} THEN {}
                  ELSE IF ~inpos THEN {t}
                  ELSE {MidSet(t, N(args, 1), MidNum(args), v.v)}
                       \cup (IF self THEN {MidSetSelfForward(t, N(args, 1), MidNum(args))} ELSE {})]
JustStmt(op, t, v) ==
    [must |-> ChildErrs(<<v>>), may |-> v.may,
     vals |-> IF v.k = "e" THEN {} ELSE {IF op = "lset" THEN LSet(t, v.v) ELSE RSet(t, v.v)}]
=============================================================================
