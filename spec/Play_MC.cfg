SPECIFICATION Spec
VIEW View
INVARIANT TypeOK
INVARIANT TonesInv
INVARIANT TableInv
INVARIANT NoteNumber
PROPERTY OctaveStep
