----------------------------- MODULE StateFile -----------------------------
(* C40, second clause: a saved state file is accepted only if it is byte-identical to what was written.
   Events: {a: "alter", kind, pos, same, accepted}  (same = the altered file equals the original)
           {a: "final", ref: <observation of the uninterrupted run>, got: <observation of a suspended+resumed run>}
   The first clause (suspend/resume is a stuttering step of the observable machine) is checked on statement-level
   traces by Interp_Trace ("sr" events) and, for programs outside the Interp fragment, by the equality demanded here. *)
EXTENDS TraceBase
VARIABLES l, viol
V(e) == CASE e.a = "alter" -> IF e.accepted /\ ~e.same THEN "altered_state_file_accepted"
                              ELSE IF ~e.accepted /\ e.same THEN "unaltered_state_file_rejected" ELSE "ok"
          [] e.a = "final" -> IF e.ref = e.got THEN "ok"
                              ELSE IF e.ref.out # e.got.out THEN "output_differs_after_resume"
                              ELSE IF e.ref.vars # e.got.vars THEN "variables_differ_after_resume"
                              ELSE IF e.ref.files # e.got.files THEN "file_contents_differ_after_resume"
                              ELSE "screen_differs_after_resume"
          [] OTHER -> "unknown_event"
INSTANCE OracleTrace WITH Verdict <- V
=============================================================================
