------------------------------ MODULE Interp_MCF ------------------------------
(* Bounded design checks of the abstract machine Interp.tla.  The program is
   part of the state (chosen in Init from a family built here), TLC explores
   every program of the family and every execution, and the property of each
   family is stated DECLARATIVELY (independently of the machine's transition
   rules) and compared with the output history when the program has ended:

   C19  FOR:   the body runs once per value a, a+c, a+2c, ... while the counter
               has not passed b in the direction of c (zero times if a is past b)
        nested FOR with NEXT J,I: lexicographic product of the two sequences
        ON n GOTO/GOSUB: n-th target, fall through for 0 and n > count
        GOSUB/RETURN: resumes after the calling statement at every nesting depth
   C21  error trapping: ERR/ERL in the handler, RESUME / RESUME NEXT / RESUME n
   C22  READ returns the DATA items in program order; RESTORE [n]; Out of DATA
   C38  event traps under EVERY interleaving of occurrences (see TrapFamily)   *)
EXTENDS Integers, Sequences, FiniteSets, TLC, SequencesExt


C(v) == [k |-> "c", v |-> v]
V(n) == [k |-> "v", n |-> n]
B(o, a, b) == [k |-> "b", o |-> o, a |-> a, b |-> b]
Ln(n, s) == [n |-> n, s |-> s]
Prt(e) == [op |-> "PRINT", e |-> e, col |-> TRUE]
EndS == [op |-> "END", col |-> TRUE]
P(lines, tag) == [lines |-> lines, vars |-> <<"I", "J", "A", "K%">>, ints |-> <<"K%", "FNK%">>,
                  tag |-> [kind |-> tag.kind, expect |-> tag.expect, endk |-> "end", code |-> 0, line |-> 0]]
\* programs that are expected to stop with an error (code, line)
PE(lines, tag) == [lines |-> lines, vars |-> <<"I", "J", "A", "K%">>, ints |-> <<"K%", "FNK%">>, tag |-> tag]
Let(v, e) == [op |-> "LET", v |-> v, e |-> e, col |-> TRUE]
Op(o) == [op |-> o, col |-> TRUE]

Rng == -2..3
Steps3 == {-2, -1, 1, 2, 3}

\* declarative FOR sequence
ForLen(a, b, c) == IF c > 0 THEN (IF a > b THEN 0 ELSE (b - a) \div c + 1) ELSE (IF a < b THEN 0 ELSE (a - b) \div (-c) + 1)
ForSeq(a, b, c) == [i \in 1..ForLen(a, b, c) |-> a + (i - 1) * c]

ForProg(v, a, b, c) ==
    P(<<Ln(10, <<[op |-> "FOR", v |-> v, a |-> C(a), b |-> C(b), c |-> C(c), col |-> TRUE]>>),
        Ln(20, <<Prt(V(v))>>),
        Ln(30, <<[op |-> "NEXT", vs |-> <<>>, col |-> TRUE]>>),
        Ln(40, <<Prt(C(99)), EndS>>)>>,
      [kind |-> "for", expect |-> ForSeq(a, b, c) \o <<99>>])
\* the limit of a FOR is evaluated once: assigning to the variable it was read from inside the loop does not change the number
\* of passes (the round-1 seeded change of C19 kept a live view on that variable).  n: the limit; m: assigned to A in pass 2
ForVarProg(v, n, m) ==
    P(<<Ln(10, <<Let("A", C(n)), Let("J", C(0))>>),
        Ln(20, <<[op |-> "FOR", v |-> v, a |-> C(1), b |-> V("A"), c |-> C(1), col |-> TRUE]>>),
        Ln(30, <<Let("J", B("+", V("J"), C(1))),
                 [op |-> "IF", e |-> B("=", V(v), C(2)), tn |-> 0, en |-> 0, ei |-> 0, col |-> TRUE], Let("A", C(m))>>),
        Ln(40, <<[op |-> "NEXT", vs |-> <<>>, col |-> TRUE]>>),
        Ln(50, <<Prt(V("J")), Prt(V(v)), Prt(V("A")), EndS>>)>>,
      [kind |-> "forvar", expect |-> <<n, n + 1, IF n >= 2 THEN m ELSE n>>])
ForFamily == {ForProg(v, a, b, c) : v \in {"I", "K%"}, a \in Rng, b \in Rng, c \in Steps3}
             \cup {ForVarProg(v, n, m) : v \in {"I", "K%"}, n \in 1..4, m \in {0, 6}}

\* nested loops closed by one NEXT J,I (both non-empty so the comma form is inside the fragment)
RECURSIVE Flat(_)
Flat(ss) == IF ss = <<>> THEN <<>> ELSE Head(ss) \o Flat(Tail(ss))
For2Prog(a, b, c, d) ==
    P(<<Ln(10, <<[op |-> "FOR", v |-> "I", a |-> C(a), b |-> C(b), c |-> C(1), col |-> TRUE]>>),
        Ln(20, <<[op |-> "FOR", v |-> "J", a |-> C(c), b |-> C(d), c |-> C(1), col |-> TRUE],
                 Prt(B("+", B("*", V("I"), C(10)), V("J")))>>),
        Ln(30, <<[op |-> "NEXT", vs |-> <<"J", "I">>, col |-> TRUE]>>),
        Ln(40, <<EndS>>)>>,
      [kind |-> "for2",
       expect |-> Flat([i \in 1..ForLen(a, b, 1) |-> [j \in 1..ForLen(c, d, 1) |-> (a + i - 1) * 10 + (c + j - 1)]])])
For2Family == {For2Prog(a, b, cd[1], cd[2]) : a \in 0..2, b \in 0..2, cd \in {x \in (0..2) \X (0..2) : x[1] <= x[2]}}

\* ON n GOTO / GOSUB with three targets
OnProg(t, n) ==
    P(<<Ln(10, <<[op |-> "LET", v |-> "A", e |-> C(n), col |-> TRUE]>>),
        Ln(20, <<[op |-> "ON", e |-> V("A"), t |-> t, ns |-> <<100, 200, 300>>, col |-> TRUE], Prt(C(0))>>),
        Ln(30, <<Prt(C(7)), EndS>>),
        Ln(100, <<Prt(C(1)), IF t = "GOTO" THEN EndS ELSE [op |-> "RETURN", n |-> 0, col |-> TRUE]>>),
        Ln(200, <<Prt(C(2)), IF t = "GOTO" THEN EndS ELSE [op |-> "RETURN", n |-> 0, col |-> TRUE]>>),
        Ln(300, <<Prt(C(3)), IF t = "GOTO" THEN EndS ELSE [op |-> "RETURN", n |-> 0, col |-> TRUE]>>)>>,
      [kind |-> "on",
       expect |-> IF n \in 1..3 THEN (IF t = "GOTO" THEN <<n>> ELSE <<n, 0, 7>>) ELSE <<0, 7>>])
OnFamily == {OnProg(t, n) : t \in {"GOTO", "GOSUB"}, n \in 0..5}

\* GOSUB chains of depth d: each level prints k before and -k after calling the next level, in the middle of a line
RECURSIVE Bracket(_, _)
Bracket(k, d) == IF k > d THEN <<>> ELSE <<k>> \o Bracket(k + 1, d) \o <<-k>>
GosubProg(d) ==
    P(<<Ln(10, <<[op |-> "GOSUB", n |-> 100, col |-> TRUE], Prt(C(50))>>), Ln(20, <<EndS>>)>> \o
      [k \in 1..d |-> Ln(100 * k, <<Prt(C(k))>> \o
                                   (IF k < d THEN <<[op |-> "GOSUB", n |-> 100 * (k + 1), col |-> TRUE]>> ELSE <<>>) \o
                                   <<Prt(C(-k)), [op |-> "RETURN", n |-> 0, col |-> TRUE]>>)],
      [kind |-> "gosub", expect |-> Bracket(1, d) \o <<50>>])
\* a GOSUB / ON n GOSUB whose target line does not exist fails (Undefined line number, trapped, RESUME NEXT) and enters no
\* subroutine: a stray RETURN afterwards is RETURN without GOSUB (top level), and inside a real subroutine the RETURN
\* goes back to the caller, so the body runs once (round-2 seeded change C19b pushed the return record before the jump)
FailCall(t) == IF t = "GOSUB" THEN [op |-> "GOSUB", n |-> 999, col |-> TRUE]
               ELSE [op |-> "ON", e |-> C(1), t |-> "GOSUB", ns |-> <<999, 100>>, col |-> TRUE]
GosubFailProg(t, inner) ==
    LET handler == Ln(500, <<Prt([k |-> "err"]), Prt([k |-> "erl"]), [op |-> "RESUME", w |-> "NEXT", n |-> 0, col |-> TRUE]>>)
        onerr   == Ln(10, <<[op |-> "ONERR", n |-> 500, col |-> TRUE]>>)
    IN IF inner
       THEN P(<<onerr,
                Ln(20, <<[op |-> "GOSUB", n |-> 100, col |-> TRUE], Prt(C(50))>>),
                Ln(30, <<EndS>>),
                Ln(100, <<Prt(C(1)), FailCall(t), Prt(C(2))>>),
                Ln(110, <<[op |-> "RETURN", n |-> 0, col |-> TRUE]>>),
                handler>>,
              [kind |-> "gosubfail", expect |-> <<1, 8, 100, 2, 50>>])
       ELSE P(<<onerr,
                Ln(20, <<Prt(C(1)), FailCall(t), Prt(C(2))>>),
                Ln(30, <<[op |-> "RETURN", n |-> 0, col |-> TRUE]>>),
                Ln(40, <<Prt(C(9)), EndS>>),
                Ln(100, <<Prt(C(77)), EndS>>),
                handler>>,
              [kind |-> "gosubfail", expect |-> <<1, 8, 20, 2, 3, 30, 9>>])
GosubFamily == {GosubProg(d) : d \in 1..4} \cup {GosubFailProg(t, inner) : t \in {"GOSUB", "ON"}, inner \in BOOLEAN}
\* WHILE / WEND: nested loops, and an inner loop that is left by a jump (its record must be dropped when the outer WEND is
\* reached: round-3 seeded change C19c searched the stack without dropping it, so the terminating pass resumed after the inner WEND)
While(e) == [op |-> "WHILE", e |-> e, col |-> TRUE]
Wend == [op |-> "WEND", col |-> TRUE]
\* outer loop n passes; the inner loop would run m passes but jumps out (to the line after its WEND) when its counter reaches j
WhileProg(n, m, j) ==
    LET inner(a) == IF j >= 1 /\ j <= m THEN j ELSE m       \* value of I when the inner loop is left
    IN P(<<Ln(10, <<Let("A", C(0))>>),
           Ln(20, <<While(B("<", V("A"), C(n)))>>),
           Ln(30, <<Let("A", B("+", V("A"), C(1))), Let("I", C(0))>>),
           Ln(40, <<While(B("<", V("I"), C(m))), Let("I", B("+", V("I"), C(1))),
                    [op |-> "IF", e |-> B("=", V("I"), C(j)), tn |-> 70, en |-> 0, ei |-> 0, col |-> TRUE]>>),
           Ln(60, <<Wend>>),
           Ln(70, <<Prt(B("+", B("*", V("A"), C(10)), V("I")))>>),
           Ln(80, <<Wend>>),
           Ln(90, <<Prt(C(99)), EndS>>)>>,
         [kind |-> "while", expect |-> [a \in 1..n |-> a * 10 + inner(a)] \o <<99>>])
WhileFamily == {WhileProg(n, m, j) : n \in 0..3, m \in 0..3, j \in 0..4}
\* IFs nested on one line: every ELSE belongs to the nearest IF before it that has none yet (round-4 seeded change C19d matched
\* each ELSE one level too early).  a, b, c: the three conditions; form: how many ELSEs / ELSE <line>.
If(e) == [op |-> "IF", e |-> e, tn |-> 0, en |-> 0, ei |-> 0, col |-> TRUE]
Else(n) == [op |-> "ELSE", n |-> n, col |-> TRUE]
NestedIfProg(form, a, b, c) ==
    LET setup == Ln(10, <<Let("A", C(a)), Let("I", C(b)), Let("J", C(c))>>)
        tail  == <<Ln(30, <<Prt(C(9)), EndS>>), Ln(100, <<Prt(C(5)), EndS>>), Ln(200, <<Prt(C(6)), EndS>>)>>
    IN  CASE form = "two" ->       \* IF A THEN IF I THEN 1 ELSE 2 ELSE 3
               P(<<setup, Ln(20, <<If(V("A")), If(V("I")), Prt(C(1)), Else(0), Prt(C(2)), Else(0), Prt(C(3))>>)>> \o tail,
                 [kind |-> "nestedif", expect |-> <<IF a = 0 THEN 3 ELSE IF b = 0 THEN 2 ELSE 1, 9>>])
          [] form = "dangling" ->  \* IF A THEN IF I THEN 1 ELSE 2          (the ELSE belongs to the inner IF)
               P(<<setup, Ln(20, <<If(V("A")), If(V("I")), Prt(C(1)), Else(0), Prt(C(2))>>)>> \o tail,
                 [kind |-> "nestedif", expect |-> (IF a = 0 THEN <<>> ELSE IF b = 0 THEN <<2>> ELSE <<1>>) \o <<9>>])
          [] form = "three" ->     \* IF A THEN IF I THEN IF J THEN 1 ELSE 2 ELSE 3 ELSE 4
               P(<<setup, Ln(20, <<If(V("A")), If(V("I")), If(V("J")), Prt(C(1)), Else(0), Prt(C(2)), Else(0), Prt(C(3)), Else(0), Prt(C(4))>>)>> \o tail,
                 [kind |-> "nestedif", expect |-> <<IF a = 0 THEN 4 ELSE IF b = 0 THEN 3 ELSE IF c = 0 THEN 2 ELSE 1, 9>>])
          [] form = "jump" ->      \* IF A THEN IF I THEN 1 ELSE 100 ELSE 200
               P(<<setup, Ln(20, <<If(V("A")), If(V("I")), Prt(C(1)), Else(100), Else(200)>>)>> \o tail,
                 [kind |-> "nestedif", expect |-> IF a = 0 THEN <<6>> ELSE IF b = 0 THEN <<5>> ELSE <<1, 9>>])
NestedIfFamily == {NestedIfProg(form, a, b, c) : form \in {"two", "dangling", "three", "jump"}, a \in {0, 1}, b \in {0, 1}, c \in {0, 1}}
(* ---------------- C22: READ / DATA / RESTORE ---------------- *)
\* four items spread over three DATA statements (one in the middle of a multi-statement line); the program reads r
\* values, RESTOREs (variant rv) after the j-th, and prints every value read
DItems == <<11, 12, 13, 14>>
DataSt(vs) == [op |-> "DATA", items |-> [i \in 1..Len(vs) |-> [num |-> TRUE, v |-> vs[i]]], col |-> TRUE]
ReadPrint == <<[op |-> "READ", vs |-> <<"A">>, col |-> TRUE], Prt(V("A"))>>
RestoreSt(rv) == [op |-> "RESTORE", n |-> (CASE rv = "all" -> 0 [] rv = "l30" -> 30 [] rv = "l40" -> 40 [] rv = "l60" -> 60), col |-> TRUE]
\* index of the item the next READ returns after RESTORE variant rv (declaratively: first DATA at or after the line)
RestartAt(rv) == CASE rv = "all" -> 1 [] rv = "l30" -> 2 [] rv = "l40" -> 4 [] rv = "l60" -> 5
RECURSIVE ReadLines(_, _, _, _)
ReadLines(n, k, j, rv) ==        \* lines 100+: k reads; after the j-th a RESTORE
    IF k = 0 THEN <<>>
    ELSE <<Ln(n, ReadPrint)>> \o (IF j = 1 THEN <<Ln(n + 1, <<RestoreSt(rv)>>)>> ELSE <<>>) \o ReadLines(n + 2, k - 1, j - 1, rv)
\* the sequence of item indices read: 1..j then RestartAt, RestartAt+1, ...
ReadIdx(i, j, rv) == IF j = 0 \/ i <= j THEN i ELSE RestartAt(rv) + (i - j - 1)
DataProg(r, j, rv) ==
    LET idx  == [i \in 1..r |-> ReadIdx(i, j, rv)]
        good == {i \in 1..r : \A k \in 1..i : idx[k] <= 4}
        ng   == Cardinality(good)
    IN PE(<<Ln(10, <<DataSt(<<11>>)>>),
            Ln(30, <<Prt(C(0)), DataSt(<<12, 13>>), Prt(C(1))>>),
            Ln(40, <<Prt(C(2))>>),
            Ln(50, <<DataSt(<<14>>)>>),
            Ln(60, <<Prt(C(3))>>)>> \o ReadLines(100, r, j, rv) \o <<Ln(900, <<Prt(C(99)), EndS>>)>>,
          [kind |-> "data",
           expect |-> <<0, 1, 2, 3>> \o [i \in 1..ng |-> DItems[idx[i]]] \o (IF ng = r THEN <<99>> ELSE <<>>),
           endk |-> IF ng = r THEN "end" ELSE "error", code |-> IF ng = r THEN 0 ELSE 4,
           line |-> IF ng = r THEN 0 ELSE 100 + 2 * ng])
DataFamily == {DataProg(r, j, rv) : r \in 0..6, j \in 0..3, rv \in {"all", "l30", "l40", "l60"}}
\* a non-numeric item read into a numeric variable: Syntax error reported on the DATA line
BadDataProg(pos) ==
    PE(<<Ln(10, <<DataSt(<<11>>)>>),
         Ln(20, <<[op |-> "DATA", items |-> IF pos = 1 THEN <<[num |-> FALSE, v |-> 0], [num |-> TRUE, v |-> 5]>>
                                            ELSE <<[num |-> TRUE, v |-> 5], [num |-> FALSE, v |-> 0]>>, col |-> TRUE]>>),
         Ln(30, <<[op |-> "READ", vs |-> <<"I", "J", "A">>, col |-> TRUE], Prt(C(1))>>),
         Ln(40, <<EndS>>)>>,
       [kind |-> "baddata", expect |-> <<>>, endk |-> "error", code |-> 2, line |-> 20])
BadDataFamily == {BadDataProg(pos) : pos \in 1..2}
\* a READ of several variables that fails part-way (trapped, RESUME NEXT): the items already delivered to its earlier variables are
\* consumed, the item that failed is not; the later READs continue from there (round-2 seeded change C22b wrote the DATA
\* pointer back only when the whole READ statement had succeeded)
ReadSt(vs) == [op |-> "READ", vs |-> vs, col |-> TRUE]
PartReadProg(why) ==
    \* (the handler also prints ERL: an error raised while READ assigns names the READ line, not the DATA line - round-4 seeded
    \*  change C21d left the code pointer on the DATA item)
    LET handler == Ln(500, <<Prt([k |-> "err"]), Prt([k |-> "erl"]), [op |-> "RESUME", w |-> "NEXT", n |-> 0, col |-> TRUE]>>)
        onerr   == Ln(5, <<[op |-> "ONERR", n |-> 500, col |-> TRUE]>>)
    IN  IF why = "ood"        \* three items read in pairs: the second READ runs out of DATA after delivering 13
        THEN P(<<onerr, Ln(10, <<DataSt(<<11, 12, 13>>)>>),
                 Ln(20, <<ReadSt(<<"I", "J">>), Prt(V("I")), Prt(V("J"))>>),
                 Ln(30, <<ReadSt(<<"A", "K%">>), Prt(C(0))>>),
                 Ln(40, <<Prt(V("A"))>>),
                 Ln(50, <<ReadSt(<<"J">>), Prt(C(0))>>),
                 Ln(60, <<Prt(V("J")), EndS>>), handler>>,
               [kind |-> "partread", expect |-> <<11, 12, 4, 30, 0, 13, 4, 50, 0, 12>>])
        ELSE                 \* the second item does not fit the integer variable: Overflow; it stays unread and goes to A next
             P(<<onerr, Ln(10, <<DataSt(<<1, 40000, 3>>)>>),
                 Ln(20, <<ReadSt(<<"I", "K%">>), Prt(C(0))>>),
                 Ln(30, <<Prt(V("I")), Prt(V("K%"))>>),
                 Ln(40, <<ReadSt(<<"A">>), Prt(V("A"))>>),
                 Ln(50, <<ReadSt(<<"J">>), Prt(V("J")), EndS>>), handler>>,
               [kind |-> "partread", expect |-> <<6, 20, 0, 1, 0, 40000, 3>>])
PartReadFamily == {PartReadProg(why) : why \in {"ood", "ovf"}}
\* READ into string variables: any item is taken as written; a name without type sign is the string variable while DEFSTR is in
\* force for it and the numeric one otherwise, decided when the READ executes (round-3 seeded change C22c looked at the written
\* sign only).  Item NonNum(n) is the non-numeric text that carries the number n.
PS(lines, tag) == [lines |-> lines, vars |-> <<"I", "J", "A", "K%", "S!", "S$", "T$">>, ints |-> <<"K%", "FNK%">>,
                   strs |-> <<"S$", "T$">>, bare |-> <<[n |-> "S", i |-> "S%", f |-> "S!", s |-> "S$"]>>, tag |-> tag]
NonNum(n) == [num |-> FALSE, v |-> n]
Num(n) == [num |-> TRUE, v |-> n]
DataItems(its) == [op |-> "DATA", items |-> its, col |-> TRUE]
DefStr(t, ns) == [op |-> "DEFTYPE", t |-> t, ns |-> ns, col |-> TRUE]
StrReadProg(how) ==
    IF how = "defstr"
    THEN PS(<<Ln(10, <<DataItems(<<Num(5), NonNum(7), Num(9)>>)>>),
              Ln(20, <<DefStr("$", <<"S">>)>>),
              Ln(30, <<ReadSt(<<"S", "T$">>), Prt(V("S")), Prt(V("T$"))>>),
              Ln(40, <<DefStr("!", <<"S">>)>>),
              Ln(50, <<ReadSt(<<"S">>), Prt(V("S")), Prt(V("S$")), EndS>>)>>,
            [kind |-> "strread", expect |-> <<5, 7, 9, 5>>, endk |-> "end", code |-> 0, line |-> 0])
    ELSE IF how = "copy"
    THEN PS(<<Ln(10, <<DataItems(<<NonNum(3), Num(4)>>)>>),
              Ln(20, <<ReadSt(<<"S$", "T$">>), Let("T$", V("S$")), Prt(V("T$")), Prt(V("S$"))>>),
              Ln(30, <<ReadSt(<<"S$">>), Prt(C(1))>>)>>,
            [kind |-> "strread", expect |-> <<3, 3>>, endk |-> "error", code |-> 4, line |-> 30])
    ELSE \* "mixed": under DEFSTR the bare name takes the non-numeric item; after DEFSNG the same READ is a Syntax error on the DATA line
         PS(<<Ln(10, <<DataItems(<<NonNum(8)>>)>>),
              Ln(20, <<DefStr("$", <<"S">>), ReadSt(<<"S">>), Prt(V("S"))>>),
              Ln(30, <<[op |-> "RESTORE", n |-> 0, col |-> TRUE], DefStr("!", <<"S">>), ReadSt(<<"S">>), Prt(C(1))>>)>>,
            [kind |-> "strread", expect |-> <<8>>, endk |-> "error", code |-> 2, line |-> 10])
StrReadFamily == {StrReadProg(how) : how \in {"defstr", "copy", "mixed"}}

(* ---------------- C21: error trapping and RESUME ---------------- *)
Fault(f) == CASE f = "e5"   -> [op |-> "ERROR", e |-> C(5), col |-> TRUE]
              [] f = "e200" -> [op |-> "ERROR", e |-> C(200), col |-> TRUE]
              [] f = "ovf"  -> Let("K%", B("+", C(32767), V("A")))        \* A = 1 first, repaired to -1 by the handler
              [] f = "ul"   -> [op |-> "GOTO", n |-> 999, col |-> TRUE]
              [] f = "rwg"  -> [op |-> "RETURN", n |-> 0, col |-> TRUE]
              [] f = "nwf"  -> [op |-> "NEXT", vs |-> <<>>, col |-> TRUE]
              [] f = "ood"  -> [op |-> "READ", vs |-> <<"J">>, col |-> TRUE]
              [] f = "dz"   -> Let("J", B("\\", C(7), V("I")))               \* I = 0: Division by zero raised inside an expression
Faults == {"e5", "e200", "ovf", "ul", "rwg", "nwf", "ood", "dz"}
Code(f) == CASE f = "e5" -> 5 [] f = "e200" -> 200 [] f = "ovf" -> 6 [] f = "ul" -> 8 [] f = "rwg" -> 3 [] f = "nwf" -> 1 [] f = "ood" -> 4 [] f = "dz" -> 11
PrtErr == <<Prt([k |-> "err"]), Prt([k |-> "erl"])>>
ErrProg(f, h) ==
    LET body == <<Ln(15, <<Let("A", C(1))>>),
                  Ln(20, <<Prt(C(1)), Fault(f), Prt(C(2))>>),
                  Ln(30, <<Prt(C(3))>>),
                  Ln(40, <<EndS>>)>>
        c == Code(f)
    IN CASE h = "none" ->      \* no handler: stops with the message naming line 20
              PE(body, [kind |-> "err", expect |-> <<1>>, endk |-> "error", code |-> c, line |-> 20])
         [] h = "next" ->
              PE(<<Ln(10, <<[op |-> "ONERR", n |-> 100, col |-> TRUE]>>)>> \o body \o
                 <<Ln(100, PrtErr \o <<[op |-> "RESUME", w |-> "NEXT", n |-> 0, col |-> TRUE]>>)>>,
                 [kind |-> "err", expect |-> <<1, c, 20, 2, 3>>, endk |-> "end", code |-> 0, line |-> 0])
         [] h = "rearm" ->     \* the trap is switched off and on again before the fault: it traps as if it had been set once
              PE(<<Ln(10, <<[op |-> "ONERR", n |-> 100, col |-> TRUE], [op |-> "ONERR", n |-> 0, col |-> TRUE],
                            [op |-> "ONERR", n |-> 100, col |-> TRUE]>>)>> \o body \o
                 <<Ln(100, PrtErr \o <<[op |-> "RESUME", w |-> "NEXT", n |-> 0, col |-> TRUE]>>)>>,
                 [kind |-> "err", expect |-> <<1, c, 20, 2, 3>>, endk |-> "end", code |-> 0, line |-> 0])
         [] h = "line" ->
              PE(<<Ln(10, <<[op |-> "ONERR", n |-> 100, col |-> TRUE]>>)>> \o body \o
                 <<Ln(100, PrtErr \o <<[op |-> "RESUME", w |-> "LINE", n |-> 30, col |-> TRUE]>>)>>,
                 [kind |-> "err", expect |-> <<1, c, 20, 3>>, endk |-> "end", code |-> 0, line |-> 0])
         [] h = "retry" ->     \* RESUME re-executes the failing statement: it fails again and again unless repaired
              PE(<<Ln(10, <<[op |-> "ONERR", n |-> 100, col |-> TRUE]>>)>> \o body \o
                 <<Ln(100, PrtErr \o <<Let("A", C(-1)), Let("I", B("+", V("I"), C(1)))>>),
                   Ln(110, <<[op |-> "IF", e |-> B(">", V("I"), C(2)), tn |-> 0, en |-> 0, ei |-> 0, col |-> TRUE],
                             [op |-> "RESUME", w |-> "NEXT", n |-> 0, col |-> FALSE]>>),
                   Ln(120, <<[op |-> "RESUME", w |-> "0", n |-> 0, col |-> TRUE]>>)>>,
                 [kind |-> "err",
                  expect |-> IF f = "ovf" THEN <<1, 6, 20, 2, 3>> ELSE <<1, c, 20, c, 20, c, 20, 2, 3>>,
                  endk |-> "end", code |-> 0, line |-> 0])
         [] h = "inh" ->       \* an error inside the handler stops the program with that error
              PE(<<Ln(10, <<[op |-> "ONERR", n |-> 100, col |-> TRUE]>>)>> \o body \o
                 <<Ln(100, PrtErr \o <<[op |-> "ERROR", e |-> C(77), col |-> TRUE]>>)>>,
                 [kind |-> "err", expect |-> <<1, c, 20>>, endk |-> "error", code |-> 77, line |-> 100])
         [] h = "off" ->       \* ON ERROR GOTO 0 inside the handler: stops with the original error and line
              PE(<<Ln(10, <<[op |-> "ONERR", n |-> 100, col |-> TRUE]>>)>> \o body \o
                 <<Ln(100, PrtErr \o <<[op |-> "ONERR", n |-> 0, col |-> TRUE]>>)>>,
                 [kind |-> "err", expect |-> <<1, c, 20>>, endk |-> "error", code |-> c, line |-> 20])
         [] h = "fall" ->      \* falling off the end inside the handler: No RESUME
              PE(<<Ln(10, <<[op |-> "ONERR", n |-> 100, col |-> TRUE]>>)>> \o body \o
                 <<Ln(100, PrtErr)>>,
                 [kind |-> "err", expect |-> <<1, c, 20>>, endk |-> "error", code |-> 19, line |-> -1])
\* (an expression fault without a handler is soft-handled by the interpreter: outside the fragment; with "retry" the
\*  handler's counter I would repair the division)
ErrFamily == ({ErrProg(f, h) : f \in Faults, h \in {"none", "next", "rearm", "line", "retry", "inh", "off", "fall"}}
               \ {ErrProg("dz", h) : h \in {"none", "retry"}})
              \cup {PE(<<Ln(10, <<Prt(C(1)), [op |-> "RESUME", w |-> "0", n |-> 0, col |-> TRUE]>>)>>,
                       [kind |-> "err", expect |-> <<1>>, endk |-> "error", code |-> 20, line |-> 10])}
(* ---------------- C38: event traps (explored under every interleaving of occurrences) ---------------- *)
TrapCmd(k, c) == [op |-> "TRAP", k |-> k, c |-> c, col |-> TRUE]
OnTrap(k, n) == [op |-> "ONTRAP", k |-> k, n |-> n, col |-> TRUE]
Ret == [op |-> "RETURN", n |-> 0, col |-> TRUE]
\* c1, c2: commands for trap 1 in the main program; h: what handler 1 does; two: a second trap is armed;
\* er: the main program raises an error that is trapped (handler 200 RESUMEs NEXT)
TrapProg(c1, c2, h, two, er) ==
    PE(<<Ln(5,  IF er THEN <<[op |-> "ONERR", n |-> 200, col |-> TRUE]>> ELSE <<Prt(C(0))>>),
         Ln(10, <<OnTrap(1, 100)>> \o (IF two THEN <<OnTrap(2, 150), TrapCmd(2, "ON")>> ELSE <<>>)),
         Ln(20, <<TrapCmd(1, c1)>>),
         Ln(30, <<Prt(C(1))>>),
         \* c2 = "RESTOP": KEY(1) STOP, then the trap is removed (ON KEY(1) GOSUB 0) and set again: the event stays stopped
         Ln(40, (IF c2 = "RESTOP" THEN <<TrapCmd(1, "STOP"), OnTrap(1, 0), OnTrap(1, 100)>> ELSE <<TrapCmd(1, c2)>>)
                \o (IF er THEN <<[op |-> "ERROR", e |-> C(5), col |-> TRUE]>> ELSE <<>>)),
         Ln(50, <<Prt(C(2))>>),
         Ln(60, <<EndS>>),
         \* h = "REGOSUB": the handler removes and re-installs its own trap line (it must still not be re-entered before RETURN)
         Ln(100, <<Prt(C(9))>> \o (IF h = "none" THEN <<>> ELSE IF h = "REGOSUB" THEN <<OnTrap(1, 0), OnTrap(1, 100)>> ELSE <<TrapCmd(1, h)>>)
                 \o <<Prt(C(8)), Ret>>),
         Ln(150, <<Prt(C(7)), Ret>>),
         Ln(200, <<Prt(C(6)), Prt(C(5)), [op |-> "RESUME", w |-> "NEXT", n |-> 0, col |-> TRUE]>>)>>,
       [kind |-> "trap", expect |-> <<>>, endk |-> "end", code |-> 0, line |-> 0])
TrapFamily == {TrapProg(c1, c2, h, two, er) : c1 \in {"ON", "OFF", "STOP"}, c2 \in {"ON", "OFF", "STOP"},
                                              h \in {"none", "ON", "OFF", "STOP"}, two \in BOOLEAN, er \in BOOLEAN}
              \cup {TrapProg(c1, "RESTOP", h, FALSE, FALSE) : c1 \in {"ON", "STOP"}, h \in {"none", "OFF", "REGOSUB"}}
              \cup {TrapProg("ON", c2, "REGOSUB", two, FALSE) : c2 \in {"ON", "STOP"}, two \in BOOLEAN}
(* ---------------- C20: DEF FN leaves the caller's variables alone ---------------- *)
DefFn(f, ps, e) == [op |-> "DEFFN", f |-> f, ps |-> ps, e |-> e, col |-> TRUE]
Call(f, args) == [k |-> "fn", f |-> f, args |-> args]
\* variant v, argument x: the definitions, the call, and the declared outcome <<"val", n>> or <<"err", code>>
FnDefs(v) == CASE v = 1 -> <<DefFn("FNA", <<"A">>, V("A"))>>
               [] v = 2 -> <<DefFn("FNA", <<"A">>, B("+", B("*", V("A"), C(2)), V("K%")))>>
               [] v = 3 -> <<DefFn("FNA", <<"A", "K%">>, B("+", V("A"), V("K%")))>>
               [] v = 4 -> <<DefFn("FNK%", <<"A">>, B("+", V("A"), C(32767)))>>
               [] v = 5 -> <<DefFn("FNR", <<"A">>, B("+", Call("FNR", <<V("A")>>), C(1)))>>
               [] v = 6 -> <<>>
               [] v = 7 -> <<DefFn("FNB", <<"A">>, B("+", V("A"), C(1))), DefFn("FNA", <<"A">>, B("*", Call("FNB", <<B("*", V("A"), C(2))>>), C(10)))>>
               [] v = 8 -> <<DefFn("FNA", <<"A">>, V("A"))>>
               [] v = 9 -> <<DefFn("FNA", <<"A", "A">>, B("*", V("A"), C(3)))>>           \* the same variable twice in the parameter list
FnCall(v, x) == CASE v \in {1, 2, 7} -> Call("FNA", <<C(x)>>)
                  [] v \in {3, 9} -> Call("FNA", <<C(1), C(x)>>)
                  [] v = 4 -> Call("FNK%", <<C(x)>>)
                  [] v = 5 -> Call("FNR", <<C(x)>>)
                  [] v = 6 -> Call("FNZ", <<C(x)>>)
                  [] v = 8 -> Call("FNA", <<B("+", V("A"), C(x))>>)      \* the argument mentions the caller's A (= 5)
FnOutcome(v, x) == CASE v = 1 -> <<"val", x>>
                     [] v = 2 -> <<"val", 2 * x + 7>>
                     [] v = 3 -> IF x > 32767 \/ x < -32768 THEN <<"err", 6>> ELSE <<"val", 1 + x>>
                     [] v = 4 -> IF x + 32767 > 32767 THEN <<"err", 6>> ELSE <<"val", x + 32767>>
                     [] v = 5 -> <<"err", 7>>
                     [] v = 6 -> <<"err", 18>>
                     [] v = 7 -> <<"val", (2 * x + 1) * 10>>
                     [] v = 8 -> <<"val", 5 + x>>
                     [] v = 9 -> <<"val", 3 * x>>                                         \* the later argument is bound last
FnProg(v, x) ==
    LET o == FnOutcome(v, x) IN
    PE(<<Ln(5, <<[op |-> "ONERR", n |-> 100, col |-> TRUE]>>),
         Ln(10, <<Let("A", C(5)), Let("K%", C(7))>>),
         Ln(20, IF FnDefs(v) = <<>> THEN <<Prt(C(0))>> ELSE FnDefs(v)),
         Ln(30, <<Prt(FnCall(v, x))>>),
         Ln(40, <<Prt(V("A")), Prt(V("K%")), EndS>>),
         Ln(100, <<Prt([k |-> "err"]), Prt(V("A")), Prt(V("K%")), [op |-> "RESUME", w |-> "NEXT", n |-> 0, col |-> TRUE]>>)>>,
       [kind |-> "fn",
        \* in every case - value or error - the caller's A and K% still hold 5 and 7
        expect |-> (IF FnDefs(v) = <<>> THEN <<0>> ELSE <<>>) \o
                   (IF o[1] = "val" THEN <<o[2], 5, 7>> ELSE <<o[2], 5, 7, 5, 7>>),
        endk |-> "end", code |-> 0, line |-> 0])
\* DEFINT / DEFSNG between the definition and the call: the parameter X denotes the variable the name X has when the function
\* is CALLED.  Whatever happens - value or conversion error - X! and X% hold afterwards what they held before, also when the
\* variable the parameter now denotes was never assigned (round-2 seeded change C20b did not restore a freshly allocated one).
PD(lines, tag) == [lines |-> lines, vars |-> <<"I", "J", "A", "K%", "X!", "X%">>, ints |-> <<"K%", "FNK%", "X%">>,
                   bare |-> <<[n |-> "X", i |-> "X%", f |-> "X!"]>>, tag |-> tag]
DefType(t, ns) == [op |-> "DEFTYPE", t |-> t, ns |-> ns, col |-> TRUE]
\* how: "int" = DEF FN, DEFINT X, call;  "sng" = DEFINT X, DEF FN, DEFSNG X, call;  pre: the variable the parameter denotes at the
\* call was assigned 7 before (else it does not exist yet)
FnDtProg(how, pre, x) ==
    LET p   == IF pre THEN 7 ELSE 0
        def == DefFn("FNA", <<"X">>, B("*", V("X"), C(2)))
        xs  == IF how = "int" THEN 11 ELSE (IF pre THEN 7 ELSE 0)       \* X! before the call
        xi  == IF how = "int" THEN p ELSE 13                             \* X% before the call
        bad == how = "int" /\ (x > 32767 \/ x < -32768)
    IN PD(<<Ln(5, <<[op |-> "ONERR", n |-> 100, col |-> TRUE]>>)>> \o
          (IF how = "int"
           THEN <<Ln(10, <<Let("X!", C(11))>>), Ln(20, <<def>>),
                  Ln(25, <<DefType("%", <<"X">>)>> \o (IF pre THEN <<Let("X", C(7))>> ELSE <<>>))>>
           ELSE <<Ln(10, <<DefType("%", <<"X">>), Let("X", C(13))>>), Ln(20, <<def>>),
                  Ln(25, <<DefType("!", <<"X">>)>> \o (IF pre THEN <<Let("X", C(7))>> ELSE <<>>))>>) \o
          <<Ln(30, <<Prt(Call("FNA", <<C(x)>>))>>),
            Ln(40, <<Prt(V("X!")), Prt(V("X%")), EndS>>),
            Ln(100, <<Prt([k |-> "err"]), Prt(V("X!")), Prt(V("X%")), [op |-> "RESUME", w |-> "NEXT", n |-> 0, col |-> TRUE]>>)>>,
          [kind |-> "fndt",
           expect |-> IF bad THEN <<6, xs, xi, xs, xi>> ELSE <<2 * x, xs, xi>>,
           endk |-> "end", code |-> 0, line |-> 0])
FnDtFamily == {FnDtProg(how, pre, x) : how \in {"int", "sng"}, pre \in BOOLEAN, x \in {0, 3, -3, 40000}}
FnFamily == {FnProg(v, x) : v \in 1..9, x \in {0, 1, -3, 40000}}
(* ---------------- C23: nothing survives CLEAR / RUN ---------------- *)
ClearOrRun(r) == IF r = "clear" THEN <<Op("CLEAR")>> ELSE <<[op |-> "RUN", n |-> 300, col |-> TRUE]>>
\* what: which piece of state is established before the reset and probed after it.  With RUN the probe lives at line 300.
ResetProg(what, r) ==
    LET probe == CASE what = "gosub" -> <<Op("RETURN") @@ [n |-> 0]>>
                   [] what = "for"   -> <<[op |-> "NEXT", vs |-> <<>>, col |-> TRUE]>>
                   [] what = "while" -> <<Op("WEND")>>
                   [] what = "onerr" -> <<[op |-> "ERROR", e |-> C(5), col |-> TRUE]>>
                   [] what = "data"  -> <<[op |-> "READ", vs |-> <<"J">>, col |-> TRUE], Prt(V("J"))>>
                   [] what = "fn"    -> <<Prt(Call("FNA", <<C(1)>>))>>
                   [] what = "vars"  -> <<Prt(V("A")), Prt(V("K%"))>>
        setup == CASE what = "gosub" -> <<Ln(20, <<[op |-> "GOSUB", n |-> 100, col |-> TRUE]>>), Ln(30, <<EndS>>)>>
                   [] what = "for"   -> <<Ln(20, <<[op |-> "FOR", v |-> "I", a |-> C(1), b |-> C(3), c |-> C(1), col |-> TRUE]>>), Ln(30, <<[op |-> "GOTO", n |-> 100, col |-> TRUE]>>), Ln(40, <<[op |-> "NEXT", vs |-> <<>>, col |-> TRUE]>>)>>
                   [] what = "while" -> <<Ln(20, <<[op |-> "WHILE", e |-> C(1), col |-> TRUE]>>), Ln(30, <<[op |-> "GOTO", n |-> 100, col |-> TRUE]>>), Ln(40, <<Op("WEND")>>)>>
                   [] what = "onerr" -> <<Ln(20, <<[op |-> "ONERR", n |-> 400, col |-> TRUE]>>), Ln(30, <<[op |-> "GOTO", n |-> 100, col |-> TRUE]>>)>>
                   [] what = "data"  -> <<Ln(20, <<DataSt(<<11, 12>>), [op |-> "READ", vs |-> <<"J">>, col |-> TRUE]>>), Ln(30, <<[op |-> "GOTO", n |-> 100, col |-> TRUE]>>)>>
                   [] what = "fn"    -> <<Ln(20, <<DefFn("FNA", <<"A">>, V("A"))>>), Ln(30, <<[op |-> "GOTO", n |-> 100, col |-> TRUE]>>)>>
                   [] what = "vars"  -> <<Ln(20, <<Let("A", C(5)), Let("K%", C(3))>>), Ln(30, <<[op |-> "GOTO", n |-> 100, col |-> TRUE]>>)>>
        pl == IF r = "clear" THEN 110 ELSE 300
        o == CASE what = "gosub" -> <<"error", 3, <<1>>>> [] what = "for" -> <<"error", 1, <<1>>>> [] what = "while" -> <<"error", 30, <<1>>>>
               [] what = "onerr" -> <<"error", 5, <<1>>>> [] what = "data" -> <<"end", 0, <<1, 11>>>> [] what = "fn" -> <<"error", 18, <<1>>>>
               [] what = "vars" -> <<"end", 0, <<1, 0, 0>>>>
    IN PE(<<Ln(10, <<Prt(C(1))>>)>> \o setup \o
          <<Ln(100, ClearOrRun(r)), Ln(110, IF r = "clear" THEN probe ELSE <<EndS>>), Ln(120, <<EndS>>),
            Ln(300, IF r = "clear" THEN <<EndS>> ELSE probe), Ln(310, <<EndS>>),
            Ln(400, <<Prt(C(44)), EndS>>)>>,
          [kind |-> "reset", expect |-> o[3], endk |-> o[1], code |-> o[2], line |-> IF o[1] = "error" THEN pl ELSE 0])
ResetFamily == {ResetProg(w, r) : w \in {"gosub", "for", "while", "onerr", "data", "fn", "vars"}, r \in {"clear", "run"}}
=============================================================================
