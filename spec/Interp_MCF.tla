------------------------------ MODULE Interp_MCF ------------------------------
(* Bounded design checks of the abstract machine Interp.tla.  The program is
   part of the state (chosen in Init from a family built here), TLC explores
   every program of the family and every execution, and the property of each
   family is stated DECLARATIVELY (independently of the machine's transition
   rules) and compared with the output history when the program has ended:

   C19  FOR:   the body runs once per value a, a+c, a+2c, ... while the counter
               has not passed b in the direction of c (zero times if a is past b)
        nested FOR with NEXT J,I: lexicographic product of the two sequences
        ON n GOTO/GOSUB: n-th target, fall through for 0 and n > count
        GOSUB/RETURN: resumes after the calling statement at every nesting depth
   C21  error trapping: ERR/ERL in the handler, RESUME / RESUME NEXT / RESUME n
   C22  READ returns the DATA items in program order; RESTORE [n]; Out of DATA
   C38  event traps under EVERY interleaving of occurrences (see TrapFamily)   *)
EXTENDS Integers, Sequences, FiniteSets, TLC, SequencesExt


C(v) == [k |-> "c", v |-> v]
V(n) == [k |-> "v", n |-> n]
B(o, a, b) == [k |-> "b", o |-> o, a |-> a, b |-> b]
Ln(n, s) == [n |-> n, s |-> s]
Prt(e) == [op |-> "PRINT", e |-> e, col |-> TRUE]
EndS == [op |-> "END", col |-> TRUE]
P(lines, tag) == [lines |-> lines, vars |-> <<"I", "J", "A", "K%">>, ints |-> <<"K%">>, tag |-> tag]

Rng == -2..3
Steps3 == {-2, -1, 1, 2, 3}

\* declarative FOR sequence
ForLen(a, b, c) == IF c > 0 THEN (IF a > b THEN 0 ELSE (b - a) \div c + 1) ELSE (IF a < b THEN 0 ELSE (a - b) \div (-c) + 1)
ForSeq(a, b, c) == [i \in 1..ForLen(a, b, c) |-> a + (i - 1) * c]

ForProg(v, a, b, c) ==
    P(<<Ln(10, <<[op |-> "FOR", v |-> v, a |-> C(a), b |-> C(b), c |-> C(c), col |-> TRUE]>>),
        Ln(20, <<Prt(V(v))>>),
        Ln(30, <<[op |-> "NEXT", vs |-> <<>>, col |-> TRUE]>>),
        Ln(40, <<Prt(C(99)), EndS>>)>>,
      [kind |-> "for", expect |-> ForSeq(a, b, c) \o <<99>>])
ForFamily == {ForProg(v, a, b, c) : v \in {"I", "K%"}, a \in Rng, b \in Rng, c \in Steps3}

\* nested loops closed by one NEXT J,I (both non-empty so the comma form is inside the fragment)
RECURSIVE Flat(_)
Flat(ss) == IF ss = <<>> THEN <<>> ELSE Head(ss) \o Flat(Tail(ss))
For2Prog(a, b, c, d) ==
    P(<<Ln(10, <<[op |-> "FOR", v |-> "I", a |-> C(a), b |-> C(b), c |-> C(1), col |-> TRUE]>>),
        Ln(20, <<[op |-> "FOR", v |-> "J", a |-> C(c), b |-> C(d), c |-> C(1), col |-> TRUE],
                 Prt(B("+", B("*", V("I"), C(10)), V("J")))>>),
        Ln(30, <<[op |-> "NEXT", vs |-> <<"J", "I">>, col |-> TRUE]>>),
        Ln(40, <<EndS>>)>>,
      [kind |-> "for2",
       expect |-> Flat([i \in 1..ForLen(a, b, 1) |-> [j \in 1..ForLen(c, d, 1) |-> (a + i - 1) * 10 + (c + j - 1)]])])
For2Family == {For2Prog(a, b, cd[1], cd[2]) : a \in 0..2, b \in 0..2, cd \in {x \in (0..2) \X (0..2) : x[1] <= x[2]}}

\* ON n GOTO / GOSUB with three targets
OnProg(t, n) ==
    P(<<Ln(10, <<[op |-> "LET", v |-> "A", e |-> C(n), col |-> TRUE]>>),
        Ln(20, <<[op |-> "ON", e |-> V("A"), t |-> t, ns |-> <<100, 200, 300>>, col |-> TRUE], Prt(C(0))>>),
        Ln(30, <<Prt(C(7)), EndS>>),
        Ln(100, <<Prt(C(1)), IF t = "GOTO" THEN EndS ELSE [op |-> "RETURN", n |-> 0, col |-> TRUE]>>),
        Ln(200, <<Prt(C(2)), IF t = "GOTO" THEN EndS ELSE [op |-> "RETURN", n |-> 0, col |-> TRUE]>>),
        Ln(300, <<Prt(C(3)), IF t = "GOTO" THEN EndS ELSE [op |-> "RETURN", n |-> 0, col |-> TRUE]>>)>>,
      [kind |-> "on",
       expect |-> IF n \in 1..3 THEN (IF t = "GOTO" THEN <<n>> ELSE <<n, 0, 7>>) ELSE <<0, 7>>])
OnFamily == {OnProg(t, n) : t \in {"GOTO", "GOSUB"}, n \in 0..5}

\* GOSUB chains of depth d: each level prints k before and -k after calling the next level, in the middle of a line
RECURSIVE Bracket(_, _)
Bracket(k, d) == IF k > d THEN <<>> ELSE <<k>> \o Bracket(k + 1, d) \o <<-k>>
GosubProg(d) ==
    P(<<Ln(10, <<[op |-> "GOSUB", n |-> 100, col |-> TRUE], Prt(C(50))>>), Ln(20, <<EndS>>)>> \o
      [k \in 1..d |-> Ln(100 * k, <<Prt(C(k))>> \o
                                   (IF k < d THEN <<[op |-> "GOSUB", n |-> 100 * (k + 1), col |-> TRUE]>> ELSE <<>>) \o
                                   <<Prt(C(-k)), [op |-> "RETURN", n |-> 0, col |-> TRUE]>>)],
      [kind |-> "gosub", expect |-> Bracket(1, d) \o <<50>>])
GosubFamily == {GosubProg(d) : d \in 1..4}
=============================================================================
