------------------------------- MODULE Renum -------------------------------
(* RENUM (property C14) on top of the program store.

   A program is the reference layer of ProgramStore: ref, line number -> text,
   a text being a sequence of literal pieces each optionally followed by a
   line-number reference (GOTO, GOSUB, THEN, ELSE, ON .. GOTO/GOSUB lists,
   RESTORE, RUN, RESUME, RETURN, ERL comparisons, ...).  `ON ERROR GOTO 0`,
   `RESUME 0` carry NO reference: the 0 does not denote a line.

   State: [ref, onerr, evt, expect]
     onerr   line of the active error trap (0 = none)
     evt     [Keys -> line of the active ON KEY(k) GOSUB trap, 0 = none]
     expect  what the next RUN has to print if the program's behaviour is to be
             unchanged: [set |-> BOOLEAN, tr |-> sequence of trace items]
             item = [s |-> text printed, n |-> NoRef] or [s |-> "", n |-> a printed line number]

   RENUM new, old, inc
     * is refused with Illegal function call exactly when inc < 1, or there are lines
       from `old` on and giving them new, new+inc, ... would not keep the program a
       program (a new number <= a line that keeps its number, or > 65529);
       nothing changes then;
     * otherwise the lines >= old get new, new+inc, ... in their order, every
       reference to an existing line is rewritten with RenumMap, references to
       missing lines are kept and reported once per occurrence in program order,
       the traps follow their lines.
   (When no line is >= old but new <= a kept line the statement decides nothing:
   "any".)                                                                    *)
EXTENDS ProgramStore

CONSTANTS Keys,       \* keys with an ON KEY(k) GOSUB trap in the model, e.g. {1, 2}
          AsCoded     \* TRUE: trap lines are looked up in the old->new map as interpreter.renum_ did before the
                      \* repair (a trap line below `old` is not in the map: KeyError). Selftest: TLC must find it.

InitR == [ref |-> EmptyRef, onerr |-> 0, evt |-> [k \in Keys |-> 0], expect |-> [set |-> FALSE, tr |-> <<>>]]

(* ------------------------------ RENUM ----------------------------------- *)
RenumMust(ref, a) ==
    LET new == RNew(a)  old == ROld(a)  inc == RInc(a)
        mv == Moved(ref, old)  kp == Kept(ref, old)
    IN  IF inc < 1 THEN "ifc"
        ELSE IF mv # {} THEN (IF RenumLegal(ref, new, old, inc) THEN "ok" ELSE "ifc")
        ELSE IF kp # {} /\ new <= MaxOf(kp) THEN "any"
        ELSE "ok"

\* reports "Undefined line t in k": one per reference occurrence to a line that is not in the program,
\* lines ascending, occurrences left to right
RECURSIVE LineReports(_, _, _)
LineReports(ref, k, i) ==
    IF i > Len(ref[k]) THEN <<>>
    ELSE (IF ref[k][i].n # NoRef /\ ref[k][i].n \notin DOMAIN ref THEN <<<<ref[k][i].n, k>>>> ELSE <<>>)
         \o LineReports(ref, k, i + 1)
RECURSIVE ReportsFrom(_, _, _)
ReportsFrom(ref, s, j) == IF j > Len(s) THEN <<>> ELSE LineReports(ref, s[j], 1) \o ReportsFrom(ref, s, j + 1)
Reports(ref) == ReportsFrom(ref, SortSet(DOMAIN ref), 1)
\* the statement does not say whether the holder is named by its old or its new number
ReportsMatch(exp, obs, fm) ==
    /\ Len(exp) = Len(obs)
    /\ \A i \in DOMAIN exp : obs[i][1] = exp[i][1] /\ obs[i][2] \in {exp[i][2], fm[exp[i][2]]}

\* 0 = no trap (a handler cannot live on line 0: ON ERROR GOTO 0 / ON KEY() GOSUB 0 switch the trap off)
Follow(h, m) == IF h # 0 /\ h \in DOMAIN m THEN m[h] ELSE h
MapItem(it, m) == IF it.n \in DOMAIN m THEN [it EXCEPT !.n = m[it.n]] ELSE it
MapTrace(tr, m) == [i \in DOMAIN tr |-> MapItem(tr[i], m)]

RenumEffect(st, a) ==
    LET m == RenumMap(st.ref, RNew(a), ROld(a), RInc(a))
    IN  [ref    |-> RenumRef(st.ref, RNew(a), ROld(a), RInc(a)),
         onerr  |-> Follow(st.onerr, m),
         evt    |-> [k \in Keys |-> Follow(st.evt[k], m)],
         \* behaviour is promised to be the same only when no reference dangles
         expect |-> IF st.expect.set /\ Reports(st.ref) = <<>> THEN [set |-> TRUE, tr |-> MapTrace(st.expect.tr, m)]
                    ELSE [set |-> FALSE, tr |-> <<>>]]

\* interpreter.renum_ before the repair: old_to_new[trap line]
Crashes(st, a) ==
    LET m == RenumMap(st.ref, RNew(a), ROld(a), RInc(a))
    IN  /\ AsCoded
        /\ RenumMust(st.ref, a) = "ok"
        /\ \/ st.onerr # 0 /\ st.onerr \notin DOMAIN m
           \/ \E k \in Keys : st.evt[k] # 0 /\ st.evt[k] \notin DOMAIN m

(* ------------- what "same behaviour" means on the model: the control-flow graph ------------- *)
Undef == -2
EndOfProgram == -3
NextLine(ref, k) == LET up == {j \in DOMAIN ref : j > k} IN IF up = {} THEN EndOfProgram ELSE MinOf(up)
Resolve(ref, t) == IF t = NoRef THEN NoRef ELSE IF t \in DOMAIN ref THEN t ELSE Undef
Slots(ref, k) == [i \in DOMAIN ref[k] |-> Resolve(ref, ref[k][i].n)]
\* fm is an isomorphism of the control-flow graphs: fall-through and every reference slot lead to the same LINE
Iso(ref, ref2, fm) ==
    LET f(x) == IF x \in DOMAIN fm THEN fm[x] ELSE x
    IN  \A k \in DOMAIN ref :
           /\ fm[k] \in DOMAIN ref2
           /\ NextLine(ref2, fm[k]) = f(NextLine(ref, k))
           /\ Len(ref2[fm[k]]) = Len(ref[k])
           /\ \A i \in DOMAIN ref[k] : ref2[fm[k]][i].s = ref[k][i].s /\ Slots(ref2, fm[k])[i] = f(Slots(ref, k)[i])
Monotone(fm) == \A j, k \in DOMAIN fm : j < k => fm[j] < fm[k]
\* a kept reference to a missing line may come to denote a line after the renumbering (inherent in "kept")
NoCapture(ref, ref2) ==
    \A k \in DOMAIN ref : \A i \in DOMAIN ref[k] :
        (ref[k][i].n # NoRef /\ ref[k][i].n \notin DOMAIN ref) => ref[k][i].n \notin DOMAIN ref2

(* --------------------------- other statements ---------------------------- *)
\* [op |-> "load", lines]  fresh program (traps off);  [op |-> "onerror", n];  [op |-> "onkey", k, n];
\* [op |-> "renum", new, old, inc];  [op |-> "probe_err"];  [op |-> "probe_key", k];  [op |-> "run"]
EffectR(st, a) ==
    CASE a.op = "load"    -> [InitR EXCEPT !.ref = Fold(EmptyRef, a.lines)]
      [] a.op = "onerror" -> [st EXCEPT !.onerr = a.n]
      [] a.op = "onkey"   -> [st EXCEPT !.evt[a.k] = a.n]
      [] a.op = "renum"   -> RenumEffect(st, a)
      [] OTHER -> st
=============================================================================
