------------------------------ MODULE ClockEnv ------------------------------
(* TIME$, DATE$ and ENVIRON (property C44).

   Strings are sequences of byte values.  TimeClass / DateClass classify an
   assigned string by GRAMMAR:
     "valid"   hh[:mm[:ss]] (1-2 digits each, 0-23 / 0-59 / 0-59);
               mm-dd-yy or mm-dd-yyyy with "-" or "/" (1-2 digit month and day,
               a real calendar day, yy 80..99 -> 19yy, 00..77 -> 20yy, yyyy 1980..2099)
               => the assignment must succeed and the function must return the value;
     "invalid" any byte that is neither a digit nor a separator (sign, blank,
               underscore, letter ...), an empty or missing or extra component,
               a component out of range => Illegal function call (5), nothing changes;
     "open"    forms on which the GW-BASIC manual is silent (components of more than
               two digits, years of 1/3/5+ digits, "." as time separator, mixed date
               separators) => any BASIC outcome.

   The clock is modelled as an OFFSET from a time base nobody can read exactly:
   the state holds an interval [lo, hi] of <<day, millisecond-of-day>> pairs that
   contained the BASIC clock at some instant between the harness-monotonic
   instants aLo and aHi.  A later reading taken between instants x0 and x1 must
   lie in the interval advanced by the elapsed time - never an exact instant.

   The environment is a map from upper-cased names to values.                 *)
EXTENDS Integers, Sequences, FiniteSets, TLC

Dg(c) == c >= 48 /\ c <= 57
Colon == 58
Dot   == 46
Dash  == 45
Slash == 47
Eq    == 61
BytesOf(s) == {s[i] : i \in 1..Len(s)}

RECURSIVE SplitAt(_, _)
\* split s at every byte in S (like bytes.split for one-byte separators): a sequence of components
SplitAt(s, S) ==
    IF s = <<>> THEN << <<>> >>
    ELSE LET r == SplitAt(Tail(s), S)
         IN  IF Head(s) \in S THEN << <<>> >> \o r
             ELSE << <<Head(s)>> \o r[1] >> \o Tail(r)

RECURSIVE NumOf(_)
NumOf(c) == IF c = <<>> THEN 0 ELSE NumOf(SubSeq(c, 1, Len(c) - 1)) * 10 + (c[Len(c)] - 48)

(* ------------------------------- TIME$ ---------------------------------- *)
TimeComps(s) == SplitAt(s, {Colon})
TimeClass(s) ==
    LET comps == TimeComps(s)
        n     == Len(comps)
    IN  IF \E i \in 1..Len(s) : ~Dg(s[i]) /\ s[i] # Colon /\ s[i] # Dot THEN "invalid"
        ELSE IF Dot \in BytesOf(s) THEN "open"
        ELSE IF n > 3 \/ \E i \in 1..n : comps[i] = <<>> THEN "invalid"
        ELSE IF \E i \in 1..n : Len(comps[i]) > 2 THEN "open"
        ELSE LET v == [i \in 1..3 |-> IF i <= n THEN NumOf(comps[i]) ELSE 0]
             IN  IF v[1] <= 23 /\ v[2] <= 59 /\ v[3] <= 59 THEN "valid" ELSE "invalid"
\* seconds since midnight of a valid time string
TimeVal(s) ==
    LET comps == TimeComps(s)
        v == [i \in 1..3 |-> IF i <= Len(comps) THEN NumOf(comps[i]) ELSE 0]
    IN  v[1] * 3600 + v[2] * 60 + v[3]
\* TIME$ returns HH:MM:SS ; -1 if the result does not have that form
TimeOut(r) ==
    IF Len(r) = 8 /\ r[3] = Colon /\ r[6] = Colon /\ (\A i \in {1, 2, 4, 5, 7, 8} : Dg(r[i]))
       /\ NumOf(SubSeq(r, 1, 2)) <= 23 /\ NumOf(SubSeq(r, 4, 5)) <= 59 /\ NumOf(SubSeq(r, 7, 8)) <= 59
    THEN NumOf(SubSeq(r, 1, 2)) * 3600 + NumOf(SubSeq(r, 4, 5)) * 60 + NumOf(SubSeq(r, 7, 8))
    ELSE -1

(* ------------------------------- DATE$ ---------------------------------- *)
Leap(y) == y % 4 = 0 /\ (y % 100 # 0 \/ y % 400 = 0)
DaysIn(m, y) == IF m = 2 THEN (IF Leap(y) THEN 29 ELSE 28) ELSE IF m \in {4, 6, 9, 11} THEN 30 ELSE 31
RECURSIVE DaysBeforeMonth(_, _)
DaysBeforeMonth(m, y) == IF m = 1 THEN 0 ELSE DaysBeforeMonth(m - 1, y) + DaysIn(m - 1, y)
\* leap days in 1980..y-1 (valid for 1980 <= y <= 2100)
LeapsBefore(y) == (y - 1977) \div 4
\* day number, 1980-01-01 = 0
DayNum(y, m, d) == (y - 1980) * 365 + LeapsBefore(y) + DaysBeforeMonth(m, y) + d - 1

DateComps(s) == SplitAt(s, {Dash, Slash})
FullYear(c) ==       \* 0 = not an accepted year
    LET v == NumOf(c)
    IN  IF Len(c) = 2 THEN (IF v >= 80 THEN 1900 + v ELSE IF v <= 77 THEN 2000 + v ELSE 0)
        ELSE IF v >= 1980 /\ v <= 2099 THEN v ELSE 0
DateClass(s) ==
    LET comps == DateComps(s)
    IN  IF \E i \in 1..Len(s) : ~Dg(s[i]) /\ s[i] # Dash /\ s[i] # Slash THEN "invalid"
        ELSE IF Dash \in BytesOf(s) /\ Slash \in BytesOf(s) THEN "open"
        ELSE IF Len(comps) # 3 \/ \E i \in 1..Len(comps) : comps[i] = <<>> THEN "invalid"
        ELSE IF Len(comps[1]) > 2 \/ Len(comps[2]) > 2 \/ Len(comps[3]) \notin {2, 4} THEN "open"
        ELSE IF Len(comps[3]) = 4 /\ NumOf(comps[3]) < 1000 THEN "open"
        ELSE LET m == NumOf(comps[1])
                 d == NumOf(comps[2])
                 y == FullYear(comps[3])
             IN  IF y # 0 /\ m >= 1 /\ m <= 12 /\ d >= 1 /\ d <= DaysIn(m, y) THEN "valid" ELSE "invalid"
DateVal(s) == LET comps == DateComps(s)
              IN  DayNum(FullYear(comps[3]), NumOf(comps[1]), NumOf(comps[2]))
\* DATE$ returns MM-DD-YYYY ; -1 if the result does not have that form
DateOut(r) ==
    IF Len(r) = 10 /\ r[3] = Dash /\ r[6] = Dash /\ (\A i \in {1, 2, 4, 5, 7, 8, 9, 10} : Dg(r[i]))
    THEN LET m == NumOf(SubSeq(r, 1, 2))
             d == NumOf(SubSeq(r, 4, 5))
             y == NumOf(SubSeq(r, 7, 10))
         IN  IF y >= 1980 /\ y <= 2100 /\ m >= 1 /\ m <= 12 /\ d >= 1 /\ d <= DaysIn(m, y) THEN DayNum(y, m, d) ELSE -1
    ELSE -1

(* ------------------------------ the clock ------------------------------- *)
DayMs == 86400000
Norm(p) == <<p[1] + p[2] \div DayMs, p[2] % DayMs>>
Leq(p, q) == p[1] < q[1] \/ (p[1] = q[1] /\ p[2] <= q[2])
MaxP(p, q) == IF Leq(p, q) THEN q ELSE p
MinP(p, q) == IF Leq(p, q) THEN p ELSE q
Max0(x) == IF x < 0 THEN 0 ELSE x
\* the harness clock (monotonic) and the host wall clock may drift apart: 0.1 % of the elapsed time + 3 ms
Drift(el) == 3 + Max0(el) \div 1000

\* known: 0 nothing, 1 time of day (day numbers relative), 2 time of day and date
NoClock == [known |-> 0, lo |-> <<0, 0>>, hi |-> <<0, 0>>, aLo |-> 0, aHi |-> 0]
\* interval that contains every clock value between the instants x0 <= x1 (both after the anchor)
Pred(c, x0, x1) ==
    [lo |-> Norm(<<c.lo[1], c.lo[2] + Max0((x0 - c.aHi) - Drift(x0 - c.aHi))>>),
     hi |-> Norm(<<c.hi[1], c.hi[2] + Max0(x1 - c.aLo) + Drift(x1 - c.aLo)>>)]
Span(p) == (p.hi[1] - p.lo[1]) * DayMs + p.hi[2] - p.lo[2]
\* whole seconds (counted from p.lo's midnight) whose display value is R and that begin inside p
SecsMatching(p, R) ==
    LET s0 == p.lo[2] \div 1000
    IN  {j \in 0..(Span(p) \div 1000 + 1) : (s0 + j) % 86400 = R /\ (s0 + j) * 1000 <= p.lo[2] + Span(p)}
Learn(R, x0, x1) == [known |-> 1, lo |-> <<0, R * 1000>>, hi |-> <<0, R * 1000 + 999>>, aLo |-> x0, aHi |-> x1]

Res(st, v) == [st |-> st, v |-> v]
IsErr5(e) == e.k = "err" /\ e.code = 5

\* ---- TIME$ = s
TimeSet(c, e) ==
    LET cls == TimeClass(e.s)
        p   == Pred(c, e.t0, e.t1)
        day == IF c.known >= 1 /\ p.lo[1] = p.hi[1] THEN p.lo[1] ELSE 0
        kn  == IF c.known >= 1 /\ p.lo[1] = p.hi[1] THEN c.known ELSE 1
        T   == TimeVal(e.s)
        set == [known |-> kn, lo |-> <<day, T * 1000>>, hi |-> <<day, T * 1000 + 999>>, aLo |-> e.t0, aHi |-> e.t1]
    IN  IF e.k = "internal" THEN Res(c, "time_set_internal_error")
        ELSE IF cls = "valid" THEN (IF e.k = "ok" THEN Res(set, "ok") ELSE Res(c, "valid_time_rejected"))
        ELSE IF cls = "invalid" THEN
               (IF IsErr5(e) THEN Res(c, "ok")
                ELSE IF e.k = "ok" THEN Res(NoClock, "invalid_time_accepted")
                ELSE Res(c, "invalid_time_wrong_error"))
        ELSE (IF e.k = "ok" THEN Res(NoClock, "ok") ELSE Res(c, "ok"))

\* ---- x = TIME$
TimeGet(c, e) ==
    LET R == TimeOut(e.r)
        p == Pred(c, e.t0, e.t1)
        J == SecsMatching(p, R)
        j == CHOOSE x \in J : TRUE
        s == p.lo[2] \div 1000 + j
        anchored == [known |-> c.known,
                     lo |-> MaxP(p.lo, Norm(<<p.lo[1], s * 1000>>)),
                     hi |-> MinP(p.hi, Norm(<<p.lo[1], s * 1000 + 999>>)),
                     aLo |-> e.t0, aHi |-> e.t1]
    IN  IF e.k # "ok" THEN Res(c, "time_read_failed")
        ELSE IF R < 0 THEN Res(c, "time_read_malformed")
        ELSE IF c.known = 0 THEN Res(Learn(R, e.t0, e.t1), "ok")
        ELSE IF J = {} THEN Res(Learn(R, e.t0, e.t1), "time_read_outside_elapsed_window")
        ELSE Res(anchored, "ok")

\* ---- DATE$ = s
DateSet(c, e) ==
    LET cls == DateClass(e.s)
        p   == Pred(c, e.t0, e.t1)
        D   == DateVal(e.s)
        set == IF c.known >= 1 /\ p.lo[1] = p.hi[1]
               THEN [known |-> 2, lo |-> <<D, p.lo[2]>>, hi |-> <<D, p.hi[2]>>, aLo |-> e.t0, aHi |-> e.t1]
               ELSE NoClock
        fuzz == IF c.known = 2 THEN [c EXCEPT !.known = 1] ELSE c
    IN  IF e.k = "internal" THEN Res(c, "date_set_internal_error")
        ELSE IF cls = "valid" THEN (IF e.k = "ok" THEN Res(set, "ok") ELSE Res(c, "valid_date_rejected"))
        ELSE IF cls = "invalid" THEN
               (IF IsErr5(e) THEN Res(c, "ok")
                ELSE IF e.k = "ok" THEN Res(fuzz, "invalid_date_accepted")
                ELSE Res(c, "invalid_date_wrong_error"))
        ELSE (IF e.k = "ok" THEN Res(fuzz, "ok") ELSE Res(c, "ok"))

\* ---- x = DATE$
DateGet(c, e) ==
    LET D == DateOut(e.r)
        p == Pred(c, e.t0, e.t1)
        shift(k) == [c EXCEPT !.known = 2, !.lo = <<c.lo[1] + k, c.lo[2]>>, !.hi = <<c.hi[1] + k, c.hi[2]>>]
    IN  IF e.k # "ok" THEN Res(c, "date_read_failed")
        ELSE IF D < 0 THEN Res(c, "date_read_malformed")
        ELSE IF c.known = 0 THEN Res(c, "ok")
        ELSE IF c.known = 1 THEN (IF p.lo[1] = p.hi[1] THEN Res(shift(D - p.lo[1]), "ok") ELSE Res(c, "ok"))
        ELSE IF D >= p.lo[1] /\ D <= p.hi[1] THEN Res(c, "ok")
        ELSE Res(shift(D - p.lo[1]), "date_read_differs_from_date_set")

(* ---------------------------- the environment --------------------------- *)
Upper(s) == [i \in 1..Len(s) |-> IF s[i] >= 97 /\ s[i] <= 122 THEN s[i] - 32 ELSE s[i]]
FirstEq(s) == IF Eq \in BytesOf(s) THEN CHOOSE i \in 1..Len(s) : s[i] = Eq /\ \A j \in 1..(i - 1) : s[j] # Eq ELSE 0
EnvName(s) == SubSeq(s, 1, FirstEq(s) - 1)
EnvValue(s) == SubSeq(s, FirstEq(s) + 1, Len(s))
(* "valid"   name of bytes 1..127 and value of bytes 1..255: must be stored;
   "invalid" no "=" or empty name: Illegal function call, nothing changes;
   "open"    a NUL byte (cannot be stored in a process environment) or a name byte above 127:
             either stored or refused with a BASIC error, never an internal error.          *)
EnvClass(s) ==
    IF FirstEq(s) <= 1 THEN "invalid"
    ELSE IF 0 \in BytesOf(s) \/ \E i \in 1..(FirstEq(s) - 1) : s[i] > 127 THEN "open"
    ELSE "valid"

EnvSet(env, e) ==
    LET cls == EnvClass(e.s)
        put == (Upper(EnvName(e.s)) :> EnvValue(e.s)) @@ env
    IN  IF e.k = "internal" THEN Res(env, "environ_internal_error")
        ELSE IF cls = "valid" THEN (IF e.k = "ok" THEN Res(put, "ok") ELSE Res(env, "valid_environ_rejected"))
        ELSE IF cls = "invalid" THEN
               (IF IsErr5(e) THEN Res(env, "ok")
                ELSE IF e.k = "ok" THEN Res(env, "invalid_environ_accepted") ELSE Res(env, "invalid_environ_wrong_error"))
        ELSE (IF e.k = "ok" THEN Res(put, "ok") ELSE Res(env, "ok"))

\* ENVIRON$(name): names this trace has set must return the value last set; other names are the host's business
EnvGet(env, e) ==
    LET n == Upper(e.s)
    IN  IF e.k = "internal" THEN Res(env, "environ_fn_internal_error")
        ELSE IF n \notin DOMAIN env THEN Res(env, "ok")
        ELSE IF e.k # "ok" THEN Res(env, "environ_fn_failed_for_a_name_that_was_set")
        ELSE IF e.r # env[n] THEN Res(env, "environ_fn_differs_from_value_set")
        ELSE Res(env, "ok")

(* ------------------------------ one event ------------------------------- *)
InitSt == [clk |-> NoClock, env |-> <<>>]
Step(st, e) ==
    CASE e.op = "time_set" -> LET r == TimeSet(st.clk, e) IN Res([st EXCEPT !.clk = r.st], r.v)
      [] e.op = "time_get" -> LET r == TimeGet(st.clk, e) IN Res([st EXCEPT !.clk = r.st], r.v)
      [] e.op = "date_set" -> LET r == DateSet(st.clk, e) IN Res([st EXCEPT !.clk = r.st], r.v)
      [] e.op = "date_get" -> LET r == DateGet(st.clk, e) IN Res([st EXCEPT !.clk = r.st], r.v)
      [] e.op = "env_set"  -> LET r == EnvSet(st.env, e) IN Res([st EXCEPT !.env = r.st], r.v)
      [] e.op = "env_get"  -> LET r == EnvGet(st.env, e) IN Res([st EXCEPT !.env = r.st], r.v)
      [] e.op = "reset"    -> Res([st EXCEPT !.clk = NoClock], "ok")     \* new Session: offset forgotten, environment kept
      [] OTHER -> Res(st, "unknown_event")
=============================================================================
