SPECIFICATION TSpec
CONSTANTS
  A <- HA
  C <- HC
INVARIANT TDone
CHECK_DEADLOCK FALSE
