------------------------------ MODULE Protect ------------------------------
(* Protected programs (property C16), functional-core style.
   Abstract state of a session that enforces protection (hide_protected):
     prog    which program is resident: "none", "P" (the secret program, only ever
             loaded from its ,P file), "U" (some other, unprotected program),
             "M" (an unprotected program after edits/merges)
     intact  the resident program is still the program that was loaded (DELETE and
             RENUM are allowed on a protected program and change it)
     prot    the protection flag
     trap    the error trap the program may have left behind: "off", "armed" (ON ERROR
             GOTO active: a failing direct statement enters the program's handler),
             "handling" (stopped inside the handler: errors are reported normally)
   plus the ghost `leaked` kept by the model/trace specs.
   An action is one direct-mode command line [op, arg, chain]; chain = TRUE means the
   operation is preceded by another statement and a colon on the same line.

   The property is (a) the demanded-outcome relation Must and (b) NoLeak: no action
   whatsoever, demanded outcome or not, makes a byte string of the protected program
   appear in output, files, screen or variables.                              *)
EXTENDS Integers, FiniteSets, Sequences

CONSTANT AsCoded      \* TRUE: the reference lets direct-mode READ deliver DATA items of a protected program, as the pinned
                      \* tree does (selftest: TLC must then find the leak)

\* operations the statement lists: each must fail with Illegal function call on a protected program
Listed == {"List", "ListFile", "LList", "Edit", "SaveA", "SaveB", "Peek", "BSave", "Merge", "ChainMerge", "EnterLine"}
\* further operations that read or alter program memory; the statement does not fix their outcome, NoLeak still applies
Unlisted == {"Poke", "Bload", "DeleteLines", "Renum", "ReadData"}
\* ChainP: CHAIN "file" of the protected file (typed in direct mode, whatever is in memory): it is loaded like LOAD ,R and run
Loads == {"LoadP", "LoadB", "New", "ChainP"}
Ops == Listed \cup Unlisted \cup Loads \cup {"SaveP", "Run", "RunArm"}

PeekClasses == {"code", "flag", "lowmem", "var", "video", "rom"}
LineKinds == {"new", "replace", "delete"}
PokeKinds == {"flag", "code"}
Args(op) == CASE op = "Peek" -> PeekClasses [] op = "EnterLine" -> LineKinds [] op = "Poke" -> PokeKinds [] OTHER -> {"-"}
Chainable == (Listed \ {"EnterLine"}) \cup Unlisted \cup {"SaveP"}       \* a program line cannot follow a colon

InitSt == [prog |-> "none", intact |-> TRUE, prot |-> FALSE, trap |-> "off"]

\* outcome the property DEMANDS of an action: "ifc" (fails with Illegal function call, error 5), "ok" (succeeds),
\* "same" (RUN behaves as the unprotected original), "any" (not fixed by the statement)
Must(st, a) ==
    IF st.prot /\ a.op \in Listed THEN "ifc"
    ELSE IF st.prot /\ a.op = "SaveP" THEN "ok"
    ELSE IF st.prog = "P" /\ st.intact /\ a.op = "Run" THEN "same"
    ELSE "any"

\* observed outcomes: kind "ok" | "err" (message printed) | "trapped" (the program's handler got the error), code = ERR
Failed(kind) == kind \in {"err", "trapped"}
Accepts(must, kind, code, same) ==
    CASE must = "any"  -> TRUE
      [] must = "ifc"  -> Failed(kind) /\ code = 5
      [] must = "ok"   -> kind = "ok"
      [] must = "same" -> kind = "ok" /\ same

\* does a SUCCESSFUL action hand program text to the user?
Discloses(a) == a.op \in (Listed \ {"Merge", "ChainMerge", "EnterLine"}) \cup {"ReadData"}

\* reference outcome where the property leaves it open (used to generate behaviours, never to judge the code):
\* the unlisted memory operations are refused on a protected program, DELETE/RENUM/loads/RUN succeed
RefFails(st, a) ==
    \/ Must(st, a) = "ifc"
    \/ st.prot /\ a.op \in {"Poke", "Bload"}
    \/ st.prot /\ a.op = "ReadData" /\ ~AsCoded
    \/ a.op = "RunArm" /\ ~(st.prog = "P" /\ st.intact)        \* only P has the arming entry point
    \/ a.op \in {"DeleteLines", "Renum", "ReadData", "Edit"} /\ st.prog = "none"

\* effect of an action whose outcome was `failed` on the abstract state
NextTrap(st, a, failed) ==
    IF failed THEN (CASE st.trap = "armed" -> "handling" [] st.trap = "handling" -> "armed" [] OTHER -> "off")
    ELSE IF a.op = "RunArm" THEN "armed"
    ELSE IF a.op \in {"Run", "New", "LoadP", "LoadB", "ChainP"} THEN "off"
    ELSE st.trap
Effect(st, a, failed) ==
    LET s1 == [st EXCEPT !.trap = NextTrap(st, a, failed)]
    IN  IF failed THEN s1
        ELSE CASE a.op \in {"LoadP", "ChainP"} -> [s1 EXCEPT !.prog = "P", !.intact = TRUE, !.prot = TRUE]
               [] a.op = "LoadB" -> [s1 EXCEPT !.prog = "U", !.intact = TRUE, !.prot = FALSE]
               [] a.op = "New"   -> [s1 EXCEPT !.prog = "none", !.intact = TRUE, !.prot = FALSE]
               [] a.op \in {"DeleteLines", "Renum"} -> [s1 EXCEPT !.intact = FALSE]
               [] a.op \in {"EnterLine", "Merge", "ChainMerge"} -> [s1 EXCEPT !.prog = "M", !.intact = FALSE]
               [] OTHER -> s1

\* a leak: a disclosing action succeeds on a protected program
Leaks(st, a, failed) == st.prot /\ ~failed /\ Discloses(a)

Actions == {[op |-> o, arg |-> x, chain |-> c] : o \in Ops, x \in PeekClasses \cup LineKinds \cup PokeKinds \cup {"-"}, c \in BOOLEAN}
IsAction(a) == a.op \in Ops /\ a.arg \in Args(a.op) /\ (a.chain => a.op \in Chainable)

\* state predicates of the property
TypeOK(st) == /\ st.prog \in {"none", "P", "U", "M"} /\ st.intact \in BOOLEAN /\ st.prot \in BOOLEAN
              /\ st.trap \in {"off", "armed", "handling"}
ProtIffSecret(st) == st.prot <=> st.prog = "P"        \* the flag is set by loading a ,P file and cleared by NEW / other loads only
=============================================================================
