------------------------- MODULE SessionModes_Trace -------------------------
(* Total trace specification for C01: one event per case executed on a real
   Session.  Every event carries the observed outcome kind
       "ok" | "err" (BASIC error, code) | "exit" | "internal" (escaping host exception)
       | "cut" (harness statement budget reached; nothing observed after that) 
   and its arm:
     arm = "T"  catalogue transition: st = abstract state the session was brought into (StTuple layout),
                item = catalogue index, established = the projection of the real session agreed with st
                before the statement, post = projected state after it (direct mode, ok/err outcomes)
     other arms ("L" direct lines, "P" programs, "F" byte strings as program files, "D" default-configuration
                Session, "X" API calls): outcome only.
   Clauses: escaping_exception (the property), state_not_established / effect_differs_from_model
   (conformance of the generation-with-state machinery).                                         *)
EXTENDS SessionModes, TraceBase
VARIABLES lno, viol
tvars == <<lno, viol>>

StOf(t) == [mode |-> t[1], prog |-> t[2], trap |-> t[3], prot |-> t[4], files |-> t[5], screen |-> t[6],
            view |-> t[7], window |-> t[8], ev |-> t[9], seg |-> t[10]]

\* the harness cut the run short: no outcome was observed, nothing is demanded
Truncated(kind) == kind = "cut"

VT(e) ==
    LET from == StOf(e.st)
        it   == Item(e.item)
    IN  IF ~(OutcomeOK(e.kind) \/ Truncated(e.kind)) THEN "escaping_exception"
        ELSE IF ~TypeOK(from) \/ ~Consistent(from) THEN "harness_state_outside_model"
        ELSE IF ~e.established THEN "state_not_established"
        ELSE IF e.kind = "ok" /\ EffectChecked(from, it) /\ Has(e, "post") /\ ~EffectOK(from, it, StOf(e.post))
             THEN "effect_differs_from_model"
        ELSE "ok"

V(e) == IF e.arm = "T" THEN VT(e)
        ELSE IF OutcomeOK(e.kind) \/ Truncated(e.kind) THEN "ok" ELSE "escaping_exception"

TInit == lno = 1 /\ viol = <<>>
TNext == /\ lno <= NEvents
         /\ lno' = lno + 1
         /\ LET v == V(Events[lno])
            IN  viol' = IF v = "ok" THEN viol ELSE Append(viol, <<lno, v>>)
TSpec == TInit /\ [][TNext]_tvars
TDone == (lno = NEvents + 1) => WriteVerdict(lno - 1, viol)
=============================================================================
