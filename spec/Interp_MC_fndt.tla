------------------------------ MODULE Interp_MC_fndt ------------------------------
EXTENDS Interp_MCF
VARIABLES s, hist
INSTANCE Interp_MCrun WITH Family <- FnDtFamily
=============================================================================
