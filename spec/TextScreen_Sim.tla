--------------------------- MODULE TextScreen_Sim ---------------------------
(* Behaviour generator (spec -> code) at the REAL screen size: TLC walks the
   reference model (N independent random walks of D statements, RandomElement), choosing at every step one statement from a
   boundary-dense catalogue computed from the current model state (strings that
   end one before / at / one past the right margin and the end of the window,
   LOCATE to the corners and just outside, every kind of window, width and
   mode switches).  Each finished behaviour is printed as JSON and replayed on
   the real interpreter; TextScreen_Trace then validates it step by step.     *)
EXTENDS TextScreen, TLC, Json, FiniteSets, SequencesExt
CONSTANTS W, H, D, Modes,
          N,       \* number of behaviours (one per initial state; run in ordinary BFS mode, 1 worker)
          Seed     \* the walks are a deterministic function of Seed (small linear congruential generator)
VARIABLES st, hist, rnd
vars == <<st, hist, rnd>>
Lcg(x) == (x * 75 + 74) % 65537
Pick(S, x) == SetToSeq(S)[1 + ((x \div 5) % Cardinality(S))]

Pat(k, base) == [i \in 1..k |-> base + (i % 7)]
Clip(S) == S \cap 1..255
Lens(s) == Clip({1, 2, 3, s.w - s.col, s.w - s.col + 1, s.w - s.col + 2, s.w, s.w + 1, 2 * s.w - s.col + 1,
                 (s.bot - s.row) * s.w + (s.w - s.col + 1), (s.bot - s.row) * s.w + (s.w - s.col + 2), 255})
Rs(s) == {-1, 0, 1, 2, s.top - 1, s.top, s.bot, s.bot + 1, s.h - 1, s.h, s.h + 1, 255} \cap -1..300
Cs(s) == {-1, 0, 1, 2, s.w - 1, s.w, s.w + 1, 255}
ModeW(m, w) == CASE m = 0 -> (IF w = 20 THEN 40 ELSE w) [] m \in {1, 7} -> 40 [] OTHER -> 80
\* the catalogue of one kind of statement in model state s
ActionsOf(s, k) ==
    CASE k = "print" ->
           {[op |-> "print", s |-> Pat(n, 65), nl |-> nl] : n \in Lens(s), nl \in BOOLEAN}
           \cup {[op |-> "print", s |-> <<c>>, nl |-> FALSE] : c \in {9, 10, 11, 12, 13, 28, 29, 30, 31, 8, 0, 255}}
           \cup {[op |-> "print", s |-> x, nl |-> nl] : x \in {<<>>, <<97, 13, 98>>, <<97, 10, 13, 98>>, <<97, 9, 98>>,
                                                               <<120, 31, 121, 29, 29, 122>>, <<30, 30, 120, 28, 121>>,
                                                               Pat(s.w - 1, 97) \o <<9, 120>>, <<11, 120>>, <<120, 12, 121>>},
                                                        nl \in BOOLEAN}
      [] k = "locate" -> {[op |-> "locate", r |-> r, c |-> c] : r \in Rs(s), c \in Cs(s)}
      [] k = "cls" -> {[op |-> "cls"]}
      [] k = "viewprint" ->
           {[op |-> "viewprint", t |-> t, b |-> b] : t \in {0, 1, 2, s.h \div 2, s.h - 2, s.h - 1},
                                                     b \in {0, 1, 2, s.h \div 2, s.h - 2, s.h - 1, s.h}}
      [] k = "width" ->
           {[op |-> "width", n |-> x, fresh |-> x # s.w, nw |-> x,
             nmode |-> IF s.mode = 0 THEN 0 ELSE IF x = 40 THEN 1 ELSE 2] : x \in TextWidths}
      [] k = "screen" ->
           {[op |-> "screen", m |-> m, fresh |-> m # s.mode, nw |-> ModeW(m, s.w), nmode |-> m] : m \in Modes}

\* weight the kinds of statement (printing most)
Kinds == <<"print", "print", "print", "print", "print", "locate", "locate", "cls", "viewprint", "viewprint", "width", "screen">>
Init == st = Fresh(W, H, 0) /\ hist = <<>> /\ rnd \in {Lcg(Lcg((Seed * 7919 + i * 4999) % 65537)) : i \in 1..N}
Next == /\ Len(hist) < D
        /\ LET r1 == Lcg(rnd)
               r2 == Lcg(r1)
               k  == Kinds[1 + ((r1 \div 5) % Len(Kinds))]
               a  == Pick(ActionsOf(st, k), r2)
               ok == RefOk(st, a)
           IN  /\ st' = IF ok THEN Effect(st, a) ELSE st
               /\ hist' = Append(hist, a @@ [done |-> ok])
               /\ rnd' = r2
Spec == Init /\ [][Next]_vars
Emit == (Len(hist) = D) => PrintT(<<"BEHAVIOUR", ToJson(hist)>>)
=============================================================================
