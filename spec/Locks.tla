------------------------------- MODULE Locks -------------------------------
(* File sharing and record locks (property C26), functional-core style.
   State: which file numbers are open on which file and in which mode, and
   the record ranges each number holds.  The property is stated as
   (a) the invariant NoOverlap over held ranges and (b) the relation
   Must(st, a) that names the outcome the property DEMANDS of an operation
   ("fail", "deny70") or leaves open ("any").                               *)
EXTENDS Integers, FiniteSets, Sequences

CONSTANTS FileNums,     \* file numbers, e.g. 1..3
          Names,        \* distinct files on the disk
          MaxRec,       \* records 1..MaxRec
          AsCoded       \* TRUE: overlap test as in the pinned code before the fix (selftest: TLC must find the defect)

Whole == <<0, 0>>                                          \* LOCK #n without a range
Ranges == {r \in (1..MaxRec) \X (1..MaxRec) : r[1] <= r[2]} \cup {Whole}
Modes == {"I", "O", "A", "R"}

Overlap(r1, r2) == r1 = Whole \/ r2 = Whole \/ (r1[1] <= r2[2] /\ r2[1] <= r1[2])
\* the test in diskfiles.Locks._try_record_lock before the repair: an endpoint of the new range inside a held one
CodedOverlap(new, held) == held = Whole \/ new = Whole
                            \/ (new[1] >= held[1] /\ new[1] <= held[2])
                            \/ (new[2] >= held[1] /\ new[2] <= held[2])
Conflict(new, held) == IF AsCoded THEN CodedOverlap(new, held) ELSE Overlap(new, held)
Covers(r, rec) == r = Whole \/ (r[1] <= rec /\ rec <= r[2])

Closed == "closed"
InitSt == [mode  |-> [n \in FileNums |-> Closed],
           name  |-> [n \in FileNums |-> CHOOSE x \in Names : TRUE],
           locks |-> [n \in FileNums |-> {}]]

IsOpen(st, n) == st.mode[n] # Closed
Same(st, n, m) == IsOpen(st, n) /\ IsOpen(st, m) /\ st.name[n] = st.name[m]

\* a LOCK/UNLOCK on a sequential (text) file ignores the bounds and acts on the whole file
Norm(st, n, r) == IF st.mode[n] = "R" THEN r ELSE Whole

\* action records: [op, n, name, mode, r, rec] (unused fields absent)
Must(st, a) ==
    CASE a.op = "open" ->
           IF \E m \in FileNums : m # a.n /\ IsOpen(st, m) /\ st.name[m] = a.name /\ st.mode[m] \in {"O", "A"}
           THEN "fail" ELSE "any"
      [] a.op = "close"  -> "any"
      [] a.op = "lock"   ->
           IF \E m \in FileNums : Same(st, a.n, m) /\ \E h \in st.locks[m] : Conflict(Norm(st, a.n, a.r), h)
           THEN "deny70" ELSE "any"
      [] a.op = "unlock" -> IF Norm(st, a.n, a.r) \in st.locks[a.n] THEN "any" ELSE "fail"
      [] a.op \in {"get", "put"} ->
           \* (GW-BASIC lets GET read a record of a file whose lock holder has it open for OUTPUT/APPEND - corpus test
           \*  LockFilesOutput, built on GW-BASIC 3.23 - so that one combination is left open)
           IF \E m \in FileNums : m # a.n /\ Same(st, a.n, m) /\ (a.op = "put" \/ st.mode[m] \notin {"O", "A"})
                                    /\ \E h \in st.locks[m] : Covers(h, a.rec)
           THEN "fail" ELSE "any"

\* Where the property leaves the outcome open the REFERENCE implementation (used only to generate behaviours in
\* Locks_MC, never to judge the code) fails an OUTPUT/APPEND open of a file that is open under another number.
RefOk(st, a) ==
    /\ Must(st, a) = "any"
    /\ ~(a.op = "open" /\ a.mode \in {"O", "A"} /\ \E m \in FileNums : m # a.n /\ IsOpen(st, m) /\ st.name[m] = a.name)

\* effect of an operation that succeeded (a failed operation leaves the state unchanged)
Effect(st, a) ==
    CASE a.op = "open"   -> [st EXCEPT !.mode[a.n] = a.mode, !.name[a.n] = a.name, !.locks[a.n] = {}]
      [] a.op = "close"  -> [st EXCEPT !.mode[a.n] = Closed, !.locks[a.n] = {}]
      [] a.op = "lock"   -> [st EXCEPT !.locks[a.n] = @ \cup {Norm(st, a.n, a.r)}]
      [] a.op = "unlock" -> [st EXCEPT !.locks[a.n] = @ \ {Norm(st, a.n, a.r)}]
      [] OTHER -> st

\* is an observed outcome (ok: BOOLEAN, code) acceptable?
Accepts(must, ok, code) ==
    CASE must = "any"    -> TRUE
      [] must = "fail"   -> ~ok
      [] must = "deny70" -> ~ok /\ code = 70

\* operations a driver may issue in state st (closed fragment: open only closed numbers, operate on open ones,
\* record locks and GET/PUT only on random files)
Actions(st) ==
    {[op |-> "open", n |-> n, name |-> x, mode |-> md] : n \in {k \in FileNums : ~IsOpen(st, k)}, x \in Names, md \in Modes}
    \cup {[op |-> "close", n |-> n] : n \in {k \in FileNums : IsOpen(st, k)}}
    \cup {[op |-> o, n |-> n, r |-> r] : o \in {"lock", "unlock"}, n \in {k \in FileNums : st.mode[k] = "R"}, r \in Ranges}
    \cup {[op |-> o, n |-> n, r |-> r] : o \in {"lock", "unlock"}, n \in {k \in FileNums : st.mode[k] \in {"I", "O", "A"}}, r \in {Whole, <<1, 2>>}}
    \cup {[op |-> o, n |-> n, rec |-> k] : o \in {"get", "put"}, n \in {k \in FileNums : st.mode[k] = "R"}, k \in 1..MaxRec}

\* the invariant of the property: ranges held on the same file never overlap
NoOverlapSt(st) ==
    \A m1, m2 \in FileNums : Same(st, m1, m2) =>
        \A r1 \in st.locks[m1], r2 \in st.locks[m2] : (m1 # m2 \/ r1 # r2) => ~Overlap(r1, r2)
NoTwoWriters(st) ==
    \A m1, m2 \in FileNums : (m1 # m2 /\ Same(st, m1, m2)) => st.mode[m1] \notin {"O", "A"}
=============================================================================
