------------------------------ MODULE SaveLoad ------------------------------
(* Program files (property C15): SAVE / LOAD / MERGE in the three formats.
   A stored program is seen in two ways:
     mem      - program memory, a byte sequence (first byte 0, then the linked
                tokenised lines, then the 00 00 terminator);
     listing  - the sequence of <<line number, text>> pairs LIST shows.
   Tokenised (B) and protected (P) files carry the memory image, ASCII (A)
   files carry the listing.  The property:
     B, P :  Load(Save(mem, fmt)) = mem        (byte identical)
     A    :  if the listing re-enters as the same program, LOAD of the saved
             file shows the same listing, and MERGE of it into a program q
             shows MergeListing(q, listing)
     the command-line converter writes the same file as SAVE in a session.
   The file layout is the GW-BASIC one (magic byte, payload, EOF byte 1A); it
   is used by SaveLoad_MC to check the design (including payloads that
   themselves contain or end in 1A) and is NOT demanded of the code: the
   code is judged on memory, listing and file equality only.                 *)
EXTENDS Cipher

MagicB == 255
MagicP == 254
EOFByte == 26

Drop1(s) == SubSeq(s, 2, Len(s))              \* memory without its leading 0 byte
DropLast(s) == SubSeq(s, 1, Len(s) - 1)

\* --- reference file layout (design check only) ---
FileOf(fmt, mem, E) ==
    IF fmt = "B" THEN <<MagicB>> \o Drop1(mem) \o <<EOFByte>>
                 ELSE <<MagicP>> \o Stream(E, Drop1(mem)) \o <<EOFByte>>
\* the loader drops the magic byte and exactly one trailing byte (the EOF marker)
MemOf(fmt, file, D) ==
    LET body == DropLast(Drop1(file))
    IN  IF fmt = "B" THEN <<0>> \o body ELSE <<0>> \o Stream(D, body)
\* the tokenised-file loader of the pinned tree: the EOF marker stays in the program buffer
MemOfAsCoded(fmt, file, D) ==
    IF fmt = "B" THEN <<0>> \o Drop1(file) ELSE MemOf(fmt, file, D)

\* --- verdict on an observed B/P round trip -------------------------------------------------
\* mem0/size0: program buffer and program size before SAVE; mem1/size1: after LOAD of the saved file
RoundTripVerdict(mem0, size0, mem1, size1) ==
    IF mem1 = mem0 /\ size1 = size0 THEN "ok"
    ELSE IF size1 # size0 \/ SubSeq(mem1, 1, size1) # SubSeq(mem0, 1, size0) THEN "program_memory_differs_after_load"
    ELSE IF mem1 = mem0 \o <<EOFByte>> THEN "eof_marker_kept_in_program_buffer"
    ELSE "program_buffer_differs_after_load"

\* "the listing re-enters": GW-BASIC's line buffer takes 255 characters, a longer line cannot be entered
LineBuffer == 255
Enterable(lens) == \A k \in 1..Len(lens) : lens[k] <= LineBuffer

\* --- listings ------------------------------------------------------------------------------
\* a listing is a sequence of <<number, text>>, ascending in number
Nums(L) == {L[k][1] : k \in 1..Len(L)}
TextOf(L, n) == LET k == CHOOSE k \in 1..Len(L) : L[k][1] = n IN L[k][2]
Ascending(L) == \A k \in 1..(Len(L) - 1) : L[k][1] < L[k + 1][1]
\* MERGE: lines of the file replace equally numbered lines, all others stay
MergedText(q, f, n) == IF n \in Nums(f) THEN TextOf(f, n) ELSE TextOf(q, n)
IsMerge(q, f, r) == /\ Nums(r) = Nums(q) \cup Nums(f)
                    /\ Ascending(r)
                    /\ \A k \in 1..Len(r) : r[k][2] = MergedText(q, f, r[k][1])
=============================================================================
