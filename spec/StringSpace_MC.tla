--------------------------- MODULE StringSpace_MC ---------------------------
(* Bounded design check of StringSpace.tla: the implementation-shaped layer against the reference layer,
   and emitter of behaviours/transitions for the replay on the real interpreter.
   Strings are sequences over {1, 2} (replayed as "a", "b") of at most MaxLen symbols.               *)
EXTENDS StringSpace, Json
CONSTANTS Lits,         \* literal strings the statements may use
          Targets,      \* cells that are assigned to
          Srcs,         \* cells that are read in expressions
          MaxOps,       \* history length bound
          Shapes        \* which statement/expression shapes the model uses (see Exprs, Stmts)
VARIABLES st, act, res, nops, hist
vars == <<st, act, res, nops, hist>>

MCLits == {<<1>>, <<2, 2>>}
MCLits3 == {<<1>>, <<2, 2>>, <<1, 2, 1>>}
MCCellOrder == <<"A", "B", "C", "R0", "R1">>
MCArrays == [x \in {"R"} |-> {"R0", "R1"}]
\* DEF FNA$(B$) = B$ + A$     (parameter B, global A);  DEF FNI$(B$) = B$  (identity)
MCFns == [f \in {"FNA", "FNI"} |-> IF f = "FNA"
            THEN [params |-> <<"B">>, body |-> [k |-> "cat", l |-> [k |-> "var", c |-> "B"], r |-> [k |-> "var", c |-> "A"]]]
            ELSE [params |-> <<"B">>, body |-> [k |-> "var", c |-> "B"]]]

Lit(v) == [k |-> "lit", v |-> v]
Var(c) == [k |-> "var", c |-> c]
Cat(l, r) == [k |-> "cat", l |-> l, r |-> r]
Atoms == {Lit(v) : v \in Lits} \cup {Var(c) : c \in Srcs}
L1 == Lit(<<1>>)
\* expression shapes (constant Shapes selects): the letters name the leaves (l literal, v variable)
Exprs ==
    (IF "l" \in Shapes THEN {Lit(v) : v \in Lits} ELSE {})
    \cup (IF "v" \in Shapes THEN {Var(c) : c \in Srcs} ELSE {})
    \cup (IF "vl" \in Shapes THEN {Cat(Var(c), Lit(v)) : c \in Srcs, v \in Lits} ELSE {})      \* literal stored while a view is on the stack
    \cup (IF "lv" \in Shapes THEN {Cat(Lit(v), Var(c)) : c \in Srcs, v \in Lits} ELSE {})
    \cup (IF "ll" \in Shapes THEN {Cat(Lit(v), Lit(w)) : v \in Lits, w \in Lits} ELSE {})      \* two temporaries
    \cup (IF "vv" \in Shapes THEN {Cat(Var(c), Var(d)) : c \in Srcs, d \in Srcs} ELSE {})
    \cup (IF "vll" \in Shapes THEN {Cat(Cat(Var(c), L1), L1) : c \in Srcs} ELSE {})             \* intermediate on the stack while a literal is stored
    \cup (IF "v(lv)" \in Shapes THEN {Cat(Var(c), Cat(L1, Var(d))) : c \in Srcs, d \in Srcs} ELSE {})
    \cup (IF "left" \in Shapes THEN {[k |-> "left", e |-> Cat(Var(c), L1), n |-> n] : c \in Srcs, n \in {0, 1}} ELSE {})
    \cup (IF "mid" \in Shapes THEN {[k |-> "mid", e |-> Var(c), s |-> 2, n |-> -1] : c \in Srcs} ELSE {})
    \cup (IF "fn" \in Shapes THEN {[k |-> "fn", f |-> f, args |-> <<x>>] : f \in {"FNA", "FNI"},
                                       x \in {Var(c) : c \in Srcs} \cup {Cat(Var(c), L1) : c \in Srcs}} ELSE {})
Stmts ==
    {[op |-> "let", c |-> c, e |-> e] : c \in Targets, e \in Exprs}
    \cup (IF "midset" \in Shapes THEN {[op |-> "midset", c |-> c, s |-> s, n |-> 255, e |-> e] : c \in Targets, s \in {1, 2}, e \in Atoms} ELSE {})
    \cup (IF "lset" \in Shapes THEN {[op |-> o, c |-> c, e |-> e] : o \in {"lset", "rset"}, c \in Targets, e \in Atoms} ELSE {})
    \cup (IF "swap" \in Shapes THEN {[op |-> "swap", c |-> q[1], d |-> q[2]] : q \in {x \in Targets \X Targets : x[1] # x[2]}} ELSE {})
    \cup (IF "erase" \in Shapes THEN {[op |-> "erase", arr |-> "R"]} ELSE {})
    \cup {[op |-> "fre"]}
\* closed fragment: MID$(v)=v with the very same variable as source is the GW-BASIC overlap quirk (C09), not modelled
InFragment(a) == ~(a.op = "midset" /\ a.e.k = "var" /\ a.e.c = a.c)

Init == /\ st = [m |-> InitM, ref |-> [c \in Cells |-> <<>>]]
        /\ act = [op |-> "init"] /\ res = [err |-> 0, gc |-> 0] /\ nops = 0 /\ hist = <<>>
Next == /\ nops < MaxOps
        /\ \E a \in Stmts :
             /\ InFragment(a)
             /\ LET r == Apply(st, a) IN st' = r.st /\ res' = [err |-> r.err, gc |-> r.gc]
             /\ act' = a
             /\ hist' = Append(hist, [a |-> a, err |-> res'.err, gc |-> res'.gc])
        /\ nops' = nops + 1
Spec == Init /\ [][Next]_vars
\* simulation (behaviour generation): one randomly chosen statement per step instead of all successors
FragStmts == {a \in Stmts : InFragment(a)}
SimNext == /\ nops < MaxOps
           /\ LET a == RandomElement(FragStmts)
                  r == Apply(st, a)
              IN st' = r.st /\ res' = [err |-> r.err, gc |-> r.gc] /\ act' = a
                 /\ hist' = Append(hist, [a |-> a, err |-> r.err, gc |-> r.gc])
           /\ nops' = nops + 1
SimSpec == Init /\ [][SimNext]_vars

View == <<st, nops>>      \* nops in the view: with several workers a state could otherwise be first reached on a longer path and not be expanded
RefinesInv == Refines(st)
WellFormedInv == WellFormed(st.m)
NoOverflowInv == NoOverflow(st.m)
NoAliasInv == NoAlias(st.m)
NoBadInv == st.m.bad = ""
\* a collection (an action of the implementation layer only) never changes what any cell reads: stated inside Collect
\* (flag collection_changed_a_live_value) and, for the whole statement, by RefinesInv before and after.

\* vacuity guards: these must be VIOLATED (the interesting situations are reachable)
NeverCollectsInExpr == ~(act.op = "let" /\ res.gc > 0 /\ res.err = 0)
NeverFailsPartWay  == ~(res.err = 14 /\ res.gc > 0)

\* spec -> code: every transition of the bounded model once (each view-state is expanded exactly once) ...
\* canonical state key (ToString of a record is not canonical: the field order depends on how the record was built)
Key(m) == ToString(<<m.cur, m.tmp, [i \in 1..NC |-> m.ptr[CellOrder[i]]],
                     [x \in 1..Top |-> IF x \in DOMAIN m.strs THEN m.strs[x] ELSE <<>>], Len(m.leaks), m.bad>>)
Emit == PrintT(<<"TRANSITION", ToJson([from |-> Key(st.m), d |-> nops, a |-> act', err |-> res'.err, gc |-> res'.gc,
                                       to |-> Key(st'.m)])>>)
\* ... and whole behaviours of the wide model in simulation mode (printed when the history bound is reached)
PrintBehaviour == (nops = MaxOps) => PrintT(<<"BEHAVIOUR", ToJson(hist)>>)
=============================================================================
