---------------------------- MODULE RandFile_MC ----------------------------
(* Bounded design check of RandFile + transition emitter for behaviour replay.
   Record contents are content ids: Content(c, rl) = <<16c+1, .., 16c+rl>> (distinct bytes, so that a record landing
   at a wrong byte offset is visible).  The history variable h carries the record-level view the statement speaks of. *)
EXTENDS RandFile, TLC, Json
CONSTANTS RecLens, MaxRec, Contents, MaxOps, BadRecs
VARIABLES st, h, act, depth
vars == <<st, h, act, depth>>

Content(c, rl) == [i \in 1..rl |-> 16 * c + i]

\* operations a driver may issue in state st (closed fragment: a name is open under at most one number)
Actions(s) ==
    {[op |-> "open", n |-> n, name |-> x, reclen |-> rl] :
        n \in {k \in FileNums : ~IsOpen(s, k)}, x \in {y \in Names : ~NameOpen(s, y)}, rl \in RecLens}
    \cup {[op |-> "close", n |-> n] : n \in {k \in FileNums : IsOpen(s, k)}}
    \cup UNION {{[op |-> "lset", n |-> n, off |-> 0, w |-> s.fil[n].reclen, s |-> Content(c, s.fil[n].reclen)] : c \in Contents}
                : n \in {k \in FileNums : IsOpen(s, k)}}
    \cup {[op |-> o, n |-> n, imp |-> FALSE, rec |-> r] :
        o \in {"put", "get"}, n \in {k \in FileNums : IsOpen(s, k)}, r \in (1..MaxRec) \cup BadRecs}
    \cup {[op |-> o, n |-> n, imp |-> TRUE, rec |-> 0] :
        o \in {"put", "get"}, n \in {k \in FileNums : IsOpen(s, k) /\ s.fil[k].loc < MaxRec}}

Init == st = InitSt /\ h = InitH /\ act = [op |-> "init"] /\ depth = 0
Do(a) == /\ act' = a
         /\ depth' = depth + 1
         /\ st' = Apply(st, a)
         /\ h' = IF RefOk(st, a) THEN HistAfter(h, st, a) ELSE h
Next == depth < MaxOps /\ \E a \in Actions(st) : Do(a)
Spec == Init /\ [][Next]_vars

View == <<st, h, depth>>
ViewSt == st

\* ---- the property ----
RecordsInv == RecordsAsPut(st, h)
LofInv     == LofIsReclenTimesHighest(st, h)
ShapeInv   == BufferShape(st)
\* GET yields the bytes last PUT (action form, in the words of the statement)
GetYieldsLastPut ==
    [][(act'.op = "get" /\ RefOk(st, act')) =>
         LET f == st.fil[act'.n]  x == f.name  t == Target(st, act')
         IN  (Uniform(h, x) /\ h.rl[x] = f.reclen /\ t <= h.hi[x]) =>
                st'.buf[act'.n] = IF t \in DOMAIN h.put[x] THEN h.put[x][t] ELSE Zeros(f.reclen)]_vars
\* LOC is the number of the last record accessed; a record number outside 1..2^25 changes nothing
LocIsLastAccessed ==
    [][(act'.op \in {"get", "put"}) =>
         IF Target(st, act') \in 1..MaxRecNo
         THEN st'.fil[act'.n].loc = Target(st, act') /\ st'.fil[act'.n].acc
         ELSE st' = st]_vars
\* operations on one file number leave the other files alone
Isolation ==
    [][\A x \in Names : (act'.op \in {"put", "get", "lset", "close", "open"} /\
            ~(IsOpen(st, act'.n) /\ st.fil[act'.n].name = x)) => st'.disk[x] = st.disk[x]]_vars

\* emit every transition once (each view-state is expanded exactly once)
Emit == PrintT(<<"TRANSITION", ToJson([from |-> st, a |-> act', must |-> Must(st, act'), to |-> st'])>>)
=============================================================================
