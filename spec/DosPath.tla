------------------------------- MODULE DosPath -------------------------------
(* DOS paths and DOS file names on a host file system (properties C27, C28),
   functional-core style.

   Characters are byte values, a DOS name / path string is a sequence of
   bytes, a HOST path is a sequence of names counted from the top of a
   sandbox (<<>> = the top directory itself).  A host file system is
   fs = [dirs |-> set of host paths, files |-> set of host paths].

   Part 1  name level (C28): Normalise, IsLegal, SplitExt, wildcard Matches,
           default extension, classes of names, candidates of a DOS name in a
           directory, the native lookup order (NativeName).
   Part 2  path level (C27): NtSplit, NormPath, ResolveDir with clamping at
           the mount root, AbsPath, and every file statement as
           Apply(st, a) = [st, ok, code, touched] where `touched` is the set
           of host operations [op, path, kind] the statement performs.
   The properties: TouchedOK / CwdInside / OutsideSame (C27) and the
   name-level laws used by DosNames_MC / DosNames_Trace (C28).

   Two defects reproduced on the pinned tree are selectable so that TLC shows
   the counterexample (selftest): AsCodedDots (trailing blanks are stripped
   from a path element AFTER the dot handling, so ".. " is a name for
   normpath and the clamp but ".." for the host) and AsCodedNames (names with
   an empty trunk such as ".E" are creatable although POSIX hosts hide them;
   a leading blank raises File not found instead of Bad file name).        *)
EXTENDS Integers, Sequences, FiniteSets

CONSTANTS Roots,         \* function: drive letter (upper-case byte) -> host path of the directory mounted there
          CurDrive,      \* the current drive letter
          AsCodedDots,
          AsCodedNames

\* ---------------------------------------------------------------- characters
DOT == 46   BSL == 92   SL == 47   COLON == 58   STAR == 42   QM == 63   SP == 32
Blank == {32, 9, 10, 11, 12, 13}                      \* what Python's bytes.rstrip() removes
Up(c) == IF c >= 97 /\ c <= 122 THEN c - 32 ELSE c
Lo(c) == IF c >= 65 /\ c <= 90 THEN c + 32 ELSE c
\* allowable characters of a DOS file name: letters, digits and  space ! # $ % & ' ( ) - @ ^ _ ` { } ~
Allowable == (48..57) \cup (65..90) \cup (97..122)
             \cup {32, 33, 35, 36, 37, 38, 39, 40, 41, 45, 64, 94, 95, 96, 123, 125, 126}

\* ---------------------------------------------------------------- sequences
Front(s) == SubSeq(s, 1, Len(s) - 1)
Last(s) == s[Len(s)]
Range(s) == {s[i] : i \in 1..Len(s)}
MinOf(S) == CHOOSE m \in S : \A j \in S : m <= j
MaxOf(S) == CHOOSE m \in S : \A j \in S : j <= m
Take(s, n) == SubSeq(s, 1, IF n < Len(s) THEN n ELSE Len(s))
IsPrefix(p, q) == Len(p) <= Len(q) /\ SubSeq(q, 1, Len(p)) = p
Upper(s) == [i \in 1..Len(s) |-> Up(s[i])]
RStrip(s) == LET I == {i \in 1..Len(s) : s[i] \notin Blank} IN IF I = {} THEN <<>> ELSE SubSeq(s, 1, MaxOf(I))
LStrip(s) == LET I == {i \in 1..Len(s) : s[i] \notin Blank} IN IF I = {} THEN <<>> ELSE SubSeq(s, MinOf(I), Len(s))
Strip(s) == LStrip(RStrip(s))
FirstIdx(s, c) == LET I == {i \in 1..Len(s) : s[i] = c} IN IF I = {} THEN 0 ELSE MinOf(I)
LexLess(a, b) == \/ \E i \in 1..Len(a) : i <= Len(b) /\ a[i] < b[i] /\ SubSeq(a, 1, i - 1) = SubSeq(b, 1, i - 1)
                 \/ Len(a) < Len(b) /\ a = SubSeq(b, 1, Len(a))
LexMin(S) == CHOOSE x \in S : \A y \in S : x = y \/ LexLess(x, y)
CaseEq(a, b) == Upper(a) = Upper(b)

\* =========================================================================
\* Part 1: DOS names
\* =========================================================================
D1 == <<DOT>>
D2 == <<DOT, DOT>>
BAS == <<66, 65, 83>>

\* trunk and extension: split at the FIRST dot; the dot is in neither part
SplitExt(s) == LET d == FirstIdx(s, DOT)
               IN IF d = 0 THEN <<s, <<>>>> ELSE <<SubSeq(s, 1, d - 1), SubSeq(s, d + 1, Len(s))>>
JoinExt(t, e) == IF e = <<>> THEN t ELSE t \o <<DOT>> \o e

\* upper case, clipped to 8.3; "X." is "X"
Normalise(s) == IF s \in {D1, D2} THEN s
                ELSE LET sp == SplitExt(Upper(s)) IN JoinExt(Take(sp[1], 8), Take(sp[2], 3))

\* the 8.3 rules: lengths, no blank at either end of trunk or extension, allowable characters (so no second dot)
IsLegal(s) == \/ s \in {D1, D2}
              \/ LET sp == SplitExt(s)
                 IN /\ Len(sp[1]) <= 8 /\ Len(sp[2]) <= 3
                    /\ Strip(sp[1]) = sp[1] /\ Strip(sp[2]) = sp[2]
                    /\ (Range(sp[1]) \cup Range(sp[2])) \subseteq Allowable

\* trailing blanks are ignored; the default extension is applied exactly when the name has no dot
WithDefExt(s, de) == LET r == RStrip(s) IN IF de # <<>> /\ DOT \notin Range(r) THEN r \o <<DOT>> \o de ELSE r
SingleDotEnd(s) == s # <<>> /\ Last(s) = DOT /\ DOT \notin Range(Front(s))

\* wildcard match of one name part against one mask part (? one character, * any run), ignoring case
RECURSIVE WMatch(_, _)
WMatch(n, m) == IF m = <<>> THEN n = <<>>
                ELSE IF m[1] = STAR THEN WMatch(n, Tail(m)) \/ (n # <<>> /\ WMatch(Tail(n), m))
                ELSE n # <<>> /\ (m[1] = QM \/ Up(m[1]) = Up(n[1])) /\ WMatch(Tail(n), Tail(m))
\* a DOS name matches a mask when trunk matches trunk mask and extension matches extension mask
MaskMatches(dn, mask) == LET a == SplitExt(dn)  b == SplitExt(mask)
                         IN WMatch(a[1], b[1]) /\ WMatch(a[2], b[2])
AllMask == <<STAR, DOT, STAR>>

\* the name FILES shows for a host file whose name is a legal DOS name (others are outside the fragment)
Display(f) == Normalise(f)
\* POSIX hosts hide dot files
Visible(f) == f = <<>> \/ f[1] # DOT

\* classes of names given to a statement (n: the string as given, d: after blanks/default extension)
HasPathChar(n) == \E i \in 1..Len(n) : n[i] \in {BSL, SL, COLON}
Reserved(n) == Upper(RStrip(n)) \in {<<65, 85, 88>>, <<67, 79, 78>>, <<78, 85, 76>>, <<80, 82, 78>>}   \* AUX CON NUL PRN
NameClass(n) ==
    LET r == RStrip(n) IN
    IF HasPathChar(n) \/ Reserved(n) THEN "other"            \* a path or device, not a plain name
    ELSE IF r = <<>> THEN "empty"
    ELSE IF r \in {D1, D2} THEN "special"
    ELSE IF IsLegal(n) THEN (IF n[1] = DOT THEN "dotname" ELSE "legal")
    ELSE IF LStrip(n) = n /\ IsLegal(Normalise(r)) THEN (IF r[1] = DOT THEN "dotname" ELSE "loose")   \* padded with blanks and/or over-long
    ELSE "illegal"

\* host names in a directory (set of names) that a DOS name d can denote
Cands(names, d) == {f \in names : f = d \/ (IsLegal(f) /\ Normalise(f) = Normalise(d))}

Ok(n)  == [ok |-> TRUE, code |-> 0, name |-> n]
Err(c) == [ok |-> FALSE, code |-> c, name |-> <<>>]

(* The native lookup order (DiskDevice._get_native_name + dos_to_native_name): `exact(x)` says whether host entry x of
   the wanted type exists, `entries` are the host names of the wanted type in the directory. *)
NativeNameG(entries, exact(_), e, defext, isdir, create) ==
    LET nerr == IF isdir THEN 76 ELSE 53 IN
    IF LStrip(e) # e THEN Err(IF AsCodedNames THEN nerr ELSE 64)
    ELSE LET n1 == WithDefExt(e, defext)
             sd == SingleDotEnd(n1)
         IN  IF sd /\ exact(n1) THEN Ok(n1)
             ELSE LET n2 == IF sd THEN Front(n1) ELSE n1 IN
                  IF exact(n2) THEN Ok(n2)
                  ELSE LET nn == Normalise(n2) IN
                       IF ~IsLegal(nn) THEN Err(64)
                       ELSE IF ~AsCodedNames /\ nn \notin {D1, D2} /\ nn # <<>> /\ nn[1] = DOT THEN Err(64)
                       ELSE IF exact(nn) THEN Ok(nn)
                       ELSE LET C == {f \in entries : IsLegal(f) /\ Normalise(f) = nn} IN
                            IF C # {} THEN Ok(LexMin(C))
                            ELSE IF create THEN Ok(nn) ELSE Err(nerr)

\* =========================================================================
\* Part 2: paths and the host file system
\* =========================================================================
\* host-level normalisation: "" and "." vanish, ".." removes the previous name (nothing above the top)
RECURSIVE HN(_, _, _)
HN(p, i, acc) == IF i > Len(p) THEN acc
                 ELSE IF p[i] = <<>> \/ p[i] = D1 THEN HN(p, i + 1, acc)
                 ELSE IF p[i] = D2 THEN HN(p, i + 1, IF acc = <<>> THEN acc ELSE Front(acc))
                 ELSE HN(p, i + 1, Append(acc, p[i]))
HostNorm(p) == HN(p, 1, <<>>)

Kind(fs, hp) == IF hp \in fs.files THEN "file"
                ELSE IF hp \in fs.dirs \/ hp = <<>>
                     THEN (IF \/ \E q \in fs.dirs : Len(q) = Len(hp) + 1 /\ IsPrefix(hp, q)
                              \/ \E q \in fs.files : Len(q) = Len(hp) + 1 /\ IsPrefix(hp, q) THEN "dir" ELSE "emptydir")
                     ELSE "none"
IsDir(fs, hp) == hp \in fs.dirs \/ hp = <<>>
Children(S, hp) == {Last(q) : q \in {x \in S : Len(x) = Len(hp) + 1 /\ IsPrefix(hp, x)}}

\* does a host operation of this kind on a target of this kind read, list, create, modify, rename or delete it?
Effective(op, kind) ==
    CASE op = "read"   -> kind = "file"
      [] op \in {"list", "chdir"} -> kind \in {"dir", "emptydir"}
      [] op = "write"  -> kind \in {"file", "none"}
      [] op = "mkdir"  -> kind = "none"
      [] op = "rmdir"  -> kind = "emptydir"
      [] op = "remove" -> kind = "file"
      [] op \in {"rename_from", "rename_to"} -> kind # "none"      \* kind of the SOURCE in both records
      [] OTHER -> TRUE
Inside(hp) == \E d \in DOMAIN Roots : IsPrefix(Roots[d], hp)
TouchedOK(T) == \A t \in T : Effective(t.op, t.kind) => Inside(t.path)

\* split a string at every occurrence of c (Python's bytes.split)
RECURSIVE SplitR(_, _, _, _, _)
SplitR(p, c, i, cur, acc) == IF i > Len(p) THEN Append(acc, cur)
                             ELSE IF p[i] = c THEN SplitR(p, c, i + 1, <<>>, Append(acc, cur))
                             ELSE SplitR(p, c, i + 1, Append(cur, p[i]), acc)
Split(p, c) == SplitR(p, c, 1, <<>>, <<>>)

\* ntpath.split on a string without drive: head (trailing separators removed unless it is nothing else) and tail
NtSplit(p) == LET I == {i \in 1..Len(p) : p[i] \in {BSL, SL}}
                  k == IF I = {} THEN 0 ELSE MaxOf(I)
                  head == SubSeq(p, 1, k)
                  J == {i \in 1..k : head[i] \notin {BSL, SL}}
              IN  <<IF J = {} THEN head ELSE SubSeq(head, 1, MaxOf(J)), SubSeq(p, k + 1, Len(p))>>

\* ntpath.normpath on the element list of a drive-less path: "" and "." vanish, ".." cancels a preceding name,
\* leading ".." are dropped at the root of an absolute path and kept on a relative one
RECURSIVE NP(_, _, _, _)
NP(es, i, acc, abs) ==
    IF i > Len(es) THEN acc
    ELSE IF es[i] = <<>> \/ es[i] = D1 THEN NP(es, i + 1, acc, abs)
    ELSE IF es[i] = D2
         THEN IF acc # <<>> /\ Last(acc) # D2 THEN NP(es, i + 1, Front(acc), abs)
              ELSE IF abs THEN NP(es, i + 1, acc, abs)
              ELSE NP(es, i + 1, Append(acc, D2), abs)
    ELSE NP(es, i + 1, Append(acc, es[i]), abs)

\* the repair: blanks after a dot-only element are dropped BEFORE the dot handling
DotFix(e) == IF ~AsCodedDots /\ RStrip(e) \in {D1, D2} THEN RStrip(e) ELSE e

DOk(rel)  == [ok |-> TRUE, code |-> 0, rel |-> rel]
DErr(c)   == [ok |-> FALSE, code |-> c, rel |-> <<>>]

NativeName(fs, hd, e, defext, isdir, create) ==
    LET exact(x) == LET q == HostNorm(hd \o <<x>>) IN IF isdir THEN IsDir(fs, q) ELSE q \in fs.files
    IN NativeNameG(Children(IF isdir THEN fs.dirs ELSE fs.files, hd), exact, e, defext, isdir, create)

\* walk down from host directory hd (unnormalised) along DOS elements; returns the native elements found
RECURSIVE Walk(_, _, _, _, _)
Walk(fs, hd, es, i, acc) ==
    IF i > Len(es) THEN DOk(acc)
    ELSE LET r == NativeName(fs, HostNorm(hd \o acc), es[i], <<>>, TRUE, FALSE)
         IN IF ~r.ok THEN DErr(r.code) ELSE Walk(fs, hd, es, i + 1, Append(acc, r.name))

LeadingDD(es) == LET I == {i \in 1..Len(es) : es[i] # D2} IN IF I = {} THEN Len(es) ELSE MinOf(I) - 1
DropLastN(s, n) == SubSeq(s, 1, IF Len(s) > n THEN Len(s) - n ELSE 0)

(* DiskDevice._get_native_reldir: the native directory, relative to the mount root, of DOS directory path p seen from
   cwd (both sequences of native names).  Leading ".." walk up cwd and are CLAMPED at the root. *)
ResolveDir(fs, root, cwd, p) ==
    IF SL \in Range(p) THEN DErr(52)
    ELSE LET abs == p # <<>> /\ p[1] = BSL
             raw == Split(p, BSL)
             es  == NP([i \in 1..Len(raw) |-> DotFix(raw[i])], 1, <<>>, abs)
             k   == LeadingDD(es)
             up  == DropLastN(IF abs THEN <<>> ELSE cwd, k)
             w   == Walk(fs, root \o up, SubSeq(es, k + 1, Len(es)), 1, <<>>)
         IN IF w.ok THEN DOk(up \o w.rel) ELSE w

POk(hp)  == [ok |-> TRUE, code |-> 0, path |-> hp]
PErr(c)  == [ok |-> FALSE, code |-> c, path |-> <<>>]
\* DiskDevice._get_native_abspath: the host path a DOS path denotes (directory part resolved, last element looked up)
AbsPath(fs, root, cwd, p, defext, isdir, create) ==
    LET sp == NtSplit(p)
        r  == ResolveDir(fs, root, cwd, sp[1])
    IN IF ~r.ok THEN PErr(r.code)
       ELSE IF sp[2] = <<>> THEN POk(HostNorm(root \o r.rel))
       ELSE LET hd == HostNorm(root \o r.rel)
                nn == NativeName(fs, hd, sp[2], defext, isdir, create)
            IN IF ~nn.ok THEN PErr(nn.code) ELSE POk(HostNorm(hd \o <<nn.name>>))

\* ---------------------------------------------------------------- statements
InStmts  == {"OPENI", "LOAD", "MERGE", "CHAIN", "RUN", "BLOAD"}
OutStmts == {"OPENO", "OPENA", "OPENR", "SAVE", "BSAVE"}
DirStmts == {"CHDIR", "MKDIR", "RMDIR", "FILES", "KILL", "NAME"}
Stmts    == InStmts \cup OutStmts \cup DirStmts
DefExtOf(s) == IF s \in {"LOAD", "MERGE", "CHAIN", "RUN", "BLOAD", "SAVE", "BSAVE"} THEN BAS ELSE <<>>

\* device prefix: everything before the first colon, in upper case
Parse(p) == LET c == FirstIdx(p, COLON)
            IN IF c = 0 THEN [dev |-> <<>>, hasdev |-> FALSE, rest |-> p]
               ELSE [dev |-> Upper(SubSeq(p, 1, c - 1)), hasdev |-> TRUE, rest |-> SubSeq(p, c + 1, Len(p))]
DriveOf(pp) == IF ~pp.hasdev THEN CurDrive
               ELSE IF Len(pp.dev) = 1 /\ pp.dev[1] \in DOMAIN Roots THEN pp.dev[1] ELSE 0

T(op, hp, kind) == [op |-> op, path |-> hp, kind |-> kind]
Res(st, ok, code, touched) == [st |-> st, ok |-> ok, code |-> code, touched |-> touched]
Fail(st, c) == Res(st, FALSE, c, {})

\* moving a directory moves everything below it
Moved(S, old, new) == {IF IsPrefix(old, q) THEN new \o SubSeq(q, Len(old) + 1, Len(q)) ELSE q : q \in S}

(* One BASIC file statement.  st = [fs, cwd] with cwd: drive -> sequence of native names relative to that drive's root;
   a = [stmt, path] (+ path2 for NAME).  Host operations fail without effect on a target of the wrong kind. *)
Apply(st, a) ==
    LET pp == Parse(a.path)
        dr == DriveOf(pp)
    IN
    IF a.path = <<>> THEN Fail(st, 64)
    ELSE IF dr = 0 THEN Fail(st, 68)
    ELSE
    LET fs == st.fs
        root == Roots[dr]
        cwd == st.cwd[dr]
        p == pp.rest
    IN
    CASE a.stmt = "CHDIR" ->
           LET r == ResolveDir(fs, root, cwd, p)
           IN IF r.ok THEN Res([st EXCEPT !.cwd[dr] = r.rel], TRUE, 0, {}) ELSE Fail(st, r.code)
      [] a.stmt = "MKDIR" ->
           LET r == AbsPath(fs, root, cwd, p, <<>>, TRUE, TRUE) IN
           IF ~r.ok THEN Fail(st, r.code)
           ELSE LET k == Kind(fs, r.path)
                    good == k = "none" /\ IsDir(fs, Front(r.path))
                IN Res(IF good THEN [st EXCEPT !.fs.dirs = @ \cup {r.path}] ELSE st, good, IF good THEN 0 ELSE 75,
                       {T("mkdir", r.path, k)})
      [] a.stmt = "RMDIR" ->
           LET r == AbsPath(fs, root, cwd, p, <<>>, TRUE, FALSE) IN
           IF ~r.ok THEN Fail(st, r.code)
           ELSE LET k == Kind(fs, r.path)
                    good == k = "emptydir" /\ r.path # <<>>
                IN Res(IF good THEN [st EXCEPT !.fs.dirs = @ \ {r.path}] ELSE st, good, IF good THEN 0 ELSE 75,
                       {T("rmdir", r.path, k)})
      [] a.stmt \in InStmts ->
           LET r == AbsPath(fs, root, cwd, p, DefExtOf(a.stmt), FALSE, FALSE) IN
           IF ~r.ok THEN Fail(st, r.code)
           ELSE LET k == Kind(fs, r.path)
                IN Res(st, k = "file", IF k = "file" THEN 0 ELSE 53, {T("read", r.path, k)})
      [] a.stmt \in OutStmts ->
           LET r == AbsPath(fs, root, cwd, p, DefExtOf(a.stmt), FALSE, TRUE) IN
           IF ~r.ok THEN Fail(st, r.code)
           ELSE LET k == Kind(fs, r.path)
                    good == k = "file" \/ (k = "none" /\ IsDir(fs, Front(r.path)))
                IN Res(IF good THEN [st EXCEPT !.fs.files = @ \cup {r.path}] ELSE st, good, IF good THEN 0 ELSE 53,
                       {T("write", r.path, k)})
      [] a.stmt \in {"FILES", "KILL"} ->
           IF SL \in Range(p) THEN Fail(st, 53)
           ELSE LET sp == NtSplit(p)
                    r  == ResolveDir(fs, root, cwd, sp[1])
                IN IF ~r.ok THEN Fail(st, 53)
                   ELSE LET hd == HostNorm(root \o r.rel)
                            k  == Kind(fs, hd)
                            ls == {T("list", hd, k)}
                        IN IF a.stmt = "FILES"
                           THEN IF sp[2] \in {D1, D2} THEN Res(st, TRUE, 0, {})
                                ELSE Res(st, k \in {"dir", "emptydir"}, 0, ls)
                           ELSE IF k \notin {"dir", "emptydir"} THEN Res(st, FALSE, 53, ls)
                                ELSE LET victims == {f \in Children(fs.files, hd) :
                                                        IsLegal(f) /\ Visible(f) /\ MaskMatches(Display(f), sp[2])}
                                     IN Res([st EXCEPT !.fs.files = @ \ {hd \o <<f>> : f \in victims}],
                                            victims # {}, IF victims # {} THEN 0 ELSE 53,
                                            ls \cup {T("remove", hd \o <<f>>, "file") : f \in victims})
      [] a.stmt = "NAME" ->
           LET pp2 == Parse(a.path2)
               dr2 == DriveOf(pp2)
               old == AbsPath(fs, root, cwd, p, <<>>, FALSE, FALSE)
           IN IF ~old.ok THEN Fail(st, old.code)
              ELSE IF dr2 = 0 THEN Fail(st, 68)
              ELSE IF dr2 # dr THEN Fail(st, 74)
              ELSE LET new == AbsPath(fs, root, cwd, pp2.rest, <<>>, FALSE, TRUE) IN
                   IF ~new.ok THEN Fail(st, new.code)
                   ELSE IF Kind(fs, new.path) # "none" THEN Fail(st, 58)
                   ELSE LET k == Kind(fs, old.path)
                            good == k # "none" /\ old.path # <<>> /\ ~IsPrefix(old.path, new.path)
                                    /\ IsDir(fs, Front(new.path))
                            tt == {T("rename_from", old.path, k), T("rename_to", new.path, k)}
                        IN IF ~good THEN Res(st, FALSE, 57, tt)
                           ELSE Res([st EXCEPT !.fs.files = Moved(@, old.path, new.path),
                                               !.fs.dirs = Moved(@, old.path, new.path)], TRUE, 0, tt)

\* ---------------------------------------------------------------- the C27 invariants
CwdInsideSt(st) == \A d \in DOMAIN Roots : IsPrefix(Roots[d], HostNorm(Roots[d] \o st.cwd[d]))
OutsideOf(fs) == [dirs |-> {q \in fs.dirs : ~Inside(q)}, files |-> {q \in fs.files : ~Inside(q)}]
=============================================================================
