SPECIFICATION Spec
CONSTANTS
  VarStart = 1000
  AsCoded = FALSE
  MaxScalars = 3
  MaxArrays = 2
  MaxOps = 99
VIEW View
INVARIANT FaithfulInv
INVARIANT TilesInv
INVARIANT ScalarAreaInv
PROPERTY Others
CHECK_DEADLOCK FALSE
