---------------------------- MODULE VideoSignals ----------------------------
(* The displayed picture equals the emulator's screen state (property C35).

   Both copies of the visible page are kept at CELL granularity.  A cell is
   <<txt, pix>>:
     txt  the character shown in the cell (a code point; 0 = second half of a
          double-width character)
     pix  the class of the cell's block of pixels: 0..255 = every pixel of the
          block has that attribute ("solid"), >= 256 = some other block (equal
          numbers <=> equal pixel blocks; the harness interns them)
   A canvas is a matrix cells[row][col] plus its geometry.

   CONSUMER: the reference display.  Apply(d, sg) is what a display does with
   one video signal; the semantics are those of the reference plug-ins
   (interface/video_sdl2.py for the pixels, interface/video_curses.py for the
   characters):
     mode(ph, pw, th, tw)              new zeroed canvas of th x tw cells
     update(row, col, cells, y0, x0, sh, sw)   put characters and pixels
     clear(back, a, b)                 rows a..b: blanks on attribute back
     scroll(dir, a, b, back)           dir = -1: rows a+1..b move up, row b is
                                       blank on back; dir = 1: rows a..b-1 move
                                       down, row a is blank on back
   Signals that do not touch the picture (cursor, palette, border, caption)
   are not part of the model.

   EMULATOR (reference model used by VideoSignals_MC): pages of cells, visible
   and active page, current attribute; every operation changes the page and
   emits the signals of pcbasic/basic/display/buffers.py.  The property is
        Consumer(applied to all emitted signals) = pages[vpage]
   after every operation.  AsCoded selects the scrolling as coded before the
   repair (vacated pixel rows become attribute 0, not the background).        *)
EXTENDS Integers, Sequences

CONSTANT AsCoded

Blank(a) == <<32, a>>
BlankRow(w, a) == [c \in 1..w |-> Blank(a)]
Cells(h, w, a) == [r \in 1..h |-> BlankRow(w, a)]

CeilDiv(a, b) == (a + b - 1) \div b
\* a consumer: geometry from the last mode signal + cells;  ok = FALSE once a signal could not be applied as sent
NoDisplay == [th |-> 0, tw |-> 0, ph |-> 0, pw |-> 0, fh |-> 1, fw |-> 1, cells |-> <<>>]

-----------------------------------------------------------------------------
(* consumer *)
ApplyMode(d, sg) ==
    [th |-> sg.th, tw |-> sg.tw, ph |-> sg.ph, pw |-> sg.pw,
     fh |-> CeilDiv(sg.ph, sg.th), fw |-> sg.pw \div sg.tw, cells |-> Cells(sg.th, sg.tw, 0)]

UpdH(sg) == Len(sg.cells)
UpdW(sg) == IF Len(sg.cells) = 0 THEN 0 ELSE Len(sg.cells[1])
\* the sprite of an update lies on the cell grid and covers exactly the cells it carries text for
\* (the bottom of the last text row may be cut off by the end of the canvas)
UpdateWellFormed(d, sg) ==
    /\ sg.row >= 1 /\ sg.col >= 1 /\ UpdH(sg) >= 1 /\ UpdW(sg) >= 1
    /\ sg.row + UpdH(sg) - 1 <= d.th /\ sg.col + UpdW(sg) - 1 <= d.tw
    /\ \A i \in 1..UpdH(sg) : Len(sg.cells[i]) = UpdW(sg)
    /\ sg.y0 = (sg.row - 1) * d.fh /\ sg.x0 = (sg.col - 1) * d.fw
    /\ sg.sw = UpdW(sg) * d.fw
    /\ sg.sh = (IF sg.y0 + UpdH(sg) * d.fh > d.ph THEN d.ph - sg.y0 ELSE UpdH(sg) * d.fh)
\* (rows and row segments are spliced with SubSeq and \o, which TLC evaluates to explicit tuples: cheap and not lazy)
ApplyUpdate(d, sg) ==
    LET newrow(i) == SubSeq(d.cells[sg.row + i - 1], 1, sg.col - 1) \o sg.cells[i]
                     \o SubSeq(d.cells[sg.row + i - 1], sg.col + UpdW(sg), d.tw)
    IN  [d EXCEPT !.cells = SubSeq(d.cells, 1, sg.row - 1) \o [i \in 1..UpdH(sg) |-> newrow(i)]
                            \o SubSeq(d.cells, sg.row + UpdH(sg), d.th)]

RowsWellFormed(d, a, b) == 1 <= a /\ a <= b /\ b <= d.th
ApplyClear(d, sg) ==
    [d EXCEPT !.cells = SubSeq(d.cells, 1, sg.a - 1) \o [r \in 1..(sg.b - sg.a + 1) |-> BlankRow(d.tw, sg.back)]
                        \o SubSeq(d.cells, sg.b + 1, d.th)]
ApplyScroll(d, sg) ==
    [d EXCEPT !.cells =
        IF sg.dir = -1
        THEN SubSeq(d.cells, 1, sg.a - 1) \o SubSeq(d.cells, sg.a + 1, sg.b) \o <<BlankRow(d.tw, sg.back)>>
             \o SubSeq(d.cells, sg.b + 1, d.th)
        ELSE SubSeq(d.cells, 1, sg.a - 1) \o <<BlankRow(d.tw, sg.back)>> \o SubSeq(d.cells, sg.a, sg.b - 1)
             \o SubSeq(d.cells, sg.b + 1, d.th)]

WellFormed(d, sg) ==
    CASE sg.t = "mode"   -> sg.th >= 1 /\ sg.tw >= 1 /\ sg.ph >= sg.th /\ sg.pw >= sg.tw
      [] sg.t = "update" -> \* (an update clipped to nothing - no columns or no rows, empty sprite - is a no-op)
                            IF UpdH(sg) = 0 \/ UpdW(sg) = 0 THEN sg.sw = 0 \/ sg.sh = 0
                            ELSE d.th >= 1 /\ UpdateWellFormed(d, sg)
      [] sg.t = "clear"  -> RowsWellFormed(d, sg.a, sg.b)
      [] sg.t = "scroll" -> RowsWellFormed(d, sg.a, sg.b) /\ sg.dir \in {-1, 1}
Apply(d, sg) ==
    CASE sg.t = "mode"   -> ApplyMode(d, sg)
      [] sg.t = "update" -> IF UpdH(sg) = 0 \/ UpdW(sg) = 0 THEN d ELSE ApplyUpdate(d, sg)
      [] sg.t = "clear"  -> ApplyClear(d, sg)
      [] sg.t = "scroll" -> ApplyScroll(d, sg)

\* apply a sequence of signals; a malformed one is skipped and remembered
RECURSIVE Consume(_, _, _, _)
Consume(d, sigs, i, bad) ==
    IF i > Len(sigs) THEN [d |-> d, bad |-> bad]
    ELSE IF WellFormed(d, sigs[i])
         THEN LET nx == Apply(d, sigs[i]) IN IF Len(nx.cells) = nx.th THEN Consume(nx, sigs, i + 1, bad) ELSE [d |-> d, bad |-> bad]
         ELSE Consume(d, sigs, i + 1, IF bad = 0 THEN i ELSE bad)

-----------------------------------------------------------------------------
(* emulator reference model (one video mode; H x W cells) *)
\* em = [pages, v, a, fore, back]
Render(ch, f, b) == IF ch = 32 \/ f = b THEN b ELSE 256 + 16 * f + b + 256 * ch     \* glyph ch in f on b
\* (the model's cells are one pixel large: the sprite geometry of an update follows from its cell rectangle)
Upd(row, col, cells) == [t |-> "update", row |-> row, col |-> col, cells |-> cells,
                         y0 |-> row - 1, x0 |-> col - 1, sh |-> Len(cells), sw |-> Len(cells[1])]
FullUpdate(page) == Upd(1, 1, page)

\* operations: each yields [em, sigs]
EmPut(em, r, c, ch) ==
    LET cell == <<ch, Render(ch, em.fore, em.back)>>
    IN  [em |-> [em EXCEPT !.pages[em.a][r][c] = cell],
         sigs |-> IF em.a = em.v THEN <<Upd(r, c, <<<<cell>>>>)>> ELSE <<>>]
EmPixels(em, r0, c0, r1, c1, id) ==       \* a graphics operation touching the cells r0..r1 x c0..c1
    LET pg == [r \in 1..Len(em.pages[em.a]) |-> [c \in 1..Len(em.pages[em.a][r]) |->
                 IF r >= r0 /\ r <= r1 /\ c >= c0 /\ c <= c1 THEN <<32, id>> ELSE em.pages[em.a][r][c]]]
    IN  [em |-> [em EXCEPT !.pages[em.a] = pg],
         sigs |-> IF em.a = em.v
                  THEN <<Upd(r0, c0, [r \in 1..(r1 - r0 + 1) |-> [c \in 1..(c1 - c0 + 1) |-> <<32, id>>]])>>
                  ELSE <<>>]
EmClear(em, a, b) ==
    LET pg == em.pages[em.a]
        w  == Len(pg[1])
    IN  [em |-> [em EXCEPT !.pages[em.a] = [r \in 1..Len(pg) |-> IF r >= a /\ r <= b THEN BlankRow(w, em.back) ELSE pg[r]]],
         sigs |-> IF em.a = em.v THEN <<[t |-> "clear", back |-> em.back, a |-> a, b |-> b]>> ELSE <<>>]
EmScroll(em, dir, a, b) ==
    LET pg  == em.pages[em.a]
        w   == Len(pg[1])
        \* the character row that enters is blank in the current attribute; its pixels:
        new == BlankRow(w, IF AsCoded THEN 0 ELSE em.back)
        \* as coded a single-row scroll does not touch the pixel buffer at all: the old pixels stay under blank characters
        keep(r) == [c \in 1..w |-> <<32, pg[r][c][2]>>]
    IN  [em |-> [em EXCEPT !.pages[em.a] = [r \in 1..Len(pg) |->
                    IF r < a \/ r > b THEN pg[r]
                    ELSE IF AsCoded /\ a = b THEN keep(r)
                    ELSE IF dir = -1 THEN (IF r < b THEN pg[r + 1] ELSE new)
                    ELSE (IF r > a THEN pg[r - 1] ELSE new)]],
         sigs |-> IF em.a = em.v THEN <<[t |-> "scroll", dir |-> dir, a |-> a, b |-> b, back |-> em.back]>> ELSE <<>>]
EmSetPage(em, v, a) ==
    [em |-> [em EXCEPT !.v = v, !.a = a],
     sigs |-> IF v # em.v THEN <<FullUpdate(em.pages[v])>> ELSE <<>>]
EmCopyPage(em, src, dst) ==
    [em |-> [em EXCEPT !.pages[dst] = em.pages[src]],
     sigs |-> IF dst = em.v THEN <<FullUpdate(em.pages[src])>> ELSE <<>>]
EmSetAttr(em, f, b) == [em |-> [em EXCEPT !.fore = f, !.back = b], sigs |-> <<>>]
=============================================================================
