------------------------------ MODULE Paint_MC ------------------------------
(* (1) Oracle self-check: the fixpoint laws of Region on EVERY border bitmap
       of a W x H grid and every seed (least fixed point: contains the seed iff
       open, only open cells, closed under open 4-neighbours; on grids of at most 9 cells also: every
       cell of the region generates the same region, and the region is contained
       in every other closed set).
   (2) Case generator: every (bitmap, seed) of the enumeration is printed as
       JSON; the harness draws each on the real screen inside a VIEW of that
       size, PAINTs it and lets Paint_Trace judge the result.
   Bitmaps are numbered: cell <<x, y>> is a border pixel iff bit x + W*y of n
   is set; Stride/Phase select the residue class n % Stride = Phase, Seeds
   the seed positions (index x + W*y).                                      *)
EXTENDS Paint, TLC, Json
CONSTANTS W, H, Stride, Phase, SeedIdx
VARIABLES n, s

RECURSIVE Pow2(_)
Pow2(k) == IF k = 0 THEN 1 ELSE 2 * Pow2(k - 1)
Bit(m, k) == (m \div Pow2(k)) % 2
Grid(m) == [y \in 1..H |-> [x \in 1..W |-> Bit(m, (x - 1) + W * (y - 1))]]
SeedOf(i) == <<i % W, i \div W>>

Init == n \in {m \in 0..Pow2(W * H) - 1 : m % Stride = Phase} /\ s \in SeedIdx
Next == UNCHANGED <<n, s>>
Spec == Init /\ [][Next]_<<n, s>>

g == Grid(n)
R == Region(g, 1, SeedOf(s))
OpenCells == {p \in Cells(g) : At(g, p) # 1}
ClosedSet(S) == \A p \in S : \A q \in Nbr4(p) : Open(g, 1, q) => q \in S
FixpointLaws ==
    /\ (SeedOf(s) \in R) = Open(g, 1, SeedOf(s))
    /\ R \subseteq OpenCells
    /\ ClosedSet(R)
    \* (the two expensive laws on grids of at most 9 cells only)
    /\ W * H <= 9 => \A p \in R : Region(g, 1, p) = R          \* every cell of the region generates the same region
    /\ W * H <= 9 => \A S \in SUBSET OpenCells : (SeedOf(s) \in S /\ ClosedSet(S)) => R \subseteq S      \* least
Emit == PrintT(<<"CASE", ToJson([n |-> n, seed |-> SeedOf(s), grid |-> g])>>)
=============================================================================
