------------------------------ MODULE Interp_MC_while ------------------------------
EXTENDS Interp_MCF
VARIABLES s, hist
INSTANCE Interp_MCrun WITH Family <- WhileFamily
=============================================================================
