SPECIFICATION Spec
CONSTANTS
  FileNums = {1}
  Names = {"A"}
  AsCoded = FALSE
  RecLens = {1, 2, 3}
  MaxRec = 5
  Contents = {1, 2}
  MaxOps = 8
  BadRecs = {0, 33554433}
VIEW View
INVARIANT RecordsInv
INVARIANT LofInv
INVARIANT ShapeInv
PROPERTY GetYieldsLastPut
PROPERTY LocIsLastAccessed
PROPERTY Isolation
CHECK_DEADLOCK FALSE
