SPECIFICATION Spec
CONSTANTS
  CodeStart = 4717
  Keys = {1}
  AsCoded = FALSE
  LineNums = {10, 20, 65529}
  Targets = {10, 25}
  MaxLines = 3
  TrapCheck = TRUE
  Emitting = TRUE
  ArgNew <- NewE
  ArgOld <- OldE
  ArgInc <- IncE
ACTION_CONSTRAINT EmitR
CHECK_DEADLOCK FALSE
