SPECIFICATION Spec
CONSTANTS
  FileNums = {1, 2}
  Names = {"A", "B"}
  MaxLen = 3
  AsCoded = FALSE
  Strings <- StringsSmall
  Numbers <- NumbersSmall
  PLines <- PLinesSmall
  MaxItems = 2
  MaxOps = 6
VIEW View
INVARIANT ReadsInOrder
INVARIANT EofExact
INVARIANT LofIsBytes
INVARIANT FormatRoundTrips
PROPERTY AppendExtends
CHECK_DEADLOCK FALSE
