----------------------------- MODULE C18_Trace -----------------------------
(* Trace validation for C18.  Each event is one expression text produced by
   Expr_Gen from a tree, fed to the real interpreter:
      {t: tree, style, x: text, obs: observation}
   obs: {k: "num", ty: "%"|"!"|"#"|"?", py: "int"|"float", n, d}  value n/d (exact), BASIC type of the
                                           result of the expression evaluator, Python type returned by Session.evaluate
        {k: "str", s: [codes]} | {k: "err", code} | {k: "internal"} | {k: "numbig"} | {k: "other"}
   ty = "?" : observation made through PRINT (value only).
   TLC recomputes text, value and type from the tree with the operators of Expr.tla and judges.
   (That the text parses back to the tree is an invariant of the generator run, Expr_Gen!RoundTrip.)      *)
EXTENDS Expr, TraceBase
VARIABLES l, viol

V(e) == IF Render(e.t, e.style) # e.x THEN "text_is_not_the_rendering_of_the_tree"
        ELSE Judge(e.t, e.style, e.obs)

INSTANCE OracleTrace WITH Verdict <- V
=============================================================================
