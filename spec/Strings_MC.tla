----------------------------- MODULE Strings_MC -----------------------------
(* Oracle self-check for Strings.tla: every law below is evaluated by TLC for ALL
   strings s, t (u) over the alphabet Alpha up to length MaxL (MaxU) and all small integer
   arguments n, p (TLC enumerates them as initial states).  Most reference
   definitions are confronted with a second, independently written definition.  *)
EXTENDS Strings, TLC
CONSTANTS Alpha, MaxL, MaxU
VARIABLES s, t, u, n, p

Strs == UNION {[1..k -> Alpha] : k \in 0..MaxL}
Init == s \in Strs /\ t \in Strs /\ u \in {x \in Strs : Len(x) <= MaxU} /\ n \in -1..(MaxL + 2) /\ p \in -1..(MaxL + 2)
Next == UNCHANGED <<s, t, u, n, p>>
Spec == Init /\ [][Next]_<<s, t, u, n, p>>

IsPrefix(a, b) == Len(a) <= Len(b) /\ \A i \in 1..Len(a) : a[i] = b[i]
IsSuffix(a, b) == Len(a) <= Len(b) /\ \A i \in 1..Len(a) : a[i] = b[Len(b) - Len(a) + i]

LeftRightLaw == n >= 0 =>
    /\ Len(Left(s, n)) = Min2(n, Len(s)) /\ IsPrefix(Left(s, n), s)
    /\ Len(Right(s, n)) = Min2(n, Len(s)) /\ IsSuffix(Right(s, n), s)
    /\ (n <= Len(s) => Left(s, n) \o Right(s, Len(s) - n) = s)

MidAlt(a, q, m) == [i \in 1..Max2(0, Min2(m, Len(a) - q + 1)) |-> a[q + i - 1]]
MidLaw == (p >= 1 /\ n >= 0) =>
    /\ Mid(s, p, n) = MidAlt(s, p, n)
    /\ Mid(s, 1, n) = Left(s, n)
    /\ Mid(s, p, MaxLen) = Right(s, Max2(0, Len(s) - p + 1))
    /\ Left(s, p - 1) \o Mid(s, p, n) \o Mid(s, p + n, MaxLen) = s

\* scanning definition of INSTR, as an interpreter would do it
RECURSIVE Scan(_, _, _)
Scan(big, small, q) ==
    IF q + Len(small) - 1 > Len(big) THEN 0
    ELSE IF SubSeq(big, q, q + Len(small) - 1) = small THEN q
    ELSE Scan(big, small, q + 1)
InstrAlt(start, big, small) == IF Len(big) = 0 \/ start > Len(big) THEN 0 ELSE Scan(big, small, start)
InstrLaw == p >= 1 =>
    LET r == Instr(p, s, t)
    IN  /\ r = InstrAlt(p, s, t)
        /\ r = 0 \/ (r >= p /\ r <= Len(s) /\ OccursAt(s, t, r) /\ \A q \in p..(r - 1) : ~OccursAt(s, t, q))
        /\ r = 0 => (Len(s) = 0 \/ p > Len(s) \/ \A q \in p..Len(s) : ~OccursAt(s, t, q))
        /\ (Len(t) = 0 /\ p <= Len(s)) => r = p
        /\ (p = 1 /\ Len(u) + Len(t) > 0) => Instr(1, u \o t \o s, t) \in 1..(Len(u) + 1)

LessAlt(a, b) == \E k \in 1..(Min2(Len(a), Len(b)) + 1) :
                    /\ \A i \in 1..(k - 1) : a[i] = b[i]
                    /\ IF k <= Len(a) /\ k <= Len(b) THEN a[k] < b[k] ELSE k > Len(a) /\ k <= Len(b)
OrderLaw ==
    /\ StrLess(s, t) = LessAlt(s, t)
    /\ StrEq(s, t) = (s = t)
    /\ Cardinality({x \in {1, 2, 3} : (x = 1 /\ StrLess(s, t)) \/ (x = 2 /\ StrEq(s, t)) \/ (x = 3 /\ StrLess(t, s))}) = 1
    /\ (StrLess(s, t) /\ StrLess(t, u)) => StrLess(s, u)
    /\ StrLess(s, s \o t) = (Len(t) > 0)
    /\ (StrLess(s, t)) => (StrLess(u \o s, u \o t))

ConcatLaw ==
    /\ Len(Concat(s, t)) = Len(s) + Len(t)
    /\ Left(Concat(s, t), Len(s)) = s /\ Right(Concat(s, t), Len(t)) = t
    /\ Concat(Concat(s, t), u) = Concat(s, Concat(t, u))

MidSetLaw == (p >= 1 /\ p <= Len(s) /\ n >= 0) =>
    LET k == Min2(Min2(n, Len(t)), Len(s) - p + 1)
        r == MidSet(s, p, n, t)
        f == MidSetSelfForward(s, p, n)
        ks == Min2(n, Len(s) - p + 1)
    IN  /\ Len(r) = Len(s) /\ Len(f) = Len(s)
        /\ r = Left(s, p - 1) \o Left(t, k) \o Mid(s, p + k, MaxLen)
        /\ Mid(r, p, k) = Left(t, k)
        \* forward self copy: the first p-1 bytes are repeated periodically over the replaced window
        /\ \A i \in 1..Len(s) :
              f[i] = IF i >= p /\ i < p + ks /\ p > 1 THEN s[((i - p) % (p - 1)) + 1] ELSE s[i]
        /\ (ks <= p - 1) => f = MidSet(s, p, n, s)
        /\ (p = 1) => (f = s /\ MidSet(s, p, n, s) = s)

JustifyLaw ==
    LET k == Min2(Len(t), Len(s))
    IN  /\ Len(LSet(s, t)) = Len(s) /\ Len(RSet(s, t)) = Len(s)
        /\ LSet(s, t) = Left(t \o Space(Len(s)), Len(s))
        /\ RSet(s, t) = Space(Len(s) - k) \o Left(t, k)
        /\ LSet(s, s) = s /\ RSet(s, s) = s

StringLaw == n >= 0 =>
    /\ Len(StringS(n, p)) = n /\ \A i \in 1..n : StringS(n, p)[i] = p
    /\ Space(n) = StringS(n, 32)
    /\ (Len(s) > 0) => Eval([t |-> "f", op |-> "string", a |-> <<[t |-> "n", v |-> <<n, 1>>], [t |-> "s", v |-> s]>>]).v
                         = [i \in 1..n |-> s[1]]

\* Eval agrees with the direct definitions and propagates errors
Leaf(x) == [t |-> "s", v |-> x]
Num(x)  == [t |-> "n", v |-> <<x, 1>>]
Half(x) == [t |-> "n", v |-> <<2 * x + 1, 2>>]      \* x + 1/2
F(op, a) == [t |-> "f", op |-> op, a |-> a]
EvalLaw ==
    /\ LET r == Eval(F("left", <<Leaf(s), Num(n)>>))
       IN IF n < 0 THEN r.k = "e" /\ r.v = {ErrIFC} ELSE r.k = "s" /\ r.v = Left(s, n)
    /\ LET r == Eval(F("mid", <<Leaf(s), Num(p), Num(n)>>))
       IN IF n < 0 \/ p < 1 THEN r.k = "e" /\ r.v = {ErrIFC} ELSE r.k = "s" /\ r.v = Mid(s, p, n)
    /\ LET r == Eval(F("mid", <<Leaf(s), Half(p)>>))          \* p + 1/2 rounds away from zero
       IN IF p >= 0 THEN r.k = "s" /\ r.v = Mid(s, p + 1, MaxLen)
          ELSE IF p = -1 THEN r.k = "e" ELSE TRUE
    /\ LET r == Eval(F("instr", <<Num(p), Leaf(s), F("left", <<Leaf(t), Num(n)>>)>>))
       IN IF n < 0 \/ p < 1 THEN r.k = "e" ELSE r.k = "n" /\ r.v = <<Instr(p, s, Left(t, n)), 1>>
    /\ LET r == Eval(F("asc", <<Leaf(s)>>))
       IN IF Len(s) = 0 THEN r.k = "e" ELSE r.v = <<s[1], 1>>
    /\ Eval(F("len", <<F("cat", <<Leaf(s), Leaf(t)>>)>>)).v = <<Len(s) + Len(t), 1>>
    /\ Eval(F("lt", <<Leaf(s), Leaf(t)>>)).v = <<IF StrLess(s, t) THEN -1 ELSE 0, 1>>
    /\ Eval(F("ge", <<Leaf(s), Leaf(t)>>)).v = <<IF StrLess(s, t) THEN 0 ELSE -1, 1>>
    /\ Eval(F("chr", <<Num(n)>>)).k = IF n < 0 THEN "e" ELSE "s"

StmtLaw ==
    LET r == MidStmt(s, <<NVal(<<p, 1>>), NVal(<<n, 1>>)>>, SVal(t), FALSE)
        q == MidStmt(s, <<NVal(<<p, 1>>)>>, SVal(s), TRUE)
    IN  /\ (n < 0) => r.must = {ErrIFC}
        /\ (n > 0 /\ (p < 1 \/ p > Len(s))) => r.must = {ErrIFC}
        /\ (n = 0) => (r.must = {} /\ r.vals = {s})
        /\ (n > 0 /\ p >= 1 /\ p <= Len(s)) => (r.must = {} /\ r.may = {} /\ r.vals = {MidSet(s, p, n, t)})
        /\ \A x \in r.vals \cup q.vals : Len(x) = Len(s)
        /\ (p >= 1 /\ p <= Len(s)) => Cardinality(q.vals) \in {1, 2}
        /\ JustStmt("lset", s, SVal(t)).vals = {LSet(s, t)}
        /\ JustStmt("rset", s, [k |-> "e", v |-> {ErrTooLong}, may |-> {}]).must = {ErrTooLong}

\* CINT: nearest integer, halves away from zero (constant-level law)
ASSUME \A m \in -40..40 : \A d \in {1, 2, 4, 8} :
    LET c == Cint(<<m, d>>)
    IN  /\ 2 * Abs(c * d - m) <= d
        /\ (2 * Abs(c * d - m) = d) => Abs(c) * d > Abs(m)
        /\ Sgn(c) \in {0, Sgn(m)}
ASSUME Cint(<<5, 2>>) = 3 /\ Cint(<<-5, 2>>) = -3 /\ Cint(<<-1, 4>>) = 0 /\ Cint(<<65535, 2>>) = 32768
ASSUME Eval(F("cat", <<Leaf(StringS(200, 65)), Leaf(StringS(56, 66))>>)).v = {ErrTooLong}
ASSUME Eval(F("left", <<Leaf(<<97, 98, 99>>), [t |-> "n", v |-> <<32768, 1>>]>>)).v = {ErrIFC, ErrOverflow}
ASSUME MidSetSelfForward(<<97, 98, 99, 100, 101, 102>>, 2, 255) = <<97, 97, 97, 97, 97, 97>>
ASSUME MidSet(<<97, 98, 99, 100, 101, 102>>, 2, 255, <<97, 98, 99, 100, 101, 102>>) = <<97, 97, 98, 99, 100, 101>>
=============================================================================
