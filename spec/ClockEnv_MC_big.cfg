SPECIFICATION Spec
CONSTANTS
  Alphabet = {48, 50, 54, 57, 58, 45, 43, 32}
  MaxLen = 5
INVARIANT Calendar
INVARIANT Grammar
