SPECIFICATION Spec
CONSTANTS
  XPairs <- XP_emit
  YPairs <- YP_emit
  PageArgs <- PA_emit
  Decos = {"none", "both"}
  DrawReqs = {"inside", "cross", "outside"}
VIEW View
INVARIANT InvViewInScreen
ACTION_CONSTRAINT Emit
