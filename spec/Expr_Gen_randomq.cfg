SPECIFICATION Spec
CONSTANTS
  Family = "random"
  MaxDepth = 5
  NRandom = 3000
  MaxOps = 99
  Positional = FALSE
INVARIANT RoundTrip
CHECK_DEADLOCK FALSE
