------------------------------ MODULE Interp_MC_data ------------------------------
EXTENDS Interp_MCF
VARIABLES s, hist
INSTANCE Interp_MCrun WITH Family <- DataFamily \cup BadDataFamily \cup PartReadFamily
=============================================================================
