---------------------------- MODULE SessionModes ----------------------------
(* Abstract session modes x statement catalogue (property C01).

   The model cannot predict Python exceptions; its job is GENERATION WITH
   STATE: the reachable graph of the abstract session state under the
   catalogue's statements gives every (abstract state, statement, argument
   class tuple) transition up to a depth bound.  Each transition is executed
   on a real Session brought into that abstract state; the property is
   decided by SessionModes_Trace on the recorded outcome:

       OutcomeOK(kind) == kind \in {"ok", "err", "exit"}

   (ok / BASIC error / normal exit; an escaping host exception is "internal").
   Where the catalogue defines an abstract effect, Effect(st, it) is the
   post-state a successful execution must project to.

   Abstract state (record):
     mode   "direct" | "run"          statement typed at the prompt / executed inside a program
     prog   BOOLEAN                   a program is in memory
     trap   "none" | "set" | "inHandler"   ON ERROR GOTO
     prot   BOOLEAN                   program loaded from a protected file
     files  <<m1, m2, m3>>            file numbers 1..3: "closed" | "I" | "O" | "A" | "R"
     screen 0 | 1 | 2                 SCREEN mode class (text, 4-colour, 2-colour graphics of the CGA)
     view, window  BOOLEAN            a graphics viewport / logical window is set
     ev     BOOLEAN                   an event trap (ON TIMER .. : TIMER ON) is active
     seg    "data" | "zero" | "video" | "rom"   DEF SEG class
   Catalogue (constant Cat, read from catalogue.json): Cat.classes[k] = representatives of
   argument class kind k, Cat.nominal[k] = 0-based index of the nominal one, Cat.items = sequence of
   [name, kind, tmpl, slots, needs, flags, eff |-> [op, m, n]].                                *)
EXTENDS Integers, Sequences, FiniteSets, TLC, Json

\* the catalogue constant (the file lives next to the specification; TLC is started in /verif/spec)
Cat == JsonDeserialize("catalogue.json")

Modes   == {"closed", "I", "O", "A", "R"}
Dims    == {"prog", "trap", "prot", "files", "screen", "view", "window", "ev", "seg"}
Default == [mode |-> "direct", prog |-> FALSE, trap |-> "none", prot |-> FALSE,
            files |-> <<"closed", "closed", "closed">>, screen |-> 0, view |-> FALSE, window |-> FALSE,
            ev |-> FALSE, seg |-> "data"]

TypeOK(st) ==
    /\ st.mode \in {"direct", "run"} /\ st.prog \in BOOLEAN /\ st.trap \in {"none", "set", "inHandler"}
    /\ st.prot \in BOOLEAN /\ st.files \in [1..3 -> Modes] /\ st.screen \in 0..2
    /\ st.view \in BOOLEAN /\ st.window \in BOOLEAN /\ st.ev \in BOOLEAN
    /\ st.seg \in {"data", "zero", "video", "rom"}
\* what the skeletons can realise: a running program exists; a handler only runs inside a program;
\* an error trap needs a program line to point to; viewport and window exist in graphics modes only
Consistent(st) ==
    /\ (st.mode = "run" => st.prog)
    /\ (st.trap = "inHandler" => st.mode = "run")
    /\ (st.trap # "none" => st.prog)
    /\ (st.prot => st.prog)
    /\ ((st.view \/ st.window) => st.screen # 0)

Items == 1..Len(Cat.items)
Item(i) == Cat.items[i]
HasFlag(it, f) == \E k \in 1..Len(it.flags) : it.flags[k] = f
NeedsDim(it, d) == \E k \in 1..Len(it.needs) : it.needs[k] = d

\* ----- the property
OutcomeOK(kind) == kind \in {"ok", "err", "exit"}

\* ----- abstract effect of a statement that succeeded ("none": state unchanged as far as the model knows)
Closed3 == <<"closed", "closed", "closed">>
HasEffect(it) == it.eff.op # "none"
Effect(st, it) ==
    LET e == it.eff IN
    CASE e.op = "open"     -> IF st.files[e.n] = "closed" THEN [st EXCEPT !.files[e.n] = e.m] ELSE st
      [] e.op = "close"    -> [st EXCEPT !.files[e.n] = "closed"]
      [] e.op = "closeall" -> [st EXCEPT !.files = Closed3]
      [] e.op = "new"      -> [st EXCEPT !.prog = FALSE, !.prot = FALSE, !.trap = "none", !.ev = FALSE]
      [] e.op = "load"     -> [st EXCEPT !.files = Closed3, !.prog = TRUE, !.prot = FALSE, !.trap = "none", !.ev = FALSE]
      [] e.op = "loadprot" -> [st EXCEPT !.files = Closed3, !.prog = TRUE, !.prot = TRUE, !.trap = "none", !.ev = FALSE]
      [] e.op = "trapset"  -> IF st.trap = "none" THEN [st EXCEPT !.trap = "set"] ELSE st
      [] e.op = "trapoff"  -> IF st.trap = "set" THEN [st EXCEPT !.trap = "none"] ELSE st
      [] e.op = "error"    -> IF st.trap = "set" /\ st.mode = "run" THEN [st EXCEPT !.trap = "inHandler"] ELSE st
      [] e.op = "resume"   -> IF st.trap = "inHandler" THEN [st EXCEPT !.trap = "set"] ELSE st
      [] e.op = "screen"   -> IF e.n = st.screen THEN st ELSE [st EXCEPT !.screen = e.n, !.view = FALSE, !.window = FALSE]
      [] e.op = "view"     -> [st EXCEPT !.view = (e.m = "on")]
      [] e.op = "window"   -> [st EXCEPT !.window = (e.m = "on")]
      [] e.op = "evon"     -> [st EXCEPT !.ev = TRUE]
      [] e.op = "evoff"    -> [st EXCEPT !.ev = FALSE]
      [] e.op = "seg"      -> [st EXCEPT !.seg = e.m]
      [] OTHER -> st
\* abstract enabling condition: when the reference model lets an effectful statement succeed (used for generation only)
EffEnabled(st, it) ==
    LET e == it.eff IN
    CASE e.op = "open"     -> st.files[e.n] = "closed"
      [] e.op \in {"trapset", "evon"} -> st.prog
      [] e.op \in {"load", "loadprot", "new"} -> st.mode = "direct"
      [] e.op = "error"    -> st.trap = "set" /\ st.mode = "run"
      [] e.op = "resume"   -> st.trap = "inHandler"
      [] e.op \in {"view", "window"} -> st.screen # 0
      [] OTHER -> TRUE
\* dimensions of the post-state the model does not fix (GW-BASIC's NEW closes all files, the pinned code leaves them open:
\* a matter for C23, not for C01, so the file table after NEW is not compared)
Unfixed(it) == IF it.eff.op = "new" THEN {"files"} ELSE {}
EffectOK(st, it, post) ==
    LET want == Effect(st, it) IN
    \A d \in (Dims \cup {"mode"}) \ Unfixed(it) : post[d] = want[d]
\* what a trace may demand of the projected post-state: only for direct-mode statements that reported success,
\* in the dimensions the projection can see (trap "inHandler" and mode never change in direct mode)
EffectChecked(st, it) == HasEffect(it) /\ st.mode = "direct" /\ EffEnabled(st, it)

\* ----- argument class tuples (1-based class indices per slot)
NSlots(it) == Len(it.slots)
Size(it, k) == Len(Cat.classes[it.slots[k]])
Nom(it, k)  == Cat.nominal[it.slots[k]] + 1
MaxClasses == 19
InRange(it, a)   == \A k \in 1..NSlots(it) : a[k] <= Size(it, k)
AllTuples(it)    == {a \in [1..NSlots(it) -> 1..MaxClasses] : InRange(it, a)}
NominalTuple(it) == [k \in 1..NSlots(it) |-> Nom(it, k)]
\* every slot varied over all its classes while the others stay nominal
SingleTuples(it) == {a \in {[NominalTuple(it) EXCEPT ![k] = c] : k \in 1..NSlots(it), c \in 1..MaxClasses} : InRange(it, a)}
\* all slots moved together (the c-th class of each slot, capped)
Min(a, b) == IF a < b THEN a ELSE b
DiagTuples(it)   == {[k \in 1..NSlots(it) |-> Min(c, Size(it, k))] : c \in 1..MaxClasses}
ArgTuples(it, full) ==
    IF NSlots(it) = 0 THEN {<<>>}
    ELSE IF NSlots(it) = 1 \/ (full /\ NSlots(it) = 2) THEN AllTuples(it)
    ELSE SingleTuples(it) \cup DiagTuples(it)

\* a statement is worth executing in st when st differs from the default only in dimensions it is sensitive to
\* (the mode is always varied; the handler state only for statements sensitive to the trap)
Relevant(st, it) ==
    \A d \in Dims : NeedsDim(it, d) \/ st[d] = Default[d]
                    \/ (d = "prog" /\ st.mode = "run")
=============================================================================
