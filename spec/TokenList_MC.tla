---------------------------- MODULE TokenList_MC ----------------------------
(* Enumerates the language of the statement grammar of TokenList.tla: every
   sequence of token classes of length <= MaxLen the automaton can read; each
   sequence that is a complete line is emitted as a SHAPE for the replayer
   (which instantiates it with concrete keywords, numbers of every class,
   names, strings, random capitalisation and optional blanks).  With
   `-simulate` the same module produces random longer shapes.
   Sanity invariants: the automaton is deterministic by construction; what is
   checked here is that the canonical separator relation is total on the
   grammar (no junction the spelling rules do not cover) and that every
   keyword class is reachable (vacuity guard via coverage in the driver).    *)
EXTENDS TokenList, TLC, Json
CONSTANT MaxLen
VARIABLES q, shape
vars == <<q, shape>>

Init == q = Q0 /\ shape = <<>>
Next == /\ Len(shape) < MaxLen
        /\ \E k \in Classes : /\ Delta(q, k) # Bad
                              /\ q' = Delta(q, k)
                              /\ shape' = Append(shape, k)
Spec == Init /\ [][Next]_vars

\* every reachable prefix is readable again by the run function (Delta and RunFrom agree)
RunAgrees == RunFrom(Q0, shape, 1) = q
\* the separator relation is defined for every junction of the grammar
SepTotal == \A i \in 1..Len(shape) : Sep(IF i = 1 THEN "" ELSE shape[i - 1], shape[i]) \in {"req", "opt", "no"}
\* a comment or DATA text is always directly preceded by its keyword
TailAfterKeyword == \A i \in 1..Len(shape) : (shape[i] = "TAIL" => i > 1 /\ shape[i - 1] \in {"REM", "QREM"})
                                             /\ (shape[i] = "DTAIL" => i > 1 /\ shape[i - 1] = "DATA")
\* a complete line: its classes and the separator demanded before each token
SepsOf(ks) == [i \in 1..Len(ks) |-> Sep(IF i = 1 THEN "" ELSE ks[i - 1], ks[i])]
Emit == (Accepting(q') => PrintT(<<"SHAPE", ToJson(<<shape', SepsOf(shape')>>)>>))
\* the keyword classes of every dialect, for the replayer (printed once)
ClassTable == [d \in Dialects |-> [id \in KeywordsUsed(d) |-> KwClass(d, id)]]
ASSUME PrintT(<<"KWCLASSES", ToJson(ClassTable)>>)
=============================================================================
