SPECIFICATION Spec
CONSTANTS
  AsCoded = TRUE
  MaxDepth = 4
INVARIANT NoLeak
CHECK_DEADLOCK FALSE
