SPECIFICATION TSpec
CONSTANT AsCoded = FALSE
INVARIANT TDone
CHECK_DEADLOCK FALSE
