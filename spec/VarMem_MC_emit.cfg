SPECIFICATION Spec
CONSTANTS
  VarStart = 1000
  AsCoded = FALSE
  MaxScalars = 2
  MaxArrays = 2
  MaxOps = 4
VIEW ViewD
INVARIANT FaithfulInv
INVARIANT TilesInv
INVARIANT ScalarAreaInv
CHECK_DEADLOCK FALSE
ACTION_CONSTRAINT Emit
