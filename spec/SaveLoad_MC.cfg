SPECIFICATION Spec
CONSTANTS
  Alphabet = {0, 26, 65, 255}
  MaxLen = 5
  AsCoded = FALSE
INVARIANT RoundTrip
INVARIANT Verdict
INVARIANT PIsCipherOfB
