SPECIFICATION TSpec
CONSTANTS
  Roots <- HdrRoots
  CurDrive <- HdrCur
  AsCodedDots = FALSE
  AsCodedNames = TRUE
INVARIANT TDone
CHECK_DEADLOCK FALSE
