SPECIFICATION OSpec
INVARIANT ODone
CHECK_DEADLOCK FALSE
