------------------------------- MODULE DosNames -------------------------------
(* C28: DOS file names map to host files consistently.  One directory on a
   native mount; D is its content as a set of <<host name, content id>>,
   `born` remembers under which DOS name(s) BASIC created each host file:
   a set of <<host name, DOS name>> (DOS name = the name given, trailing
   blanks dropped, .BAS added for program files exactly when it has no dot).

   Judge(D, born, e) is the property: it names the clause an observed
   operation e violates, or "ok".  Where the statement is silent (names
   padded with blanks or longer than 8.3, which DOS truncates; names with an
   empty trunk; "", ".", ".."; outcomes of failing operations other than the
   error number for illegal names) any outcome is accepted.  It is used by
   DosNames_Trace on the real interpreter and by DosNames_MC on the reference
   lookup of DosPath (NativeNameG).

   events  create: {op, kind, n, cid, ok, code, dir}      OPEN n FOR OUTPUT / SAVE n
           open:   {op, kind, n, ok, code, got, dir}      OPEN n FOR INPUT / RUN n; got = content id read
           files:  {op, n, ok, code, listed, dir}         FILES [n]; listed = DOS names of the file entries
           name:   {op, n, m, ok, code, dir}              NAME n AS m
           kill:   {op, n, ok, code, dir}                 KILL n
   dir = the host directory after the operation.                             *)
EXTENDS DosPath

SeqSet(s) == {s[i] : i \in 1..Len(s)}
Names(D) == {x[1] : x \in D}
CidOf(D, f) == (CHOOSE x \in D : x[1] = f)[2]
Cids(D, F) == {x[2] : x \in {y \in D : y[1] \in F}}
DefExtK(kind) == IF kind = "prog" THEN BAS ELSE <<>>
DosName(n, kind) == WithDefExt(n, DefExtK(kind))
\* class of the DOS name an operation denotes ("any": the statement says nothing about this argument)
ClassOf(n, d) == IF NameClass(n) \in {"other", "empty", "special"} THEN "any" ELSE NameClass(d)
Strict(d) == NameClass(d) \in {"legal", "dotname"}
BornHosts(D, born, d) == {f \in Names(D) : \E b \in born : b[1] = f /\ CaseEq(b[2], d)}
HasWild(m) == STAR \in Range(m) \/ QM \in Range(m)
LegalHosts(D) == {f \in Names(D) : IsLegal(f)}

JCreate(D, born, e, DA) ==
    LET d == DosName(e.n, e.kind)
        c == ClassOf(e.n, d)
        C == Cands(Names(D), d)
    IN IF e.ok
       THEN IF c = "any" THEN "ok"
            ELSE IF c = "illegal" THEN "illegal_name_accepted"
            ELSE IF C # {}
                 THEN IF \E f \in C : DA = (D \ {<<f, CidOf(D, f)>>}) \cup {<<f, e.cid>>} THEN "ok"
                      ELSE "create_did_not_overwrite_the_dos_equal_file"
                 ELSE IF DA = D \cup {<<Normalise(d), e.cid>>} THEN "ok"
                      ELSE "created_host_name_is_not_the_upper_case_8_3_name"
       ELSE IF DA # D THEN "failed_create_changed_the_directory"
            ELSE IF c = "illegal" /\ e.code # 64 THEN "illegal_name_not_bad_file_name"
            ELSE IF c = "legal" THEN "legal_name_rejected"
            ELSE "ok"

JOpen(D, born, e, DA) ==
    LET d == DosName(e.n, e.kind)
        c == ClassOf(e.n, d)
        C == Cands(Names(D), d)
        B == BornHosts(D, born, d)
    IN IF DA # D THEN "open_changed_the_directory"
       ELSE IF c = "any" THEN "ok"
       ELSE IF e.ok
       THEN IF C = {} THEN "open_succeeded_without_a_dos_equal_file"
            ELSE IF e.got \notin Cids(D, C) THEN "opened_a_file_that_is_not_dos_equal"
            ELSE IF B # {} /\ e.got \notin Cids(D, B) THEN "opened_another_file_than_the_one_created_under_this_name"
            ELSE "ok"
       ELSE IF B # {} THEN "file_created_under_this_name_cannot_be_opened"
            ELSE IF c = "illegal" /\ C = {} /\ e.code # 64 THEN "illegal_name_not_bad_file_name"
            ELSE IF c = "legal" /\ C # {} THEN "existing_file_not_opened_under_its_dos_name"
            ELSE "ok"

JFiles(D, born, e, DA) ==
    LET mask == IF e.n = <<>> THEN AllMask ELSE e.n
        L    == SeqSet(e.listed)
        All  == {Display(f) : f \in {g \in LegalHosts(D) : MaskMatches(Display(g), mask)}}
        Vis  == {Display(f) : f \in {g \in LegalHosts(D) : Visible(g) /\ MaskMatches(Display(g), mask)}}
        Brn  == {Display(f) : f \in {g \in LegalHosts(D) : \E b \in born : b[1] = g /\ Strict(b[2]) /\ CaseEq(b[2], mask)}}
    IN IF DA # D THEN "files_changed_the_directory"
       ELSE IF NameClass(mask) = "other" THEN "ok"
       ELSE IF e.ok
       THEN IF ~(Vis \subseteq L) THEN "visible_file_not_listed"
            ELSE IF ~(Brn \subseteq L) THEN "file_created_under_this_name_not_listed"
            ELSE IF ~(L \subseteq All) THEN "listed_name_matches_no_file"
            ELSE "ok"
       ELSE IF Vis # {} THEN "visible_file_not_listed"
            ELSE IF Brn # {} THEN "file_created_under_this_name_not_listed"
            ELSE "ok"

JName(D, born, e, DA) ==
    LET d  == DosName(e.n, "data")
        t  == DosName(e.m, "data")
        c  == ClassOf(e.n, d)
        tc == ClassOf(e.m, t)
        Cs == Cands(Names(D), d)
        Ct == Cands(Names(D), t)
        B  == BornHosts(D, born, d)
    IN IF c = "any" \/ tc = "any" THEN "ok"
       ELSE IF e.ok
       THEN IF Cs = {} THEN "rename_of_a_missing_file_succeeded"
            ELSE IF tc = "illegal" THEN "illegal_name_accepted"
            ELSE IF \E f \in Cs : DA = (D \ {<<f, CidOf(D, f)>>}) \cup {<<Normalise(t), CidOf(D, f)>>}
                                   /\ Cardinality(DA) = Cardinality(D)
                 THEN "ok" ELSE "renamed_host_name_is_not_the_upper_case_8_3_name"
       ELSE IF DA # D THEN "failed_rename_changed_the_directory"
            ELSE IF B # {} /\ tc = "legal" /\ Ct = {} THEN "file_created_under_this_name_cannot_be_renamed"
            ELSE IF Cs # {} /\ tc = "illegal" /\ e.code # 64 THEN "illegal_name_not_bad_file_name"
            ELSE "ok"

JKill(D, born, e, DA) ==
    LET mask == e.n
        Gone == Names(D) \ Names(DA)
        All  == {g \in LegalHosts(D) : MaskMatches(Display(g), mask)}
        Vis  == {g \in All : Visible(g)}
        Brn  == {g \in LegalHosts(D) : \E b \in born : b[1] = g /\ Strict(b[2]) /\ CaseEq(b[2], mask)}
    IN IF NameClass(mask) = "other" THEN "ok"
       ELSE IF ~(DA \subseteq D) THEN "kill_changed_other_files"
       ELSE IF ~(Gone \subseteq All) THEN "killed_a_file_that_does_not_match"
       ELSE IF e.ok
       THEN IF ~(Vis \subseteq Gone) THEN "matching_visible_file_not_killed"
            ELSE IF ~(Brn \subseteq Gone) THEN "file_created_under_this_name_not_killed"
            ELSE "ok"
       ELSE IF Gone # {} THEN "failed_kill_removed_files"
            ELSE IF Vis # {} THEN "matching_visible_file_not_killed"
            ELSE IF Brn # {} THEN "file_created_under_this_name_not_killed"
            ELSE "ok"

Judge(D, born, e, DA) ==
    CASE e.op = "create" -> JCreate(D, born, e, DA)
      [] e.op = "open"   -> JOpen(D, born, e, DA)
      [] e.op = "files"  -> JFiles(D, born, e, DA)
      [] e.op = "name"   -> JName(D, born, e, DA)
      [] e.op = "kill"   -> JKill(D, born, e, DA)
      [] OTHER -> "unknown_operation"

\* under which names were the files of DA created, after operation e turned D into DA
BornAfter(D, born, e, DA) ==
    LET keep == {b \in born : b[1] \in Names(DA)} IN
    IF ~e.ok THEN keep
    ELSE IF e.op = "create"
         THEN LET hs == {x[1] : x \in {y \in DA : y[2] = e.cid}} IN keep \cup {<<h, DosName(e.n, e.kind)>> : h \in hs}
    ELSE IF e.op = "name"
         THEN LET new == Names(DA) \ Names(D) IN {b \in keep : b[1] \notin new} \cup {<<h, DosName(e.m, "data")>> : h \in new}
    ELSE keep

\* every capitalisation of a name
RECURSIVE CaseVariants(_)
CaseVariants(s) == IF s = <<>> THEN {<<>>}
                   ELSE {<<c>> \o r : c \in {Up(s[1]), Lo(s[1])}, r \in CaseVariants(Tail(s))}
=============================================================================
