---------------------------- MODULE SeqFile_MC ----------------------------
(* Bounded design check of SeqFile: every history of OPEN (OUTPUT / APPEND / INPUT), WRITE #, PRINT #, INPUT #,
   LINE INPUT #, CLOSE over a small alphabet of items (empty string, leading / trailing blanks, commas inside quotes,
   a string of the maximal length, numbers) with at most MaxItems items per file.  The history variable `got` is what
   each file number has read since it was opened.                                                                  *)
EXTENDS SeqFile, TLC, Json
CONSTANTS Strings, Numbers, PLines, MaxItems, MaxOps
VARIABLES st, act, got, depth
\* the small alphabet (cfg files cannot denote tuples): empty, plain, leading blank, trailing blank, comma, comma+blank,
\* a CR inside quotes, and strings of the maximal length MaxLen = 3
StringsDef == {<<>>, <<97>>, <<32, 97>>, <<97, 32>>, <<44>>, <<13>>, <<97, 44, 32>>, <<97, 97, 97>>}
NumbersDef == {<<49>>, <<45, 50, 46, 53>>}
PLinesDef  == {<<>>, <<97>>, <<32, 34, 44>>, <<97, 97, 97>>}
StringsSmall == {<<>>, <<32, 97>>, <<97, 44, 32>>, <<97, 97, 97>>}
NumbersSmall == {<<49>>, <<45, 50, 46, 53>>}
PLinesSmall  == {<<>>, <<32, 34, 44>>, <<97, 97, 97>>}
StringsEmit == {<<>>, <<32, 97, 44, 32>>, <<97, 97, 97>>}
NumbersEmit == {<<45, 50, 46, 53>>}
PLinesEmit  == {<<>>, <<32, 34, 44>>}
ViewSt == st
vars == <<st, act, got, depth>>

ItemSet == {[k |-> "s", b |-> s] : s \in Strings} \cup {[k |-> "n", r |-> r] : r \in Numbers}
RECURSIVE CountItems(_)
CountItems(lines) == IF Len(lines) = 0 THEN 0
                     ELSE (IF lines[1].k = "w" THEN Len(lines[1].items) ELSE 1) + CountItems(Tail(lines))
RECURSIVE Flatten(_)
Flatten(lines) == IF Len(lines) = 0 THEN <<>>
                  ELSE (IF lines[1].k = "w" THEN lines[1].items ELSE <<[k |-> "l", s |-> lines[1].s]>>) \o Flatten(Tail(lines))
IsPrefix(s, t) == Len(s) <= Len(t) /\ SubSeq(t, 1, Len(s)) = s

Room(s, n) == MaxItems - CountItems(Lines(s, n))
Actions(s) ==
    {[op |-> "open", n |-> n, name |-> x, mode |-> m] :
        n \in {k \in FileNums : ~IsOpen(s, k)}, x \in {y \in Names : ~NameOpen(s, y)}, m \in {"O", "A", "I"}}
    \cup {[op |-> "close", n |-> n] : n \in {k \in FileNums : IsOpen(s, k)}}
    \cup UNION {{[op |-> "write", n |-> n, items |-> <<i1>>] : i1 \in ItemSet}
                : n \in {k \in FileNums : IsOpen(s, k) /\ s.fil[k].mode \in {"O", "A"} /\ Room(s, k) >= 1}}
    \cup UNION {{[op |-> "write", n |-> n, items |-> <<i1, i2>>] : i1 \in ItemSet, i2 \in ItemSet}
                : n \in {k \in FileNums : IsOpen(s, k) /\ s.fil[k].mode \in {"O", "A"} /\ Room(s, k) >= 2}}
    \cup UNION {{[op |-> "print", n |-> n, s |-> l] : l \in PLines}
                : n \in {k \in FileNums : IsOpen(s, k) /\ s.fil[k].mode \in {"O", "A"} /\ Room(s, k) >= 1}}
    \cup {a \in {[op |-> "input", n |-> n, k |-> k] : n \in FileNums, k \in 1..2} : InFragment(s, a)}
    \cup {a \in {[op |-> "lineinput", n |-> n] : n \in FileNums} : InFragment(s, a)}

Init == st = InitSt /\ act = [op |-> "init"] /\ got = [n \in FileNums |-> <<>>] /\ depth = 0
Do(a) == /\ act' = a
         /\ depth' = depth + 1
         /\ st' = Effect(st, a)
         /\ got' = CASE a.op = "open" -> [got EXCEPT ![a.n] = <<>>]
                     [] a.op = "input" -> [got EXCEPT ![a.n] = @ \o InputResult(st, a)]
                     [] a.op = "lineinput" -> [got EXCEPT ![a.n] = Append(@, [k |-> "l", s |-> LineResult(st, a)])]
                     [] OTHER -> got
Next == depth < MaxOps /\ \E a \in Actions(st) : Do(a)
Spec == Init /\ [][Next]_vars
View == <<st, got, depth>>

\* ---- the property ----
\* reads return the items in the order written ...
ReadsInOrder == \A n \in FileNums : (IsOpen(st, n) /\ st.fil[n].mode = "I") => IsPrefix(got[n], Flatten(Lines(st, n)))
\* ... EOF becomes true exactly after the last item ...
EofExact == \A n \in FileNums : (IsOpen(st, n) /\ st.fil[n].mode = "I") =>
                (Eof(st, n) <=> Len(got[n]) = CountItems(Lines(st, n)))
\* ... LOF is the number of bytes of the file ...
LofIsBytes == \A x \in Names : st.disk[x].len = Len(FileBytes(st.disk[x].lines))
\* ... OUTPUT starts from nothing, APPEND adds after the existing content, reading changes nothing
AppendExtends ==
    [][\A x \in Names :
        LET old == st.disk[x].lines  new == st'.disk[x].lines
        IN  IF act'.op = "open" /\ act'.name = x /\ act'.mode = "O" THEN new = <<>>
            ELSE IF act'.op \in {"write", "print"} /\ st.fil[act'.n].name = x
                 THEN Len(new) = Len(old) + 1 /\ IsPrefix(old, new)
            ELSE new = old]_vars
\* BYTE LAYER: the written text is read back by the scanning rules of INPUT # / LINE INPUT # as the same items
FormatRoundTrips == \A x \in Names : ByteReaderAgrees(st.disk[x].lines)

Emit == PrintT(<<"TRANSITION", ToJson([from |-> st, a |-> act', to |-> st'])>>)
=============================================================================
