---------------------------- MODULE Interp_MCtraprun ----------------------------
(* C38 on the model: the environment action Occur(k) is enabled at EVERY statement boundary (at most MaxOcc
   times), so TLC explores all schedules.  The property is stated on ghost variables that are maintained
   independently of the machine's own trap flags:
     cmd[k]     the trap's status as the program has set it: the last KEY(k) ON/OFF/STOP executed ("OFF" initially;
                a STOP of a trap that is OFF leaves it OFF: only a trap that was ON can be STOPped, as in GW-BASIC
                where STOP sets a hold flag next to the ON bit and occurrences are recorded only while the ON bit is set);
                returning from the handler of k turns a STOP back into ON (GW-BASIC: RETURN from a trap routine
                re-enables the trap unless it was switched OFF inside)
     hset[k]    an ON KEY(k) GOSUB line is defined
     pending[k] event k occurred while cmd[k] was ON or STOP and has not been handled since
     reon[k]    a KEY(k) ON was executed since handler k was last entered
   `last` records, for the step just taken, the set of traps dispatched and the ghost values before it.  *)
EXTENDS Integers, Sequences, FiniteSets, TLC, Json
CONSTANTS Family, MaxOcc
VARIABLES s, cmd, hset, pending, reon, nocc, last
I == INSTANCE Interp
vars == <<s, cmd, hset, pending, reon, nocc, last>>
K == {1, 2}

Init == /\ \E p \in Family : PrintT(<<"PROGRAM", ToJson(p)>>) /\ s = I!Start(p)
        /\ cmd = [k \in K |-> "OFF"] /\ hset = [k \in K |-> FALSE]
        /\ pending = [k \in K |-> FALSE] /\ reon = [k \in K |-> FALSE]
        /\ nocc = 0 /\ last = [a |-> "init"]

Active(st, k) == \E i \in 1..Len(st.gosubs) : st.gosubs[i].h = k

Occur(k) == /\ s.run /\ nocc < MaxOcc
            /\ s' = I!Occur(s, k)
            /\ pending' = [pending EXCEPT ![k] = @ \/ cmd[k] \in {"ON", "STOP"}]
            /\ nocc' = nocc + 1
            /\ last' = [a |-> "occur"]
            /\ UNCHANGED <<cmd, hset, reon>>

Step == /\ s.run
        /\ \E d \in I!Dispatched(s) :
             LET t   == I!Exec(d)
                 dsp == {k \in K : \E i \in (Len(s.gosubs) + 1)..Len(d.gosubs) : d.gosubs[i].h = k}
                 st  == IF I!AtEnd(d, d.pc) THEN [op |-> "none"] ELSE I!StmtAt(d, d.pc)
                 okc == t.stat.k # "error" /\ ~(t.inh /\ ~d.inh)       \* the statement executed without raising
                 ret == IF st.op = "RETURN" /\ okc /\ Len(d.gosubs) > 0 THEN d.gosubs[Len(d.gosubs)].h ELSE 0
             IN /\ s' = t
                /\ last' = [a |-> "step", d |-> dsp, inh |-> s.inh, cmd |-> cmd, hset |-> hset,
                            pend |-> pending, act |-> {k \in K : Active(s, k)}, reon |-> reon]
                /\ pending' = [k \in K |-> IF k \in dsp THEN FALSE ELSE pending[k]]
                /\ cmd' = [k \in K |-> IF st.op = "TRAP" /\ st.k = k /\ okc
                                       THEN (IF st.c = "STOP" /\ cmd[k] = "OFF" THEN "OFF" ELSE st.c)
                                       ELSE IF ret = k /\ cmd[k] = "STOP" THEN "ON" ELSE cmd[k]]
                /\ hset' = [k \in K |-> IF st.op = "ONTRAP" /\ st.k = k /\ okc THEN st.n # 0 ELSE hset[k]]
                /\ reon' = [k \in K |-> IF st.op = "TRAP" /\ st.k = k /\ st.c = "ON" /\ okc THEN TRUE
                                         ELSE IF k \in dsp THEN FALSE ELSE reon[k]]
                /\ UNCHANGED nocc
Next == Step \/ \E k \in K : Occur(k)
Spec == Init /\ [][Next]_vars

(* ---- property C38, evaluated on every step ---- *)
IsStep == last.a = "step"
\* a handler runs only if its event occurred while the trap was ON or STOPped (an occurrence while OFF is lost; one
\* remembered while STOPped is handled once: pending is a flag, and it is cleared by the dispatch)
OnlyIfOccurred == IsStep => \A k \in last.d : last.pend[k]
\* ... and only while the trap is ON (not OFF, not STOPped)
OnlyWhenOn == IsStep => \A k \in last.d : last.cmd[k] = "ON"
\* never while an error handler is active (a step is only taken while the program runs)
NotInErrorHandler == IsStep => (last.d # {} => ~last.inh)
\* not again until the handler has returned, unless the handler itself turned the event back ON
NoReentry == IsStep => \A k \in last.d : (k \in last.act => last.reon[k])
\* a remembered occurrence is handled as soon as nothing in the statement forbids it
Prompt == IsStep => \A k \in K : (last.pend[k] /\ last.cmd[k] = "ON" /\ last.hset[k] /\ ~last.inh
                                    /\ (k \notin last.act \/ last.reon[k])) => k \in last.d
InFragment == ~s.frag
=============================================================================
