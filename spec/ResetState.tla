----------------------------- MODULE ResetState -----------------------------
(* C23 beyond the Interp.tla fragment: strings, arrays, DEF FN, DEFtype, OPTION BASE and the random sequence after
   RUN / CLEAR / NEW, and the COMMON rule of CHAIN.  One event = one history on the real interpreter:
     set     what the history established before the operation: set.vars[i] = [name, kind ("num"|"str"|"arr"|"sarr"), val], plus DEF FNA, DEFINT, OPTION BASE 1, RND advanced
     op      "RUN" | "CLEAR" | "NEW" | "CHAIN" | "CHAINALL" | "CHAINMERGE"
     commons names declared COMMON in the chaining program (arrays as "NAME()": a scalar and an array of the same name are
             different variables, and set.vars names arrays the same way)
     got     probe results after the operation: got.vars[i] = value read back (same order as set.vars),
             got.fn = error code of calling FNA (0 = still defined), got.defint = Z=1.5 reads back as 2,
             got.base1 = T(0) on a fresh array raises Subscript out of range, got.rnd = next RND value equals the
             first value of a fresh session, got.dimok = the arrays can be dimensioned again without Duplicate definition *)
EXTENDS TraceBase
VARIABLES l, viol

\* every value is logged as a sequence so that comparisons are well-typed: number n as <<n>>, string as its bytes,
\* arrays as sequences of those
Zero(kind, val) == CASE kind = "num" -> <<0>> [] kind = "str" -> <<>>
                     [] kind = "arr" -> [i \in 1..Len(val) |-> <<0>>] [] kind = "sarr" -> [i \in 1..Len(val) |-> <<>>]
IsReset(op) == op \in {"RUN", "CLEAR", "NEW"}
Keeps(e, name) == ~IsReset(e.op) /\ (e.op = "CHAINALL" \/ \E i \in 1..Len(e.commons) : e.commons[i] = name)

VarClause(e, i) ==
    LET v == e.set.vars[i] g == e.got.vars[i] IN
    IF Keeps(e, v.name) THEN (IF g = v.val THEN "ok" ELSE "common_variable_not_preserved")
    ELSE (IF g = Zero(v.kind, v.val) THEN "ok" ELSE "variable_survived")

V(e) ==
    LET bad == {i \in 1..Len(e.set.vars) : VarClause(e, i) # "ok"} IN
    IF bad # {} THEN VarClause(e, CHOOSE i \in bad : \A j \in bad : i <= j)
    ELSE IF IsReset(e.op) /\ e.set.fn /\ e.got.fn # 18 THEN "def_fn_survived"
    ELSE IF IsReset(e.op) /\ e.set.defint /\ e.got.defint THEN "deftype_survived"
    ELSE IF IsReset(e.op) /\ e.set.base1 /\ e.got.base1 THEN "option_base_survived"
    ELSE IF IsReset(e.op) /\ e.set.rnd /\ ~e.got.rnd THEN "random_sequence_state_survived"
    ELSE IF IsReset(e.op) /\ ~e.got.dimok THEN "array_survived"
    \* got.baseflag: after a further CLEAR, OPTION BASE 1 : DIM : ERASE of that array, subscript 0 is still refused (an explicit
    \* OPTION BASE is not dropped with the last array; only the implicit one DIM sets is) - CLEAR must forget how the base was set
    ELSE IF ~e.got.baseflag THEN "how_the_array_base_was_set_survived_clear"
    \* set.insub: the operation ran two GOSUB levels deep and the code after it executed RETURN; got.stackgone: that RETURN raised
    \* RETURN without GOSUB (nothing of the subroutine stack is left after RUN or any form of CHAIN)
    ELSE IF e.set.insub /\ ~e.got.stackgone THEN "subroutine_stack_survived"
    ELSE "ok"
INSTANCE OracleTrace WITH Verdict <- V
=============================================================================
