SPECIFICATION Spec
CONSTANTS
  XPairs <- XP_emitb
  YPairs <- YP_emitb
  PageArgs <- PA_emitb
  Decos = {"none", "fill", "both"}
  DrawReqs = {"inside", "cross", "outside"}
VIEW View
INVARIANT InvViewInScreen
ACTION_CONSTRAINT Emit
