SPECIFICATION Spec
CONSTANTS
  CodeStart = 4717
  LineNums = {10, 20, 65529}
  MaxEdits = 2
  RenumNew <- NewEmit
  RenumOld <- OldEmit
  RenumInc <- IncEmit
VIEW ViewE
INVARIANT RefinesInv
ACTION_CONSTRAINT Emit
CHECK_DEADLOCK FALSE
