SPECIFICATION Spec
CONSTANT BB <- McBB
INVARIANT FixIsTrunc
INVARIANT IntIsFloor
INVARIANT HasFracOK
INVARIANT CintIsRound
INVARIANT ConvLaws
INVARIANT D2SLaws
CHECK_DEADLOCK FALSE
