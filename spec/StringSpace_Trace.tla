-------------------------- MODULE StringSpace_Trace --------------------------
(* Total trace specification for C10.  Only the REFERENCE layer of StringSpace.tla judges the code.
   Header: cells (names, creation order), arrays (name -> cells), fns (name -> [params, body]).
   One event per BASIC statement executed on the real interpreter:
     [op, ...operands..., prog (TRUE: executed as a stored program line), kind ("ok" | "err" | "internal"), code, chg (<<index, new value>> of every cell whose
      observed value differs from the previous observation), ae (PEEK(&H35C)+256*PEEK(&H35D) after the statement),
      mem (PEEK(&H2C)+256*PEEK(&H2D)), fre (result of FRE("") / FRE(0) for op "fre" / "fre0")]
   op "begin" starts a new session (all cells empty, constant of the FRE equation not yet known).
   State: ref = last observed values, ae, mem, koff = (top of string space) - mem, inferred at the first FRE("")
   of a session and then held fixed (CLEAR ,n moves the top by the change of mem).                       *)
EXTENDS StringSpace, TraceBase
VARIABLES ts, l, viol
tvars == <<ts, l, viol>>

TCellOrder == Header.cells
TCells == {Header.cells[i] : i \in 1..Len(Header.cells)}
TArrays == [n \in DOMAIN Header.arrays |-> {Header.arrays[n][i] : i \in 1..Len(Header.arrays[n])}]
TFns == Header.fns

Empty == [c \in Cells |-> <<>>]
TInitS == [ref |-> Empty, code |-> {}, ae |-> 0, mem |-> 0, kk |-> FALSE, koff |-> 0]

Obs(prev, chg) ==       \* chg[i] = <<cell index, value>>
    [c \in Cells |-> IF \E i \in 1..Len(chg) : CellOrder[chg[i][1]] = c
                     THEN chg[CHOOSE i \in 1..Len(chg) : CellOrder[chg[i][1]] = c][2] ELSE prev[c]]

\* operations whose outcome (ok / which error) the property leaves open; their effect on values is still demanded
\* Out of memory (7) is raised when array space cannot grow: a statement that uses an element of an array that does not exist
\* dimensions it implicitly with 11 elements per dimension (S$: 11 x 11 string descriptors of 3 bytes plus the header), and a
\* failed statement shows no allocation.  The bound covers the largest implicit array of the driver.
AutoDimMax == 400
OpenOutcome(op) == op \in {"erase", "dim", "clear", "nop", "swap"}

IsProg(e) == Has(e, "prog") /\ e.prog
CodeNext(s0, e) == IF e.kind = "ok" THEN CodeAfter(s0.code, s0.ref, e, IsProg(e)) ELSE s0.code

Judge(s0, e) ==
    LET d     == Do(s0.ref, e)
        obs   == Obs(s0.ref, e.chg)
        top   == s0.koff + s0.mem                  \* valid when s0.kk
        alloc == IF e.ae > s0.ae THEN e.ae - s0.ae ELSE 0
        \* LSET / RSET / MID$= on a value that lives in the program text copy it to string space first
        copy  == IF e.op \in {"lset", "rset", "midset"} /\ e.c \in s0.code THEN Len(s0.ref[e.c]) ELSE 0
    IN  IF e.kind = "internal" THEN "internal_error"
        ELSE IF e.kind = "err" THEN
             \* (ERASE of two arrays works through its list: when the second array does not exist the first one is already erased)
             IF obs # s0.ref /\ ~(e.op = "erase" /\ Has(e, "arr2") /\ obs = Do(s0.ref, [op |-> "erase", arr |-> e.arr]).ref)
             THEN "failed_statement_changed_a_value"
             ELSE IF e.code = d.err \/ OpenOutcome(e.op) THEN "ok"
             ELSE IF e.code \in {7, 14} THEN
                  IF s0.kk /\ ~MayRunOut(top, s0.ae, s0.ref, s0.code, d.need + copy, alloc + (IF e.code = 7 THEN AutoDimMax ELSE 0))
                  THEN "out_of_space_with_sufficient_free_space" ELSE "ok"
             ELSE "error_not_demanded_by_reference"
        \* after an ERASE that leaves no array behind, the array space is empty: the memory of every erased array was given back
        \* (e.noarr: no array exists after the statement; e.as / e.ae: start / end of the array space)
        ELSE IF Has(e, "noarr") /\ e.noarr /\ Has(e, "as") /\ e.ae # e.as THEN "array_space_not_empty_when_no_array_exists"
        ELSE IF d.err # 0 THEN "demanded_error_not_raised"
        ELSE IF obs # d.ref THEN (IF e.op \in {"fre", "fre0", "nop"} THEN "collection_or_read_changed_a_value" ELSE "value_differs_from_reference")
        ELSE IF e.op = "fre" /\ s0.kk /\ e.fre # FreeAfterGC(s0.koff + e.mem, e.ae, obs, CodeNext(s0, e)) THEN "fre_equation"
        ELSE IF e.op = "fre0" /\ s0.kk /\ e.fre > FreeAfterGC(s0.koff + e.mem, e.ae, obs, CodeNext(s0, e)) THEN "fre_exceeds_free_space"
        ELSE "ok"

Step(e) ==
    LET s0  == IF e.op = "begin" THEN [TInitS EXCEPT !.ae = e.ae, !.mem = e.mem] ELSE ts
        v   == Judge(s0, e)
        obs == Obs(s0.ref, e.chg)
        \* infer / re-synchronise the constant of the FRE equation from a FRE("") observation
        fix == e.op = "fre" /\ e.kind = "ok" /\ (~s0.kk \/ v = "fre_equation")
        cd  == CodeNext(s0, e)
    IN  /\ ts' = [ref |-> obs, code |-> cd, ae |-> e.ae, mem |-> e.mem,
                  kk |-> s0.kk \/ fix,
                  koff |-> IF fix THEN e.fre + e.ae + SumLen(obs, Cells \ cd) - e.mem ELSE s0.koff]
        /\ viol' = IF v = "ok" THEN viol ELSE Append(viol, <<l, v>>)

TInit == ts = TInitS /\ l = 1 /\ viol = <<>>
TNext == l <= NEvents /\ l' = l + 1 /\ Step(Events[l])
TSpec == TInit /\ [][TNext]_tvars
TDone == (l = NEvents + 1) => WriteVerdict(l - 1, viol)
=============================================================================
