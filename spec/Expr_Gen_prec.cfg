SPECIFICATION Spec
CONSTANTS
  Family = "prec"
  MaxDepth = 2
  NRandom = 0
  MaxOps = 7
  Positional = FALSE
INVARIANT RoundTrip
CHECK_DEADLOCK FALSE
