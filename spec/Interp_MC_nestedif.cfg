SPECIFICATION Spec
INVARIANT Expected
INVARIANT InFragment
INVARIANT Bounded
CHECK_DEADLOCK FALSE
