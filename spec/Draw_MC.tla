------------------------------ MODULE Draw_MC ------------------------------
(* Exhaustive enumeration of DRAW strings of at most MaxLen commands over a
   small alphabet (Alpha8 / Alpha12).  For EVERY such string the operational
   definition Draw!Run is checked against the declarative reading of the
   property (FinalPos, one segment per non-B move from the pen position before
   it to its target, N leaves the pen where it was, B draws nothing, a
   substring behaves like its expansion), and the string is printed as JSON;
   the harness runs each on the real interpreter (DRAW on one part of the
   screen, LINE of the model's segments on another).
   Absolute M coordinates are relative to the origin of the 64x64 screen cell
   the harness assigns to the case.                                          *)
EXTENDS Draw, TLC, Json
CONSTANTS AlphaName, MaxLen
VARIABLE seq

Mv(c, n, b, nn) == [c |-> c, n |-> n, b |-> b, nn |-> nn]
Mr(x, y) == [c |-> "M", x |-> x, y |-> y, rel |-> TRUE, b |-> FALSE, nn |-> FALSE]
Ma(x, y) == [c |-> "M", x |-> x, y |-> y, rel |-> FALSE, b |-> FALSE, nn |-> FALSE]
Alpha8  == {Mv("U", 3, FALSE, FALSE), Mv("L", 1, FALSE, FALSE), Mv("F", 2, FALSE, FALSE), Mv("H", 3, TRUE, FALSE),
            Mv("G", 3, FALSE, TRUE), Mr(-3, 1), [c |-> "S", n |-> 6], [c |-> "C", n |-> 2]}
Alpha12 == {Mv("U", 3, FALSE, FALSE), Mv("L", 3, FALSE, FALSE), Mv("R", 2, FALSE, FALSE), Mv("F", 2, FALSE, FALSE),
            Mv("G", 1, FALSE, FALSE), Mv("H", 3, FALSE, FALSE), Mv("L", 2, TRUE, FALSE), Mv("E", 3, FALSE, TRUE),
            Mr(-3, 1), Ma(20, 12), [c |-> "S", n |-> 6], [c |-> "C", n |-> 2]}
Alpha == IF AlphaName = "a8" THEN Alpha8 ELSE Alpha12

S0 == [pos |-> <<32, 32>>, scale |-> 4, col |-> 1]

Init == seq \in UNION {[1..k -> Alpha] : k \in 1..MaxLen}
Next == UNCHANGED seq
Spec == Init /\ [][Next]_seq

r == Run(S0, seq)
RECURSIVE SegsOK(_, _, _, _)
\* walk the flat string with the pen state; k = index of the next expected segment
SegsOK(st, f, i, k) ==
    IF i > Len(f) THEN k = Len(r.segs) + 1
    ELSE LET cmd == f[i]
             nx  == Step(st, cmd).st
         IN  IF IsMove(cmd) /\ ~cmd.b
             THEN /\ k <= Len(r.segs)
                  /\ r.segs[k] = <<st.pos[1], st.pos[2], Target(st, cmd)[1], Target(st, cmd)[2], st.col>>
                  /\ (cmd.nn => nx.pos = st.pos)
                  /\ SegsOK(nx, f, i + 1, k + 1)
             ELSE /\ (IsMove(cmd) /\ cmd.nn => nx.pos = st.pos)
                  /\ SegsOK(nx, f, i + 1, k)
Laws == /\ r.st.pos = FinalPos(S0, seq)
        /\ SegsOK(S0, Flat(seq), 1, 1)
        /\ Run(S0, <<[c |-> "X", sub |-> seq]>>) = r
        /\ (Len(seq) >= 2 => Run(S0, <<seq[1], [c |-> "X", sub |-> Tail(seq)]>>) = r)
        /\ Off(4, <<3, -3>>) = <<3, -3>> /\ Off(6, <<3, -3>>) = <<4, -4>> /\ Off(2, <<1, -1>>) = <<0, 0>> /\ Off(8, <<-3, 1>>) = <<-6, 2>>
Emit == PrintT(<<"CASE", ToJson([cmds |-> seq])>>)
=============================================================================
