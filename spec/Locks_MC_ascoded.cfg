SPECIFICATION Spec
CONSTANTS
  FileNums = {1, 2}
  Names = {"X"}
  MaxRec = 3
  AsCoded = TRUE
VIEW View
INVARIANT NoOverlap
