---------------------------- MODULE OracleTrace ----------------------------
(* Generic total trace spec for properties whose events are independent calls
   judged by a specification operator Verdict(e) \in STRING ("ok" = accepted,
   anything else names the failing clause). One TLC state per event.        *)
EXTENDS TraceBase
CONSTANT Verdict(_)
VARIABLES l, viol
ovars == <<l, viol>>

OInit == l = 1 /\ viol = <<>>
ONext == /\ l <= NEvents
         /\ l' = l + 1
         /\ LET v == Verdict(Events[l])
            IN viol' = IF v = "ok" THEN viol ELSE Append(viol, <<l, v>>)
OSpec == OInit /\ [][ONext]_ovars
ODone == (l = NEvents + 1) => WriteVerdict(l - 1, viol)
=============================================================================
