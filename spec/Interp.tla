------------------------------- MODULE Interp -------------------------------
(* The core abstract machine of the PC-BASIC interpreter: program counter,
   FOR / WHILE / GOSUB stacks, variables, DATA pointer, error trap, event
   traps.  It carries properties C19 (structured control flow), C21 (error
   trapping and RESUME), C22 (READ/DATA/RESTORE), C38 (event traps) and C40
   (suspend/resume is a stuttering step), and is the reference semantics
   against which statement-level traces of the real interpreter are validated.

   Functional-core style: a machine state is a record `s`; Step(s) executes
   the statement at s.pc (after dispatching pending event traps), Occur(s,k)
   is the environment action "event k happens".  Values are mathematical
   integers (the fragment keeps every value exactly representable); variables
   listed in `ints` are 16-bit integer variables.

   A program is a record [lines, vars, ints]; lines is a sequence of
   [n |-> line number, s |-> sequence of statements]; a statement is a record
   with field `op` and `col` (TRUE when it is introduced by ':' or starts the
   line, FALSE for the statement directly after THEN / ELSE).               *)
EXTENDS Integers, Sequences, FiniteSets

None == <<0, 0>>
Max(a, b) == IF a > b THEN a ELSE b
InInt16(x) == x >= -32768 /\ x <= 32767
Limit == 1048576           \* values beyond this leave the exactly-modelled fragment

(* ---------------- program geometry ---------------- *)
Prog(s)      == s.prog                 \* the program is part of the machine state
NL(s)        == Len(Prog(s).lines)
\* line index 0 denotes the DIRECT line s.dl (a statement sequence typed at the prompt); position <<0, i>> is its i-th statement
Stmts(s, li) == IF li = 0 THEN s.dl ELSE Prog(s).lines[li].s
(* DEFINT / DEFSNG (C20, C23).  A name written without a type sign denotes the variable of the type its first letter has
   at the moment the name is USED.  The program lists such names in the optional field `bare`:
   [n |-> "X", i |-> "X%", f |-> "X!"] says that bare X is the integer variable X% while X is DEFINT (s.dti holds the bare
   names currently typed integer) and the single-precision variable X! otherwise.  Both variables are in `vars` (the bare
   name is not); values never move between them.                                                                       *)
Bare(s)     == IF "bare" \in DOMAIN Prog(s) THEN Prog(s).bare ELSE <<>>
IsBare(s, v) == \E i \in 1..Len(Bare(s)) : Bare(s)[i].n = v
Twin(s, v)  == Bare(s)[CHOOSE i \in 1..Len(Bare(s)) : Bare(s)[i].n = v]
Res(s, v)   == IF IsBare(s, v) THEN (IF v \in s.dts THEN Twin(s, v).s ELSE IF v \in s.dti THEN Twin(s, v).i ELSE Twin(s, v).f) ELSE v
(* String variables (C22: READ into string variables, DEFSTR).  The optional program field `strs` lists them; a bare name may
   have a string twin (field s of its `bare` entry) that DEFSTR selects (s.dts).  The value of a string variable is kept
   abstract: 0 for the empty string, StrBase + n for the text of DATA item n (a numeric item read into a string variable is
   the text of that number; the text of a non-numeric item carries its number).  Strings are only READ, PRINTed and copied;
   a string operand inside an arithmetic expression is outside the fragment.                                              *)
StrBase == 500000
IsStrVar(s, v) == "strs" \in DOMAIN Prog(s) /\ \E i \in 1..Len(Prog(s).strs) : Prog(s).strs[i] = Res(s, v)
IsIntVar(s, v) == \E i \in 1..Len(Prog(s).ints) : Prog(s).ints[i] = Res(s, v)
Norm(s, p)   == IF p[1] >= 1 /\ p[1] <= NL(s) /\ p[2] > Len(Stmts(s, p[1])) THEN <<p[1] + 1, 1>> ELSE p
After(s, p)  == Norm(s, <<p[1], p[2] + 1>>)
NextLine(p)  == IF p[1] = 0 THEN <<0, 100000>> ELSE <<p[1] + 1, 1>>       \* rest of the direct line is skipped
AtEnd(s, p)  == p[1] > NL(s) \/ (p[1] = 0 /\ p[2] > Len(s.dl))
InProgram(s) == s.pc[1] # 0                                                  \* "run mode": the pointer is in the program
LineNo(s, p) == IF p[1] = 0 THEN 65535 ELSE IF p[1] > NL(s) THEN 65536 ELSE Prog(s).lines[p[1]].n
LineIdx(s, n) == IF \E i \in 1..NL(s) : Prog(s).lines[i].n = n
                 THEN CHOOSE i \in 1..NL(s) : Prog(s).lines[i].n = n ELSE 0
StmtAt(s, p) == Stmts(s, p[1])[p[2]]
\* first statement after p on the same line that is introduced by ':' (else the next line)
NextColon(s, p) ==
    LET cand == {j \in (p[2] + 1)..Len(Stmts(s, p[1])) : Stmts(s, p[1])[j].col}
    IN  IF cand = {} THEN NextLine(p) ELSE <<p[1], CHOOSE j \in cand : \A k \in cand : j <= k>>

(* ---------------- DATA items in program (text) order ---------------- *)
RECURSIVE ItemsFrom(_, _, _)
ItemsFrom(s, li, si) ==
    IF li > NL(s) THEN <<>>
    ELSE IF si > Len(Stmts(s, li)) THEN ItemsFrom(s, li + 1, 1)
    ELSE LET st == Stmts(s, li)[si]
         IN  (IF st.op = "DATA"
              THEN [i \in 1..Len(st.items) |-> [num |-> st.items[i].num, v |-> st.items[i].v, li |-> li]]
              ELSE <<>>) \o ItemsFrom(s, li, si + 1)
Items(s) == ItemsFrom(s, 1, 1)
\* index of the first item at or after line index li
FirstItemFrom(s, li) ==
    LET it == Items(s)
        c  == {i \in 1..Len(it) : it[i].li >= li}
    IN  IF c = {} THEN Len(it) + 1 ELSE CHOOSE i \in c : \A k \in c : i <= k

(* ---------------- static block matching (as the interpreter scans the text) ---------------- *)
\* FOR: find the NEXT that closes the FOR at p; result [ok, pos = <<li, si, j>>, name]
RECURSIVE ScanNext(_, _, _)
ScanNext(s, p, depth) ==
    LET q == Norm(s, p) IN
    IF AtEnd(s, q) THEN [ok |-> FALSE, pos |-> <<0, 0, 0>>, name |-> ""]
    ELSE LET st == StmtAt(s, q) IN
         IF st.op = "FOR" THEN ScanNext(s, <<q[1], q[2] + 1>>, depth + 1)
         ELSE IF st.op = "NEXT"
              THEN LET k == Max(1, Len(st.vs)) IN
                   IF depth >= k THEN ScanNext(s, <<q[1], q[2] + 1>>, depth - k)
                   ELSE [ok |-> TRUE, pos |-> <<q[1], q[2], depth + 1>>,
                         name |-> IF Len(st.vs) = 0 THEN "" ELSE st.vs[depth + 1]]
              ELSE ScanNext(s, <<q[1], q[2] + 1>>, depth)

RECURSIVE ScanWend(_, _, _)
ScanWend(s, p, depth) ==
    LET q == Norm(s, p) IN
    IF AtEnd(s, q) THEN None
    ELSE LET st == StmtAt(s, q) IN
         IF st.op = "WHILE" THEN ScanWend(s, <<q[1], q[2] + 1>>, depth + 1)
         ELSE IF st.op = "WEND"
              THEN IF depth = 0 THEN q ELSE ScanWend(s, <<q[1], q[2] + 1>>, depth - 1)
              ELSE ScanWend(s, <<q[1], q[2] + 1>>, depth)

(* ---------------- machine state ---------------- *)
TrapIds == 1..4          \* 1, 2: KEY(1), KEY(2); 3: PEN; 4: STRIG(0)
NoTraps == [enabled |-> {}, stopped |-> [k \in TrapIds |-> FALSE],
            triggered |-> [k \in TrapIds |-> FALSE], gosub |-> [k \in TrapIds |-> 0]]

\* state at RUN: everything cleared, pointer at the first line
Start(p) ==
    [prog |-> p, dl |-> <<>>, pc |-> <<1, 1>>, cur |-> <<1, 1>>, run |-> TRUE,
     vars |-> [i \in 1..Len(p.vars) |-> 0],
     fors |-> <<>>, whiles |-> <<>>, gosubs |-> <<>>, dp |-> 1,
     onerr |-> 0, inh |-> FALSE, resume |-> None, err |-> 0, erl |-> 0,
     traps |-> NoTraps, susp |-> FALSE,
     fns |-> <<>>,          \* DEF FN definitions executed so far: sequence of [f, ps, e] (the last one for a name counts)
     parsing |-> {},        \* names of the user functions whose body is being evaluated (recursion guard)
     out |-> <<>>, stat |-> [k |-> "run", code |-> 0, line |-> 0],
     havoc |-> {}, frag |-> FALSE,
     dti |-> {},            \* bare names (see Bare) that a DEFINT in force types as integer
     dts |-> {},            \* bare names that a DEFSTR in force types as string
     kf |-> FALSE]          \* TRUE: this behaviour is only explained by a listed known deviation (see DoClear)

VarIdx(s, v) == CHOOSE i \in 1..Len(Prog(s).vars) : Prog(s).vars[i] = Res(s, v)
Get(s, v) == s.vars[VarIdx(s, v)]

(* ---------------- errors ---------------- *)
\* trap_error: handler taken iff one is set and none is active; otherwise the program stops with the message
RaiseAt(s, c, line) ==
    LET s1 == [s EXCEPT !.err = c, !.erl = line] IN
    IF s.onerr # 0 /\ ~s.inh
    THEN [s1 EXCEPT !.resume = s.cur, !.pc = <<LineIdx(s, s.onerr), 1>>, !.inh = TRUE, !.susp = TRUE]
    ELSE [s1 EXCEPT !.inh = FALSE, !.run = FALSE,
                    \* an error of a direct-mode statement is reported without a line number (-2)
                    !.stat = [k |-> "error", code |-> c, line |-> IF line = 65535 THEN -2 ELSE line]]
Raise(s, c) == RaiseAt(s, c, LineNo(s, s.cur))
Frag(s) == [s EXCEPT !.frag = TRUE, !.run = FALSE, !.stat = [k |-> "fragment", code |-> 0, line |-> 0]]

(* ---------------- expressions ---------------- *)
Ok(v) == [ok |-> TRUE, v |-> v, code |-> 0]
Er(c) == [ok |-> FALSE, v |-> 0, code |-> c]       \* code -1: outside the modelled fragment
Bool(b) == IF b THEN -1 ELSE 0
Sgn(x) == IF x < 0 THEN -1 ELSE IF x = 0 THEN 0 ELSE 1
Abs(x) == IF x < 0 THEN -x ELSE x
TDiv(a, b) == Sgn(a) * Sgn(b) * (Abs(a) \div Abs(b))
TMod(a, b) == Sgn(a) * (Abs(a) % Abs(b))
U16(x) == IF x < 0 THEN x + 65536 ELSE x
S16(u) == IF u > 32767 THEN u - 65536 ELSE u
RECURSIVE BitAnd(_, _, _)
BitAnd(a, b, n) == IF n = 0 THEN 0 ELSE (IF a % 2 = 1 /\ b % 2 = 1 THEN 1 ELSE 0) + 2 * BitAnd(a \div 2, b \div 2, n - 1)
AndI(a, b) == S16(BitAnd(U16(a), U16(b), 16))
NotI(a) == -a - 1
OrI(a, b) == NotI(AndI(NotI(a), NotI(b)))
Chk(v) == IF Abs(v) > Limit THEN Er(-1) ELSE Ok(v)

(* User-defined functions (C20).  A call evaluates and converts the arguments, refuses recursion with Out of memory,
   binds the parameters, evaluates the body and converts the result to the function's type.  Evaluation is a pure
   function of the machine state: whatever the outcome (value or error), NO variable of the caller changes - the
   parameters only shadow variables of the same name while the body is evaluated.                                *)
FnDef(s, f) == LET c == {i \in 1..Len(s.fns) : s.fns[i].f = f} IN
               IF c = {} THEN [f |-> "", ps |-> <<>>, e |-> [k |-> "c", v |-> 0]]
               ELSE s.fns[CHOOSE i \in c : \A j \in c : j <= i]
RECURSIVE Eval(_, _), EvalArgs(_, _, _, _), EvalFn(_, _)
\* arguments left to right, each converted to the type of its parameter; result: [ok, vs (sequence), code]
EvalArgs(s, ps, args, j) ==
    IF j > Len(args) THEN [ok |-> TRUE, vs |-> <<>>, code |-> 0]
    ELSE LET a == Eval(s, args[j]) IN
         IF ~a.ok THEN [ok |-> FALSE, vs |-> <<>>, code |-> a.code]
         ELSE IF IsIntVar(s, ps[j]) /\ ~InInt16(a.v) THEN [ok |-> FALSE, vs |-> <<>>, code |-> 6]
         ELSE LET r == EvalArgs(s, ps, args, j + 1) IN
              IF ~r.ok THEN r ELSE [ok |-> TRUE, vs |-> <<a.v>> \o r.vs, code |-> 0]
EvalFn(s, e) ==
    LET d == FnDef(s, e.f) IN
    IF d.f = "" THEN Er(18)                                   \* Undefined user function
    ELSE IF Len(d.ps) # Len(e.args) THEN Er(-1)               \* wrong number of arguments: not generated
    ELSE LET r == EvalArgs(s, d.ps, e.args, 1) IN
         IF ~r.ok THEN Er(r.code)
         ELSE IF e.f \in s.parsing THEN Er(7)                  \* a function that calls itself: Out of memory
         \* (the parameters denote the variables their names have when the function is CALLED, not when it was defined)
         ELSE LET bound == [i \in 1..Len(s.vars) |->
                               LET c == {j \in 1..Len(d.ps) : Res(s, d.ps[j]) = Prog(s).vars[i]} IN
                               IF c = {} THEN s.vars[i] ELSE r.vs[CHOOSE j \in c : \A k \in c : k <= j]]
                  b == Eval([s EXCEPT !.vars = bound, !.parsing = @ \cup {e.f}, !.havoc = @ \ {Res(s, d.ps[j]) : j \in 1..Len(d.ps)}], d.e)
              IN IF ~b.ok THEN b
                 ELSE IF IsIntVar(s, e.f) /\ ~InInt16(b.v) THEN Er(6) ELSE Ok(b.v)
Eval(s, e) ==
    CASE e.k = "c"   -> Ok(e.v)
      [] e.k = "v"   -> IF Res(s, e.n) \in s.havoc \/ IsStrVar(s, e.n) THEN Er(-1) ELSE Ok(Get(s, e.n))
      [] e.k = "err" -> Ok(s.err)
      [] e.k = "erl" -> Ok(s.erl)
      [] e.k = "fn"  -> EvalFn(s, e)
      [] e.k = "u"   -> LET a == Eval(s, e.a) IN
                        IF ~a.ok THEN a
                        ELSE IF e.o = "-" THEN Ok(-a.v)
                        ELSE IF ~InInt16(a.v) THEN Er(6) ELSE Ok(NotI(a.v))
      [] e.k = "b"   -> LET a == Eval(s, e.a) IN
                        IF ~a.ok THEN a ELSE
                        LET b == Eval(s, e.b) IN
                        IF ~b.ok THEN b ELSE
                        CASE e.o = "+"  -> Chk(a.v + b.v)
                          [] e.o = "-"  -> Chk(a.v - b.v)
                          [] e.o = "*"  -> Chk(a.v * b.v)
                          [] e.o = "="  -> Ok(Bool(a.v = b.v))
                          [] e.o = "<>" -> Ok(Bool(a.v # b.v))
                          [] e.o = "<"  -> Ok(Bool(a.v < b.v))
                          [] e.o = ">"  -> Ok(Bool(a.v > b.v))
                          [] e.o = "<=" -> Ok(Bool(a.v <= b.v))
                          [] e.o = ">=" -> Ok(Bool(a.v >= b.v))
                          [] e.o \in {"\\", "MOD"} ->
                                IF ~InInt16(a.v) \/ ~InInt16(b.v) THEN Er(6)
                                ELSE IF b.v = 0 THEN (IF s.onerr # 0 THEN Er(11) ELSE Er(-1))
                                \* (-32768 MOD -1: the quotient overflows; what MOD does then is judged by C02, here the
                                \*  machine follows the interpreter, which returns the remainder 0)
                                ELSE IF e.o = "\\" /\ ~InInt16(TDiv(a.v, b.v)) THEN Er(6)
                                ELSE Ok(IF e.o = "MOD" THEN TMod(a.v, b.v) ELSE TDiv(a.v, b.v))
                          [] e.o \in {"AND", "OR"} ->
                                IF ~InInt16(a.v) \/ ~InInt16(b.v) THEN Er(6)
                                ELSE Ok(IF e.o = "AND" THEN AndI(a.v, b.v) ELSE OrI(a.v, b.v))

\* an evaluation failure becomes a BASIC error or leaves the fragment
Fail(s, r) == IF r.code = -1 THEN Frag(s) ELSE Raise(s, r.code)
\* conversion to the type of variable v (integers only: a range check)
Conv(s, v, x) == IF IsIntVar(s, v) /\ ~InInt16(x) THEN Er(6) ELSE Ok(x)
SetVar(s, v, x) == [s EXCEPT !.vars[VarIdx(s, v)] = x, !.havoc = @ \ {Res(s, v)}]
Adv(s) == [s EXCEPT !.pc = After(s, s.cur)]
\* jump to line n (Undefined line number otherwise)
Jump(s, n) == IF LineIdx(s, n) = 0 THEN Raise(s, 8) ELSE [s EXCEPT !.pc = <<LineIdx(s, n), 1>>]

(* ---------------- FOR / NEXT ---------------- *)
\* increment-and-test of the loop whose NEXT position is npos; named: the variable named in the NEXT ("" if none)
\* result: [s, cont]  cont = TRUE: loop continues (or an error was raised): the NEXT statement is finished
Iterate(s, npos, named) ==
    LET cands == {d \in 1..Len(s.fors) : s.fors[d].npos = npos} IN
    IF cands = {} THEN [s |-> Raise(s, 1), cont |-> TRUE] ELSE
    LET d  == CHOOSE x \in cands : \A y \in cands : y <= x
        r  == s.fors[d] IN
    IF named # "" /\ named # r.v THEN [s |-> Raise(s, 1), cont |-> TRUE] ELSE
    LET s1  == [s EXCEPT !.fors = SubSeq(s.fors, 1, d)]
        nv  == Get(s, r.v) + r.step
        cv  == Conv(s, r.v, nv) IN
    \* (counter overflow is reported on the line of the NEXT, also when a skipped FOR increments the counter once)
    IF ~cv.ok THEN [s |-> RaiseAt(s1, 6, LineNo(s, <<npos[1], npos[2]>>)), cont |-> TRUE] ELSE
    IF Abs(nv) > Limit THEN [s |-> Frag(s1), cont |-> TRUE] ELSE
    LET s2   == SetVar(s1, r.v, nv)
        ends == IF r.sgn > 0 THEN nv > r.stop ELSE r.stop > nv IN
    IF ends THEN [s |-> [s2 EXCEPT !.fors = SubSeq(s.fors, 1, d - 1)], cont |-> FALSE]
    ELSE [s |-> [s2 EXCEPT !.pc = r.fpc], cont |-> TRUE]

RECURSIVE NextFrom(_, _, _)
NextFrom(s, st, j) ==
    IF j > Max(1, Len(st.vs)) THEN Adv(s)
    ELSE LET r == Iterate(s, <<s.cur[1], s.cur[2], j>>, IF Len(st.vs) = 0 THEN "" ELSE st.vs[j]) IN
         IF r.cont THEN r.s ELSE NextFrom(r.s, st, j + 1)

DoFor(s, st) ==
    LET ra == Eval(s, st.a) IN IF ~ra.ok THEN Fail(s, ra) ELSE
    LET ca == Conv(s, st.v, ra.v) IN IF ~ca.ok THEN Raise(s, 6) ELSE
    LET rb == Eval(s, st.b) IN IF ~rb.ok THEN Fail(s, rb) ELSE
    LET cb == Conv(s, st.v, rb.v) IN IF ~cb.ok THEN Raise(s, 6) ELSE
    LET rc == Eval(s, st.c) IN IF ~rc.ok THEN Fail(s, rc) ELSE
    LET cc == Conv(s, st.v, rc.v) IN IF ~cc.ok THEN Raise(s, 6) ELSE
    LET m == ScanNext(s, <<s.cur[1], s.cur[2] + 1>>, 0) IN
    IF ~m.ok THEN Raise(s, 26) ELSE
    IF m.name # "" /\ m.name # st.v THEN Frag(s) ELSE        \* statically mismatched NEXT variable: not generated
    IF rc.v = 0 THEN Frag(s) ELSE                             \* STEP 0: direction undefined, outside the fragment
    LET rec == [v |-> st.v, stop |-> rb.v, step |-> rc.v, sgn |-> Sgn(rc.v), fpc |-> After(s, s.cur), npos |-> m.pos]
        s1  == [SetVar(s, st.v, ra.v) EXCEPT !.fors = Append(s.fors, rec)]
        skip == IF rc.v >= 0 THEN ra.v > rb.v ELSE rb.v > ra.v IN
    IF ~skip THEN Adv(s1) ELSE
    \* empty loop: continue after the matching NEXT variable; the counter is still incremented once
    LET r == Iterate(s1, m.pos, "")
        nx == StmtAt(s, <<m.pos[1], m.pos[2]>>) IN
    IF r.cont THEN r.s
    ELSE IF m.pos[3] < Len(nx.vs) THEN Frag(r.s)              \* skipped inner loop of NEXT a,b: not generated
    ELSE [r.s EXCEPT !.pc = After(s, <<m.pos[1], m.pos[2]>>)]

(* ---------------- WHILE / WEND ---------------- *)
CheckWhile(s, wpc, after) ==      \* re-evaluate the condition of the WHILE at wpc (top of the stack)
    LET r == Eval(s, StmtAt(s, wpc).e) IN
    IF ~r.ok THEN Frag(s) ELSE       \* failing WHILE conditions are not generated (error position is unusual)
    IF r.v # 0 THEN [s EXCEPT !.pc = After(s, wpc)]
    ELSE [s EXCEPT !.whiles = SubSeq(s.whiles, 1, Len(s.whiles) - 1), !.pc = after]

DoWhile(s, st) ==
    LET w == ScanWend(s, <<s.cur[1], s.cur[2] + 1>>, 0) IN
    IF w = None THEN Raise(s, 29) ELSE
    LET s1 == [s EXCEPT !.whiles = Append(s.whiles, [wpc |-> s.cur, wend |-> w])] IN
    CheckWhile(s1, s.cur, After(s, w))

RECURSIVE PopWhiles(_, _)
PopWhiles(ws, cur) == IF ws = <<>> THEN ws
                      ELSE IF ws[Len(ws)].wend = cur THEN ws ELSE PopWhiles(SubSeq(ws, 1, Len(ws) - 1), cur)
DoWend(s) ==
    LET ws == PopWhiles(s.whiles, s.cur)
        s1 == [s EXCEPT !.whiles = ws] IN
    IF ws = <<>> THEN Raise(s1, 30) ELSE CheckWhile(s1, ws[Len(ws)].wpc, After(s, s.cur))

(* ---------------- GOSUB / RETURN / ON ---------------- *)
Sub(s, n, ret, h) ==
    IF LineIdx(s, n) = 0 THEN Raise(s, 8)
    ELSE [s EXCEPT !.gosubs = Append(s.gosubs, [ret |-> ret, h |-> h]), !.pc = <<LineIdx(s, n), 1>>]

DoReturn(s, st) ==
    IF s.gosubs = <<>> THEN Raise(s, 3) ELSE
    LET f  == s.gosubs[Len(s.gosubs)]
        s1 == [s EXCEPT !.gosubs = SubSeq(s.gosubs, 1, Len(s.gosubs) - 1),
                        !.traps.stopped = IF f.h # 0 THEN [@ EXCEPT ![f.h] = FALSE] ELSE @] IN
    IF st.n = 0 THEN [s1 EXCEPT !.pc = f.ret] ELSE Jump(s1, st.n)

DoOn(s, st) ==
    LET r == Eval(s, st.e) IN IF ~r.ok THEN Fail(s, r) ELSE
    IF ~InInt16(r.v) THEN Raise(s, 6) ELSE                    \* the selector is converted to a 16-bit integer first
    IF r.v < 0 \/ r.v > 255 THEN Raise(s, 5) ELSE
    IF r.v = 0 \/ r.v > Len(st.ns) THEN Adv(s) ELSE
    IF st.t = "GOTO" THEN Jump(s, st.ns[r.v]) ELSE Sub(s, st.ns[r.v], After(s, s.cur), 0)

\* The ELSE that belongs to the IF at position p: the first ELSE after it on the line that is not claimed by an IF nested in
\* between (an ELSE binds to the nearest IF that has none yet).  0: the IF has no ELSE.  depth = IFs seen and still without ELSE.
RECURSIVE ElseScan(_, _, _, _)
ElseScan(s, li, j, depth) ==
    IF j > Len(Stmts(s, li)) THEN 0
    ELSE LET o == Stmts(s, li)[j].op IN
         IF o = "IF" THEN ElseScan(s, li, j + 1, depth + 1)
         ELSE IF o = "ELSE" THEN (IF depth = 0 THEN j ELSE ElseScan(s, li, j + 1, depth - 1))
         ELSE ElseScan(s, li, j + 1, depth)
ElseIdx(s, p) == ElseScan(s, p[1], p[2] + 1, 0)
DoIf(s, st) ==
    LET r == Eval(s, st.e) IN IF ~r.ok THEN Fail(s, r) ELSE
    IF r.v # 0 THEN (IF st.tn # 0 THEN Jump(s, st.tn) ELSE Adv(s))
    ELSE LET ei == ElseIdx(s, s.cur) IN
         IF ei = 0 THEN [s EXCEPT !.pc = NextLine(s.cur)]
         ELSE LET es == Stmts(s, s.cur[1])[ei]
                  en == IF "n" \in DOMAIN es THEN es.n ELSE st.en        \* ELSE <line>: on the ELSE itself, or (one IF per line) on the IF
              IN  IF en # 0 THEN Jump(s, en)
                  ELSE [s EXCEPT !.pc = Norm(s, <<s.cur[1], ei + 1>>)]

(* ---------------- error trapping ---------------- *)
DoOnErr(s, st) ==
    IF st.n # 0 /\ LineIdx(s, st.n) = 0 THEN Raise(s, 8) ELSE
    LET s1 == [s EXCEPT !.onerr = st.n] IN
    IF st.n = 0 /\ s.inh
    THEN [s1 EXCEPT !.inh = FALSE, !.run = FALSE,
                    !.stat = [k |-> "error", code |-> s.err, line |-> IF s.erl = 65535 THEN -2 ELSE s.erl]]
    ELSE Adv(s1)

DoResume(s, st) ==
    IF s.resume = None THEN Raise([s EXCEPT !.onerr = 0], 20) ELSE
    LET s1 == [s EXCEPT !.err = 0, !.inh = FALSE, !.susp = FALSE, !.resume = None] IN
    CASE st.w = "0"    -> [s1 EXCEPT !.pc = s.resume]
      [] st.w = "NEXT" -> [s1 EXCEPT !.pc = Norm(s, NextColon(s, s.resume))]
      [] st.w = "LINE" -> Jump(s1, st.n)

DoError(s, st) ==
    LET r == Eval(s, st.e) IN IF ~r.ok THEN Fail(s, r) ELSE
    IF ~InInt16(r.v) THEN Raise(s, 6) ELSE
    IF r.v < 1 \/ r.v > 255 THEN Raise(s, 5) ELSE Raise(s, r.v)

(* ---------------- READ / DATA / RESTORE ---------------- *)
RECURSIVE ReadFrom(_, _, _)
ReadFrom(s, st, j) ==
    IF j > Len(st.vs) THEN Adv(s) ELSE
    LET it == Items(s) IN
    IF s.dp > Len(it) THEN Raise(s, 4) ELSE
    LET item == it[s.dp] v == st.vs[j] IN
    IF IsStrVar(s, v)
    THEN \* a string variable takes any item as it is written
         ReadFrom([SetVar(s, v, StrBase + item.v) EXCEPT !.dp = s.dp + 1], st, j + 1)
    ELSE IF ~item.num
    THEN \* non-numeric item into a numeric variable: Syntax error reported on the DATA line; the value
         \* left in the variable is not specified; the item is not consumed
         RaiseAt([s EXCEPT !.havoc = @ \cup {Res(s, v)}], 2, LineNo(s, <<item.li, 1>>))
    ELSE IF ~Conv(s, v, item.v).ok THEN Raise(s, 6)
    ELSE ReadFrom([SetVar(s, v, item.v) EXCEPT !.dp = s.dp + 1], st, j + 1)

DoRestore(s, st) ==
    IF st.n = 0 THEN Adv([s EXCEPT !.dp = 1])
    ELSE IF LineIdx(s, st.n) = 0 THEN Raise(s, 8)
    ELSE Adv([s EXCEPT !.dp = FirstItemFrom(s, LineIdx(s, st.n))])

(* ---------------- event traps ---------------- *)
DoTrapCmd(s, st) ==
    Adv(CASE st.c = "ON"   -> [s EXCEPT !.traps.enabled = @ \cup {st.k}, !.traps.stopped[st.k] = FALSE]
          [] st.c = "OFF"  -> [s EXCEPT !.traps.enabled = @ \ {st.k}]
          [] st.c = "STOP" -> [s EXCEPT !.traps.stopped[st.k] = TRUE])
DoOnTrap(s, st) ==
    IF st.n # 0 /\ LineIdx(s, st.n) = 0 THEN Raise(s, 8)
    ELSE Adv([s EXCEPT !.traps.gosub[st.k] = st.n])

\* environment: event k occurs at a statement boundary; it is recorded iff the program runs and the trap is ON or STOPped
Occur(s, k) == IF s.run /\ k \in s.traps.enabled THEN [s EXCEPT !.traps.triggered[k] = TRUE] ELSE s

\* traps are dispatched only while the pointer is in the program (not while a direct line executes)
Dispatchable(s) == IF ~s.run \/ s.susp \/ ~InProgram(s) THEN {}
                   ELSE {k \in s.traps.enabled : s.traps.triggered[k] /\ ~s.traps.stopped[k] /\ s.traps.gosub[k] # 0}
Dispatch1(s, k) ==
    [s EXCEPT !.traps.triggered[k] = FALSE, !.traps.stopped[k] = TRUE,
              !.gosubs = Append(s.gosubs, [ret |-> s.pc, h |-> k]),
              !.pc = <<LineIdx(s, s.traps.gosub[k]), 1>>]
RECURSIVE DispatchSeq(_, _)
DispatchSeq(s, order) == IF order = <<>> THEN s ELSE DispatchSeq(Dispatch1(s, Head(order)), Tail(order))
\* all dispatchable traps are dispatched at the same boundary, in an order the property leaves open
Orders(S) == {o \in [1..Cardinality(S) -> S] : \A i, j \in 1..Cardinality(S) : i # j => o[i] # o[j]}
Dispatched(s) == {DispatchSeq(s, o) : o \in Orders(Dispatchable(s))}

(* ---------------- RUN / CLEAR (C23) ---------------- *)
\* CLEAR: no variable, DEF FN, loop or subroutine stack, error trap, event trap or DATA position survives; execution
\* continues with the next statement.  (keepGosub = TRUE gives the behaviour of the pinned code, which keeps the
\* GOSUB stack: a listed known finding; traces only explained that way are reported as such, never silently accepted.)
Cleared(s, keepGosub) ==
    [s EXCEPT !.vars = [i \in 1..Len(s.vars) |-> 0], !.havoc = {}, !.fns = <<>>, !.dti = {}, !.dts = {},
              !.fors = <<>>, !.whiles = <<>>, !.gosubs = IF keepGosub THEN @ ELSE <<>>,
              !.onerr = 0, !.inh = FALSE, !.resume = None, !.err = 0, !.erl = 0,
              !.traps = NoTraps, !.susp = FALSE, !.dp = 1,
              !.kf = @ \/ (keepGosub /\ s.gosubs # <<>>)]
\* RUN [n] inside a program: everything is reset as at the start and execution continues at line n
DoRun(s, st) ==
    LET s1 == [Start(s.prog) EXCEPT !.cur = s.cur, !.kf = s.kf] IN
    IF st.n = 0 THEN s1
    ELSE IF LineIdx(s, st.n) = 0 THEN RaiseAt(s1, 8, -1)      \* the line reported for a RUN to a missing line is left open
    ELSE Jump(s1, st.n)

\* a line typed at the prompt after the program has stopped: the machine keeps its state (variables, armed error
\* trap, event traps, stacks) and executes the statements of the direct line
StartDirect(s, dl) == [s EXCEPT !.dl = dl, !.pc = <<0, 1>>, !.cur = <<0, 1>>, !.run = TRUE, !.out = <<>>,
                                !.stat = [k |-> "run", code |-> 0, line |-> 0]]

StrOperand(s, e) == e.k = "v" /\ IsStrVar(s, e.n) /\ Res(s, e.n) \notin s.havoc
(* ---------------- one statement ---------------- *)
Exec(s0) ==
    LET p == s0.pc IN
    IF AtEnd(s0, p) /\ p[1] = 0                 \* the direct line is finished: back to the prompt
    THEN [s0 EXCEPT !.run = FALSE, !.stat = [k |-> "end", code |-> 0, line |-> 0]]   \* (not a logged boundary: out is kept)
    ELSE IF AtEnd(s0, p)
    THEN IF s0.resume # None
         THEN [s0 EXCEPT !.run = FALSE, !.out = <<>>, !.err = 19, !.inh = FALSE, !.stat = [k |-> "error", code |-> 19, line |-> -1]]
         ELSE [s0 EXCEPT !.run = FALSE, !.out = <<>>, !.stat = [k |-> "end", code |-> 0, line |-> 0]]
    ELSE
    LET st == StmtAt(s0, p)
        s  == [s0 EXCEPT !.cur = p, !.out = <<>>] IN
    CASE st.op = "LET"    -> \* (a string variable is only ever assigned another string variable; mixing the kinds is a Type mismatch)
                             IF IsStrVar(s, st.v) \/ StrOperand(s, st.e)
                             THEN IF IsStrVar(s, st.v) /\ StrOperand(s, st.e) THEN Adv(SetVar(s, st.v, Get(s, st.e.n)))
                                  ELSE IF st.e.k \in {"v", "c"} THEN Raise(s, 13) ELSE Frag(s)
                             ELSE LET r == Eval(s, st.e) IN IF ~r.ok THEN Fail(s, r)
                             ELSE IF ~Conv(s, st.v, r.v).ok THEN Raise(s, 6) ELSE Adv(SetVar(s, st.v, r.v))
      [] st.op = "PRINT"  -> IF StrOperand(s, st.e)          \* the text of the string: nothing for the empty one, else its number
                             THEN Adv([s EXCEPT !.out = IF Get(s, st.e.n) = 0 THEN <<>> ELSE <<Get(s, st.e.n) - StrBase>>])
                             ELSE LET r == Eval(s, st.e) IN IF ~r.ok THEN Fail(s, r) ELSE Adv([s EXCEPT !.out = <<r.v>>])
      \* (loop counters whose type depends on DEFINT are outside the fragment)
      [] st.op = "FOR"    -> IF IsBare(s, st.v) THEN Frag(s) ELSE DoFor(s, st)
      [] st.op = "NEXT"   -> IF \E j \in 1..Len(st.vs) : IsBare(s, st.vs[j]) THEN Frag(s) ELSE NextFrom(s, st, 1)
      [] st.op = "WHILE"  -> DoWhile(s, st)
      [] st.op = "WEND"   -> DoWend(s)
      [] st.op = "GOTO"   -> Jump(s, st.n)
      [] st.op = "GOSUB"  -> Sub(s, st.n, After(s, s.cur), 0)
      [] st.op = "RETURN" -> DoReturn(s, st)
      [] st.op = "IF"     -> DoIf(s, st)
      [] st.op = "ELSE"   -> [s EXCEPT !.pc = NextLine(s.cur)]
      [] st.op = "ON"     -> DoOn(s, st)
      [] st.op = "END"    -> [s EXCEPT !.run = FALSE, !.inh = FALSE, !.resume = None, !.stat = [k |-> "end", code |-> 0, line |-> 0]]
      [] st.op = "STOP"   -> [s EXCEPT !.run = FALSE, !.stat = [k |-> "break", code |-> 0, line |-> LineNo(s, p)]]
      [] st.op = "ONERR"  -> DoOnErr(s, st)
      [] st.op = "RESUME" -> DoResume(s, st)
      [] st.op = "ERROR"  -> DoError(s, st)
      [] st.op = "READ"   -> ReadFrom(s, st, 1)
      [] st.op = "DATA"   -> Adv(s)
      [] st.op = "RESTORE" -> DoRestore(s, st)
      [] st.op = "TRAP"   -> DoTrapCmd(s, st)
      [] st.op = "ONTRAP" -> DoOnTrap(s, st)
      [] st.op = "RUN"    -> DoRun(s, st)
      [] st.op = "DEFFN"  -> Adv([s EXCEPT !.fns = Append(@, [f |-> st.f, ps |-> st.ps, e |-> st.e])])
      [] st.op = "DEFTYPE" -> LET ns == {st.ns[j] : j \in 1..Len(st.ns)} IN       \* t: "%" DEFINT, "!" DEFSNG, "$" DEFSTR
                              Adv([s EXCEPT !.dti = IF st.t = "%" THEN @ \cup ns ELSE @ \ ns,
                                            !.dts = IF st.t = "$" THEN @ \cup ns ELSE @ \ ns])
      [] st.op = "REM"    -> [s EXCEPT !.pc = NextLine(s.cur)]

\* a statement boundary: dispatch pending traps (any order), then execute one statement
IsClearAt(d) == ~AtEnd(d, d.pc) /\ StmtAt(d, d.pc).op = "CLEAR"
Steps(s) == UNION {IF IsClearAt(d)
                   THEN LET c == [d EXCEPT !.cur = d.pc, !.out = <<>>] IN
                        {Adv(Cleared(c, FALSE))} \cup (IF d.gosubs # <<>> THEN {Adv(Cleared(c, TRUE))} ELSE {})
                   ELSE {Exec(d)} : d \in Dispatched(s)}

(* ---------------- observation ---------------- *)
\* what a BASIC user can see at a statement boundary
Obs(s) == [line |-> LineNo(s, s.pc), vars |-> s.vars, out |-> s.out]
=============================================================================
