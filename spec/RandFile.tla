------------------------------ MODULE RandFile ------------------------------
(* Random-access files (property C25), functional-core style.

   A file on the disk is a byte sequence `disk[name]`; a file number that is
   open FOR RANDOM has a record length, the number of the last record accessed
   (`loc`, LOC) and a record buffer of `reclen` bytes into which FIELD
   variables point.  The property is stated twice:

   (1) RECORD LEVEL, in the words of the statement, over history variables
       (the bytes last PUT to each record, the highest record written): the
       invariants RecordsAsPut / LofIsReclenTimesHighest / LocIsLastAccessed
       below.  TLC checks them on every reachable state of the bounded model
       RandFile_MC, i.e. it checks that the byte-level transition function
       Effect implies the record-level property for files used with one record
       length.
   (2) BYTE LEVEL: Must(st, a) names the outcome the property DEMANDS of an
       operation ("ok", "err63") or leaves open ("any"); Effect(st, a) is the
       state after a successful operation.  The trace specification
       RandFile_Trace judges the real interpreter with these two operators.

   Record numbers: `imp = TRUE` is PUT #n / GET #n without a number, which
   addresses the record after the last one accessed (record 1 after OPEN).   *)
EXTENDS Integers, Sequences, FiniteSets

CONSTANTS FileNums,     \* file numbers, e.g. 1..2
          Names,        \* distinct files on the disk
          AsCoded       \* TRUE: PUT as in the pinned code before the repair (selftest: TLC must find the defect)

MaxRecNo == 33554432                      \* 2^25, from the statement
Zeros(k)  == [i \in 1..k |-> 0]
Spaces(k) == [i \in 1..k |-> 32]
Max(a, b) == IF a >= b THEN a ELSE b
Min(a, b) == IF a <= b THEN a ELSE b

(* ---- record view of a byte sequence ------------------------------------ *)
\* number of complete records in d (no multiplication: record numbers go up to 2^25, TLC integers are 32-bit)
FullRecs(d, rl) == Len(d) \div rl
\* record n lies completely below the end
BelowEnd(d, rl, n) == n >= 1 /\ n <= FullRecs(d, rl)
\* the bytes of record n, missing bytes read as zero
RecBytes(d, rl, n) ==
    IF n > FullRecs(d, rl) + 1 THEN Zeros(rl)
    ELSE [i \in 1..rl |-> IF (n - 1) * rl + i <= Len(d) THEN d[(n - 1) * rl + i] ELSE 0]
\* d with record n replaced by b, the gap (if any) filled with zero bytes
PutBytes(d, rl, n, b) ==
    LET start == (n - 1) * rl
        len   == Max(Len(d), start + rl)
    IN  [i \in 1..len |-> IF i > start /\ i <= start + rl THEN b[i - start]
                          ELSE IF i <= Len(d) THEN d[i] ELSE 0]
\* diskfiles.RandomFile.put before the repair: the record INDEX is compared with the BYTE length of the file, and
\* (index - length) records of zeros are appended before the record is written at the new end of the file
CodedPut(d, rl, n, b) ==
    IF n - 1 > Len(d) THEN d \o Zeros((n - 1 - Len(d)) * rl) \o b
    ELSE PutBytes(d, rl, n, b)
ThePut(d, rl, n, b) == IF AsCoded THEN CodedPut(d, rl, n, b) ELSE PutBytes(d, rl, n, b)

(* ---- FIELD variables: LSET / RSET (GW-BASIC manual: pad with blanks, drop characters on the right) -------- *)
Justify(s, w, right) ==
    LET t == SubSeq(s, 1, Min(Len(s), w))
    IN  IF right THEN Spaces(w - Len(t)) \o t ELSE t \o Spaces(w - Len(t))
\* buffer b with the w bytes after offset off replaced by v (Len(v) = w)
Splice(b, off, w, v) == [i \in 1..Len(b) |-> IF i > off /\ i <= off + w THEN v[i - off] ELSE b[i]]

(* ---- state --------------------------------------------------------------- *)
Closed == [open |-> FALSE]
InitSt == [disk |-> [x \in Names |-> <<>>],
           fil  |-> [n \in FileNums |-> Closed],
           buf  |-> [n \in FileNums |-> <<>>]]

IsOpen(st, n) == st.fil[n].open
NameOpen(st, x) == \E n \in FileNums : IsOpen(st, n) /\ st.fil[n].name = x

\* the record an access addresses
Target(st, a) == IF a.imp THEN st.fil[a.n].loc + 1 ELSE a.rec

\* action records: [op, n] + open: name, reclen; lset/rset: off, w, s; put/get: imp, rec; field: widths
Must(st, a) ==
    CASE a.op \in {"put", "get"} ->
           IF Target(st, a) < 1 \/ Target(st, a) > MaxRecNo THEN "err63" ELSE "ok"
      [] a.op \in {"lset", "rset"} -> "ok"
      [] OTHER -> "any"

\* is GET's result fixed by the statement?  (a record never written and not below the end is not)
GetDetermined(st, a) == LET f == st.fil[a.n] IN BelowEnd(st.disk[f.name], f.reclen, Target(st, a))

\* effect of an operation that succeeded (a failed operation leaves the state unchanged)
Effect(st, a) ==
    CASE a.op = "open"  -> [st EXCEPT !.fil[a.n] = [open |-> TRUE, name |-> a.name, reclen |-> a.reclen, loc |-> 0, acc |-> FALSE],
                                      !.buf[a.n] = Zeros(a.reclen)]     \* buffer after OPEN: reference choice, not demanded
      [] a.op = "close" -> [st EXCEPT !.fil[a.n] = Closed, !.buf[a.n] = <<>>]
      [] a.op \in {"lset", "rset"} ->
           [st EXCEPT !.buf[a.n] = Splice(@, a.off, a.w, Justify(a.s, a.w, a.op = "rset"))]
      [] a.op = "put" ->
           LET f == st.fil[a.n]  t == Target(st, a)
           IN  [st EXCEPT !.disk[f.name] = ThePut(@, f.reclen, t, st.buf[a.n]),
                          !.fil[a.n].loc = t, !.fil[a.n].acc = TRUE]
      [] a.op = "get" ->
           LET f == st.fil[a.n]  t == Target(st, a)
           IN  [st EXCEPT !.buf[a.n] = RecBytes(st.disk[f.name], f.reclen, t),
                          !.fil[a.n].loc = t, !.fil[a.n].acc = TRUE]
      [] OTHER -> st

\* is an observed outcome (ok: BOOLEAN, code) acceptable?
Accepts(must, ok, code) ==
    CASE must = "any"   -> TRUE
      [] must = "ok"    -> ok
      [] must = "err63" -> ~ok /\ code = 63

\* the reference implementation (behaviour generation only) succeeds unless failure is demanded
RefOk(st, a) == Must(st, a) \in {"any", "ok"}
Apply(st, a) == IF RefOk(st, a) THEN Effect(st, a) ELSE st

(* ---- the property at record level, over history variables ----------------
   h.put[x]  : record number -> bytes last PUT to it   (function with finite domain)
   h.hi[x]   : highest record number written (0 = none)
   h.rl[x]   : the record length every PUT so far used (0: no PUT yet, -1: several lengths -> statement not applicable)  *)
InitH == [put |-> [x \in Names |-> <<>>], hi |-> [x \in Names |-> 0], rl |-> [x \in Names |-> 0]]

\* history after a SUCCESSFUL operation a in state st
HistAfter(h, st, a) ==
    IF a.op # "put" THEN h
    ELSE LET f == st.fil[a.n]  x == f.name  t == Target(st, a)
             uniform == h.rl[x] \in {0, f.reclen}
         IN  [put |-> [h.put EXCEPT ![x] = [k \in (DOMAIN @) \cup {t} |-> IF k = t THEN st.buf[a.n] ELSE @[k]]],
              hi  |-> [h.hi EXCEPT ![x] = Max(@, t)],
              rl  |-> [h.rl EXCEPT ![x] = IF uniform THEN f.reclen ELSE -1]]

Uniform(h, x) == h.rl[x] > 0
\* GET of a record yields exactly the bytes last PUT to it, zero bytes if it was never written but lies below the end
RecordsAsPut(st, h) ==
    \A x \in Names : Uniform(h, x) =>
        \A k \in 1..h.hi[x] :
            RecBytes(st.disk[x], h.rl[x], k) = IF k \in DOMAIN h.put[x] THEN h.put[x][k] ELSE Zeros(h.rl[x])
\* LOF equals the record length times the highest record written
LofIsReclenTimesHighest(st, h) ==
    \A x \in Names : Uniform(h, x) => Len(st.disk[x]) = h.rl[x] * h.hi[x]
\* every open file's buffer has the record length
BufferShape(st) == \A n \in FileNums : IsOpen(st, n) => Len(st.buf[n]) = st.fil[n].reclen
=============================================================================
