------------------------------ MODULE Expr_Gen ------------------------------
(* Generator of expression trees for C18 (spec -> code direction) and the
   self-check of the rendering against the parser.  Every tree of the chosen
   family that stays inside the exact fragment is printed as JSON together
   with its text in each style (a style only where its text differs from
   the texts of the styles before it).
     Family "prec"    all trees up to depth MaxDepth over ONE operator per precedence level
                      (plus both * and /) and three integer leaves: precedence and grouping
     Family "typing"  all trees up to depth MaxDepth over ALL operators and leaves of every
                      type (integer, single, double, string; literals and variables)
     Family "hole"    trees of family "typing" (numeric and string leaves) whose rightmost operand is missing
     Family "random"  NRandom random trees up to depth MaxDepth over all operators and leaves   *)
EXTENDS Expr, TLC, Json
CONSTANTS Family, MaxDepth, NRandom,
          MaxOps,      \* bound on the number of operators of an emitted tree (family "prec")
          Positional   \* TRUE: only trees whose leaves read left to right 4, 2, 3, 2 (family "prec", quick tier)
VARIABLES t, i
vars == <<t, i>>

Leaf(x, v) == [k |-> "leaf", x |-> x, v |-> v]
NumV(ty, n, d) == [k |-> "num", ty |-> ty, n |-> n, d |-> d]
Q == "\""
\* variables are preset by the harness from this table (emitted as the VARS line)
Vars == <<[name |-> "A%", v |-> NumV("%", 5, 1)], [name |-> "B!", v |-> NumV("!", 5, 2)],
          [name |-> "C#", v |-> NumV("#", 1, 8)], [name |-> "S$", v |-> Str(<<66>>)]>>
VarLeaves == {Leaf(Vars[j].name, Vars[j].v) : j \in 1..Len(Vars)}

IntLeaves == {Leaf("2", NumV("%", 2, 1)), Leaf("3", NumV("%", 3, 1)), Leaf("4", NumV("%", 4, 1))}
TypLeaves == {Leaf("2", NumV("%", 2, 1)), Leaf("3%", NumV("%", 3, 1)), Leaf("0", NumV("%", 0, 1)),
              Leaf("1.5", NumV("!", 3, 2)), Leaf("2!", NumV("!", 2, 1)), Leaf(".25", NumV("!", 1, 4)),
              Leaf("2#", NumV("#", 2, 1)), Leaf(".5#", NumV("#", 1, 2)), Leaf("40000", NumV("!", 40000, 1)),
              Leaf(Q \o "A" \o Q, Str(<<65>>)), Leaf(Q \o "AB" \o Q, Str(<<65, 66>>)), Leaf(Q \o Q, Str(<<>>))}
             \cup VarLeaves
PrecBin == {"^", "*", "/", "\\", "MOD", "-", "<", "AND", "OR", "XOR", "EQV", "IMP"}

RECURSIVE Trees(_, _, _)
Trees(d, leaves, bops) ==
    IF d = 0 THEN leaves
    ELSE LET Sub == Trees(d - 1, leaves, bops)
         IN  Sub \cup {[k |-> "un", op |-> o, a |-> a] : o \in UnOps, a \in Sub}
               \cup {[k |-> "bin", op |-> o, l |-> l, r |-> r] : o \in bops, l \in Sub, r \in Sub}

RECURSIVE Punch(_)
Punch(x) == CASE x.k = "leaf" -> [k |-> "hole"]
              [] x.k = "un" -> [x EXCEPT !.a = Punch(x.a)]
              [] x.k = "bin" -> [x EXCEPT !.r = Punch(x.r)]

Pick(Set) == RandomElement(Set)
RECURSIVE RandTree(_)
NumLeaves == {x \in TypLeaves : x.v.k = "num"}
RandTree(d) ==
    IF d = 0 \/ Pick(1..6) = 1 THEN (IF Pick(1..12) = 1 THEN Pick(TypLeaves) ELSE Pick(NumLeaves))
    ELSE IF Pick(1..5) = 1 THEN [k |-> "un", op |-> Pick(UnOps), a |-> RandTree(d - 1)]
    ELSE [k |-> "bin", op |-> Pick(BinOps), l |-> RandTree(d - 1), r |-> RandTree(d - 1)]

RECURSIVE NOps(_), LeafSeq(_)
NOps(x) == CASE x.k \in {"leaf", "hole"} -> 0 [] x.k = "un" -> 1 + NOps(x.a) [] x.k = "bin" -> 1 + NOps(x.l) + NOps(x.r)
LeafSeq(x) == CASE x.k = "leaf" -> <<x.x>> [] x.k = "hole" -> <<>> [] x.k = "un" -> LeafSeq(x.a) [] x.k = "bin" -> LeafSeq(x.l) \o LeafSeq(x.r)
Keep(x) == Family # "prec" \/ NOps(x) <= MaxOps
\* quick tier of family "prec": shapes over one placeholder leaf, leaves then numbered 4, 2, 3, 2 from left to right
PosLeaves == <<Leaf("4", NumV("%", 4, 1)), Leaf("2", NumV("%", 2, 1)), Leaf("3", NumV("%", 3, 1)), Leaf("2", NumV("%", 2, 1))>>
RECURSIVE Relabel(_, _)
Relabel(x, j) ==          \* [t |-> relabelled tree, j |-> next leaf index]
    CASE x.k = "leaf" -> [t |-> PosLeaves[((j - 1) % 4) + 1], j |-> j + 1]
      [] x.k = "un"   -> LET a == Relabel(x.a, j) IN [t |-> [x EXCEPT !.a = a.t], j |-> a.j]
      [] x.k = "bin"  -> LET l == Relabel(x.l, j)
                             r == Relabel(x.r, l.j)
                         IN  [t |-> [x EXCEPT !.l = l.t, !.r = r.t], j |-> r.j]
Shapes == {x \in Trees(MaxDepth, {Leaf("4", NumV("%", 4, 1))}, PrecBin) : NOps(x) <= MaxOps}

\* PRINT shows 7 significant digits: the printed number is the value itself for these
Printable(x) == LET v == Eval(x) IN v.k # "num" \/ (v.d <= 8 /\ Abs(v.n) < 8192)
Styles == <<"min", "full", "left", "right">>
Emit(x) ==
    LET txt == [s \in 1..4 |-> Render(x, Styles[s])]
    IN  \A s \in 1..4 :
            (\A s0 \in 1..(s - 1) : txt[s0] # txt[s]) =>
                PrintT(<<"EXPR", ToJson([t |-> x, x |-> txt[s], style |-> Styles[s], pr |-> Printable(x)])>>)
InFragment(x) == Eval(x).k # "out"

Init == /\ CASE Family = "prec"   -> (IF Positional THEN t \in {Relabel(x, 1).t : x \in Shapes}
                                      ELSE t \in Trees(MaxDepth, IntLeaves, PrecBin)) /\ i = 0
             [] Family = "typing" -> t \in Trees(MaxDepth, TypLeaves, BinOps) /\ i = 0
             [] Family = "hole"   -> t \in {Punch(x) : x \in Trees(MaxDepth, TypLeaves, BinOps)} /\ i = 0
             [] Family = "random" -> i \in 1..NRandom /\ t = RandTree(MaxDepth)
        /\ Keep(t)
        /\ InFragment(t)
        /\ Emit(t)
Next == UNCHANGED vars
Spec == Init /\ [][Next]_vars

VarsLine == PrintT(<<"VARS", ToJson(Vars)>>)
ASSUME VarsLine

\* rendering and parsing are inverse; the rendering in "min" style has no removable pair of parentheses at the top
RoundTrip == \A s \in 1..4 : Parse(Toks(t, Styles[s])) = t
=============================================================================
