SPECIFICATION OSpec
CONSTANTS
  A <- HA
  C <- HC
INVARIANT ODone
CHECK_DEADLOCK FALSE
