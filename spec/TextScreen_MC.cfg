SPECIFICATION Spec
CONSTANTS
  TextWidths = {5, 3}
  W = 5
  H = 4
  W2 = 3
  Chars = {65, 66}
  Walk = FALSE
  D = 2
INVARIANT Inv
INVARIANT PlacementLaw
PROPERTY OutsideWindowUnchanged
PROPERTY LocateReported
PROPERTY LocateOutsideRefused
CHECK_DEADLOCK FALSE
