----------------------------- MODULE C06_Trace -----------------------------
(* Trace validation for C06: the six relational operators of the real
   interpreter on a pair of numeric values of any two types, judged against
   the exact order Cmp of the decoded values (MBF.tla).
   Event: tx, x, ty, y (types and little-endian encodings), o = results of
   <<"=", "<>", "<", ">", "<=", ">=">> as integers (99 = not an integer /
   an error), k = "val" | "internal".                                        *)
EXTENDS MBF, TraceBase
VARIABLES l, viol

B(p) == IF p THEN -1 ELSE 0
Names == <<"eq", "neq", "lt", "gt", "lte", "gte">>
Expect(c) == <<B(c = 0), B(c # 0), B(c < 0), B(c > 0), B(c <= 0), B(c >= 0)>>

V(e) ==
    IF e.k = "internal" THEN "internal_error"
    ELSE IF ~WellFormed(e.tx, e.x) \/ ~WellFormed(e.ty, e.y) THEN "malformed_event"
    ELSE LET c   == Cmp(Decode(e.x), Decode(e.y))
             exp == Expect(c)
             bad == {i \in 1..6 : e.o[i] # exp[i]}
         IN IF bad # {} THEN "rel_" \o Names[CHOOSE i \in bad : \A j \in bad : i <= j]
            \* consequences stated by the property, asserted on the observation itself
            ELSE IF (e.o[3] + e.o[1] + e.o[4]) # -1 THEN "trichotomy"
            ELSE IF e.o[5] # -1 - e.o[4] THEN "lte_not_negation_of_gt"
            ELSE "ok"

INSTANCE OracleTrace WITH Verdict <- V
=============================================================================
