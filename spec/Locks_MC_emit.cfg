SPECIFICATION Spec
CONSTANTS
  FileNums = {1, 2}
  Names = {"X"}
  MaxRec = 3
  AsCoded = FALSE
VIEW View
INVARIANT NoOverlap
ACTION_CONSTRAINT Emit
