SPECIFICATION Spec
CONSTANTS
  Roots <- MCRoots1
  CurDrive = 67
  AsCodedDots = FALSE
  AsCodedNames = TRUE
  Elems <- Elems9
  Prefixes <- Pre0
  MaxElems = 2
  NameElems = 1
  StmtSet = {"CHDIR", "MKDIR", "RMDIR", "OPENI", "OPENO", "FILES", "KILL", "NAME"}
  Dynamic = FALSE
  MaxNodes = 0
VIEW View
PROPERTY TouchedInside
INVARIANT CwdInside
INVARIANT CwdPlain
PROPERTY FailNoEffect
ACTION_CONSTRAINT Emit
