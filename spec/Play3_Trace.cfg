SPECIFICATION TSpec
INVARIANT TDone
CHECK_DEADLOCK FALSE
