SPECIFICATION Spec
CONSTANT MaxPos = 5
CONSTANT MaxNum = 2000
INVARIANT ParseLaw
INVARIANT DigitLaw
