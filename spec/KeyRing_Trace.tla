--------------------------- MODULE KeyRing_Trace ---------------------------
(* Total trace specification for C37.  One event per operation on the real
   interpreter:
     {op: press|inkey|readn|pokehead|poketail|peek, k: [[chars], scan], n, v: pointer byte value POKEd, idiom: BOOLEAN (the POKE was written POKE 1050,PEEK(1052)),
      res: [bytes delivered], bios: [the 36 bytes PEEK(1050)..PEEK(1085) AFTER the operation], reset: BOOLEAN}
   header: {keys: [[[chars], scan], ...]} the keystrokes the driver types.

   Judged by the reference layer of KeyRing.tla only: the model keeps the FIFO `q`
   (KeyRing!RefApply), demands the delivered bytes, and after EVERY event demands
   the ring view: the observed slots between the observed head and tail pointers
   are exactly q.  A pointer POKE re-defines q from the observed ring (the statement
   does not say more about it) except that a POKE of the other pointer's current
   value (POKE 1050,PEEK(1052) and its mirror image) must leave q empty.
   After a rejected event q is re-synchronised from the observed ring.          *)
EXTENDS KeyRing, TraceBase
VARIABLES q, ptr, emptied, l, viol
tvars == <<q, ptr, emptied, l, viol>>

TraceKeys == {Header.keys[i] : i \in 1..Len(Header.keys)}

\* ---- projection of the observed 36 bytes
Word(b, i) == b[i] + 256 * b[i + 1]
PtrOK(w)   == w >= Base /\ w < Base + 2 * RingLen /\ w % 2 = 0
BiosOK(b)  == Len(b) = NBios /\ PtrOK(Word(b, 1)) /\ PtrOK(Word(b, 3))
ObsHead(b) == (Word(b, 1) - Base) \div 2
ObsTail(b) == (Word(b, 3) - Base) \div 2
ObsSlots(b) == [p \in Pos |-> <<b[5 + 2 * p], b[6 + 2 * p]>>]
ObsBetween(b) == Between(ObsSlots(b), ObsHead(b), ObsTail(b))
\* the keystroke a slot <<byte, scan>> stands for: an extended key is looked up among the typed keys
KeyOfSlot(s) == IF s[1] # 0 THEN <<<<s[1]>>, s[2]>>
                ELSE IF \E k \in Keys : KeyView(k) = s THEN CHOOSE k \in Keys : KeyView(k) = s
                ELSE <<<<0, 0>>, s[2]>>
QOfObs(b) == LET w == ObsBetween(b) IN [i \in 1..Len(w) |-> KeyOfSlot(w[i])]
ViewOK(b, qq) == BiosOK(b) /\ ObsBetween(b) = [i \in 1..Len(qq) |-> KeyView(qq[i])]

Step(e) ==
    LET q0   == IF Has(e, "reset") /\ e.reset THEN <<>> ELSE q
        p0   == IF Has(e, "reset") /\ e.reset THEN <<Base, Base>> ELSE ptr
        em0  == IF Has(e, "reset") /\ e.reset THEN FALSE ELSE emptied
        b    == e.bios
        poke == IsPoke(e)
        \* the clearing POKE: the value written is the current value of the other pointer
        idiom == poke /\ Has(e, "idiom") /\ e.idiom           \* the literal POKE 1050,PEEK(1052) / POKE 1052,PEEK(1050)
        clr  == idiom \/ (e.op = "pokehead" /\ e.v = p0[2]) \/ (e.op = "poketail" /\ e.v = p0[1])
        \* the pointer words are memory: the (valid) value written is the value PEEK reads afterwards
        pv   == IF ~poke THEN 0 ELSE IF idiom THEN (IF e.op = "pokehead" THEN p0[2] ELSE p0[1]) ELSE e.v
        ok0  == e.op = "readn" => e.n <= Len(q0)
        f    == IF poke \/ e.op = "peek" \/ ~ok0 THEN [q |-> q0, res |-> <<>>] ELSE RefApply(q0, e)
        v    == IF ~BiosOK(b) THEN "ring_pointers_outside_the_ring"
                ELSE IF ~ok0 THEN "harness_read_more_than_waiting"
                ELSE IF poke THEN (IF clr /\ ObsHead(b) # ObsTail(b) THEN "clearing_poke_left_keys_between_pointers"
                                   ELSE IF pv # Word(b, IF e.op = "pokehead" THEN 1 ELSE 3) THEN "poked_pointer_not_read_back"
                                   ELSE "ok")
                ELSE IF e.op \in {"inkey", "readn"} /\ e.res # f.res
                     THEN (IF em0 THEN "keys_delivered_after_emptying_poke"
                           ELSE IF e.res = <<>> THEN "waiting_key_not_delivered"
                           ELSE IF q0 = <<>> THEN "key_delivered_from_empty_buffer"
                           ELSE "delivered_out_of_order_or_repeated")
                ELSE IF ~ViewOK(b, f.q)
                     THEN (IF em0 THEN "ring_view_wrong_after_emptying_poke"
                           ELSE IF e.op = "press" /\ Len(q0) = Cap THEN "key_beyond_15_not_dropped"
                           ELSE IF e.op = "press" THEN "pressed_key_not_in_ring_view"
                           ELSE "ring_view_differs_from_waiting_keys")
                ELSE "ok"
        q1   == IF ~BiosOK(b) THEN f.q
                ELSE IF poke \/ v # "ok" THEN QOfObs(b)      \* re-defined by the ring / re-synchronised
                ELSE f.q
    IN  /\ q' = q1
        /\ ptr' = IF BiosOK(b) THEN <<Word(b, 1), Word(b, 3)>> ELSE p0
        \* the flag lives until the next event that can tell (a press, a read or another POKE)
        /\ emptied' = IF poke THEN (BiosOK(b) /\ ObsHead(b) = ObsTail(b))
                      ELSE IF e.op = "peek" THEN em0 ELSE FALSE
        /\ viol' = IF v = "ok" THEN viol ELSE Append(viol, <<l, v>>)

TInit == q = <<>> /\ ptr = <<Base, Base>> /\ emptied = FALSE /\ l = 1 /\ viol = <<>>
TNext == l <= NEvents /\ l' = l + 1 /\ Step(Events[l])
TSpec == TInit /\ [][TNext]_tvars
TDone == (l = NEvents + 1) => WriteVerdict(l - 1, viol)
=============================================================================
