SPECIFICATION Spec
CONSTANT W = 6
INVARIANT DivLaw
INVARIANT OverflowOnlyCorner
INVARIANT BitAgree
INVARIANT DeMorgan
