SPECIFICATION Spec
CONSTANTS
  FileNums = {1}
  Names = {"A"}
  AsCoded = FALSE
  RecLens = {1, 2, 3}
  MaxRec = 4
  Contents = {1, 2}
  MaxOps = 5
  BadRecs = {0, 33554436}
VIEW ViewSt
INVARIANT RecordsInv
ACTION_CONSTRAINT Emit
CHECK_DEADLOCK FALSE
