----------------------------- MODULE Viewport_MC -----------------------------
(* Bounded design check of the viewport/page state machine and transition
   emitter for behaviour replay.  The mode table is the one of the EGA adapter
   with 64k video memory (T = SCREEN 0, A = SCREEN 7, B = SCREEN 9); the check
   asserts at run time that the real adapter has these parameters.  The
   REFERENCE outcome (RefOk) is only used to generate behaviours: VIEW fails
   for coordinates off the screen or a degenerate rectangle, SCREEN fails for a
   page the mode does not have, graphics statements fail in text mode.       *)
EXTENDS Viewport, TLC, Json
CONSTANTS XPairs, YPairs, PageArgs, Decos, DrawReqs
VARIABLES st, act
vars == <<st, act>>

ModeIds == {"T", "A", "B"}
ModeTab == [T |-> [text |-> TRUE,  w |-> 640, h |-> 350, np |-> 4],
            A |-> [text |-> FALSE, w |-> 320, h |-> 200, np |-> 8],
            B |-> [text |-> FALSE, w |-> 640, h |-> 350, np |-> 2]]
ModeRec(t, ap, vp) == [mode |-> t, text |-> ModeTab[t].text, w |-> ModeTab[t].w, h |-> ModeTab[t].h,
                       np |-> ModeTab[t].np, ap |-> ap, vp |-> vp]
CurM(s) == ModeRec(s.mode, s.ap, s.vp)
\* SCREEN [n],,[ap],[vp]: an omitted active page keeps the current one, an omitted visible page follows the active page
RefM(s, a) == LET t  == IF a.n = "same" THEN s.mode ELSE a.n
                  ap == IF a.ap = -1 THEN s.ap ELSE a.ap
                  vp == IF a.vp = -1 THEN ap ELSE a.vp
              IN  ModeRec(t, ap, vp)
RefOk(s, a) ==
    CASE a.op = "screen" -> LET m == RefM(s, a) IN m.ap < m.np /\ m.vp < m.np
      [] a.op = "view"   -> /\ ~s.text
                            /\ a.x0 \in 0..s.w - 1 /\ a.x1 \in 0..s.w - 1 /\ a.y0 \in 0..s.h - 1 /\ a.y1 \in 0..s.h - 1
                            /\ a.x0 # a.x1 /\ a.y0 # a.y1
      [] a.op = "cls"    -> TRUE
      [] OTHER           -> ~s.text

Actions(s) ==
    {[op |-> "screen", n |-> m, ap |-> pa[1], vp |-> pa[2]] : m \in ModeIds \cup {"same"}, pa \in PageArgs}
    \cup {[op |-> "view", x0 |-> xp[1], x1 |-> xp[2], y0 |-> yp[1], y1 |-> yp[2], abs |-> ab, deco |-> d] :
              xp \in XPairs, yp \in YPairs, ab \in BOOLEAN, d \in Decos}
    \cup {[op |-> o] : o \in {"viewoff", "window", "windowoff", "cls", "probe"}}
    \cup {[op |-> "boxf", req |-> r] : r \in DrawReqs}

Init == st = Fresh(ModeRec("T", 0, 0)) /\ act = [op |-> "init"]
Do(a) == /\ act' = a
         /\ LET ok == RefOk(st, a)
            IN  st' = Effect(st, a, ok, IF a.op = "screen" /\ ok THEN RefM(st, a) ELSE CurM(st))
Next == \E a \in Actions(st) : Do(a)
Spec == Init /\ [][Next]_vars

View == st
InvViewInScreen == ViewInScreen(st)
InvPagesExist == PagesExist(st)
InvTextHasNoView == TextHasNoView(st)
\* whatever a statement of the property is allowed to touch lies on the screen, and a successful VIEW ends up
\* with its own allowed rectangle covering the new viewport
InvAllowedOnScreen == \A a \in Actions(st) : Free(a) \/ Inside(AllowedRect(st, a), ScreenRect(st))
ViewCoversNew == [][(act'.op = "view" /\ st'.vact /\ st' # st) => Inside(st'.view, AllowedRect(st, act'))]_vars

\* constant sets for the configurations (TLC cfg files cannot write tuples)
XP_full  == {<<10, 300>>, <<600, 300>>, <<300, 300>>, <<0, 639>>, <<319, 0>>, <<640, 5>>}
YP_full  == {<<10, 180>>, <<340, 180>>, <<180, 180>>, <<0, 349>>, <<199, 0>>, <<5, 350>>}
PA_full  == {<<-1, -1>>, <<0, 0>>, <<1, -1>>, <<1, 0>>, <<2, 2>>, <<-1, 1>>, <<7, 0>>}
XP_emit  == {<<10, 300>>, <<600, 300>>, <<300, 300>>}
YP_emit  == {<<10, 180>>, <<340, 180>>}
PA_emit  == {<<-1, -1>>, <<0, 0>>, <<1, -1>>, <<1, 0>>, <<2, 2>>}
XP_emitb == {<<10, 300>>, <<600, 300>>, <<300, 300>>, <<0, 639>>, <<319, 0>>}
YP_emitb == {<<10, 180>>, <<340, 180>>, <<0, 349>>, <<199, 0>>}
PA_emitb == {<<-1, -1>>, <<0, 0>>, <<1, -1>>, <<1, 0>>, <<2, 2>>, <<-1, 1>>}

Emit == PrintT(<<"TRANSITION", ToJson([from |-> st, a |-> act', ref |-> RefOk(st, act'), to |-> st'])>>)
=============================================================================
