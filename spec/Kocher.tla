------------------------------- MODULE Kocher -------------------------------
(* Paul Kocher's published description of the GW-BASIC ,P cipher (The
   Cryptogram computer supplement #19, 1994) with the 13-byte and 11-byte
   GW-BASIC keys, as tables for Cipher.tla.  All arithmetic is modulo 256
   (xor only touches the low eight bits).  Used (a) to show by exhaustive
   evaluation that the published design satisfies the cell laws of C15 and
   (b) informationally, to report whether the tables observed from the code
   are this design.  No verdict on the code depends on (b).                  *)
EXTENDS Integers, Sequences, Bitwise

Key1 == <<169, 132, 141, 205, 117, 131, 67, 99, 36, 131, 25, 247, 154>>    \* A9 84 8D CD 75 83 43 63 24 83 19 F7 9A
Key2 == <<30, 29, 196, 119, 38, 151, 224, 116, 89, 136, 124>>              \* 1E 1D C4 77 26 97 E0 74 59 88 7C

M(x) == x % 256
Xor3(a, b, d) == (a ^^ b) ^^ d
KEnc(i, c) == M(Xor3(M(c - (13 - (i % 13))), Key1[(i % 13) + 1], Key2[(i % 11) + 1]) + (11 - (i % 11)))
KDec(i, c) == M(Xor3(M(c - (11 - (i % 11))), Key1[(i % 13) + 1], Key2[(i % 11) + 1]) + (13 - (i % 13)))

\* rows in the format of Cipher.tla
KEncRow(i) == [c \in 1..256 |-> KEnc(i, c - 1)]
KDecRow(i) == [c \in 1..256 |-> KDec(i, c - 1)]
=============================================================================
