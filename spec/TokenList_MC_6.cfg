SPECIFICATION Spec
CONSTANT MaxLen = 6
INVARIANT RunAgrees
INVARIANT SepTotal
INVARIANT TailAfterKeyword
ACTION_CONSTRAINT Emit
CHECK_DEADLOCK FALSE
