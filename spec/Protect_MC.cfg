SPECIFICATION Spec
CONSTANTS
  AsCoded = FALSE
  MaxDepth = 4
INVARIANT TypeInv
INVARIANT NoLeak
INVARIANT FlagInv
PROPERTY FlagSteps
PROPERTY Refused
CHECK_DEADLOCK FALSE
