SPECIFICATION TSpec
CONSTANTS
  FileNums = {1, 2}
  Names = {"A", "B"}
  MaxLen = 255
  AsCoded = FALSE
INVARIANT TDone
CHECK_DEADLOCK FALSE
