------------------------------ MODULE Codepage ------------------------------
(* Codepage conversion (property C41), functional-core style.

   A codepage is a RELATION between byte sequences (1 or 2 bytes) and unicode
   clusters (sequences of code points, NFC form).  It is handed over as the
   raw table R of the shipped .ucp file:
       R.s : 256-sequence, R.s[b+1]        = cluster of single byte b, or Undef
       R.d : 256-sequence, R.d[l+1]        = <<>> when no entry starts with l,
                           R.d[l+1][t+1]   = cluster of the pair l t, or Undef
   The maps the code derives in Codepage.__init__ are defined here in the
   same way: printable ASCII is never redefined (the table entry becomes a
   glyph SUBSTITUTE), undefined single bytes are filled with NUL, lead/trail
   byte sets come from the 2-byte entries, the box-drawing sets from the
   single bytes mapped to U+2500 / U+2550.

   The double-byte converter (class Converter) is the state machine
       st = [buf, bset, last]    Process(K, st, c) = [st |-> st', out |-> seqs]
   with the case analysis 0..4 of the code; K carries the byte CLASSES
   (lead, trail, boxl, boxr, pres) and the flags box, dbcs.  Only membership
   of a byte in these classes is used, so the same operators serve the
   abstract class alphabet of Codepage_MC and the real codepages of
   Codepage_Trace.                                                          *)
EXTENDS Integers, Sequences, FiniteSets, TLC

Undef == <<-1>>
BoxU  == <<9472, 9552>>                 \* U+2500 (single line), U+2550 (double line)

RECURSIVE Flat(_)
Flat(ss) == IF ss = <<>> THEN <<>> ELSE Head(ss) \o Flat(Tail(ss))
Last1(s) == IF s = <<>> THEN <<>> ELSE <<s[Len(s)]>>

(* ------------------------------ tables ---------------------------------- *)
Printable(b) == b \in 32..126
RawS(R, b)    == R.s[b + 1]
RawD(R, ld, tl) == IF R.d[ld + 1] = <<>> THEN Undef ELSE R.d[ld + 1][tl + 1]
Raw(R, q)     == IF Len(q) = 1 THEN RawS(R, q[1])
                 ELSE IF Len(q) = 2 THEN RawD(R, q[1], q[2]) ELSE Undef
Substituted(R, b) == Printable(b) /\ RawS(R, b) # Undef /\ RawS(R, b) # <<b>>

\* _cp_to_unicode: defined for every single byte and the listed pairs; "" (here <<>>) elsewhere
FwdS(R, b) == IF RawS(R, b) = Undef THEN <<0>>
              ELSE IF Substituted(R, b) THEN <<b>> ELSE RawS(R, b)
Fwd(R, q)  == IF Len(q) = 1 THEN FwdS(R, q[1])
              ELSE IF Len(q) = 2 /\ RawD(R, q[1], q[2]) # Undef THEN RawD(R, q[1], q[2])
              ELSE <<>>
\* codepoint_to_unicode(seq, use_substitutes = sub)
FwdM(R, q, sub) == IF sub /\ Len(q) = 1 /\ Substituted(R, q[1]) THEN RawS(R, q[1]) ELSE Fwd(R, q)
\* q is listed for cluster u by the codepage (raw relation or derived map)
Maps(R, q, u) == u # <<>> /\ (Fwd(R, q) = u \/ (Raw(R, q) = u /\ u # Undef))

\* (no bound identifier may be called like a variable of a trace spec - l, viol -: TLC would take the
\*  constant tables for state-dependent and re-evaluate them for every event)
LeadOf(R)   == {ld \in 0..255 : R.d[ld + 1] # <<>>}
TrailOf(R)  == {tl \in 0..255 : \E ld \in LeadOf(R) : R.d[ld + 1][tl + 1] # Undef}
BoxOf(R, i) == {b \in 0..255 : RawS(R, b) = <<BoxU[i]>>}
\* everything the converter needs to know about a codepage (computed once per codepage)
\* (TLCEval: have TLC enumerate the sets once instead of re-evaluating the comprehension at every membership test)
Derive(R) == LET ld == TLCEval(LeadOf(R))
                 tr == TLCEval({tl \in 0..255 : \E x \in ld : R.d[x + 1][tl + 1] # Undef})
                 b1 == TLCEval(BoxOf(R, 1))
                 b2 == TLCEval(BoxOf(R, 2))
             IN  [R |-> R, lead |-> ld, trail |-> tr, boxl |-> <<b1, b2>>, boxr |-> <<b1, b2>>, dbcs |-> ld # {}]
ConvK(D, pres, box) == [lead |-> D.lead, trail |-> D.trail, boxl |-> D.boxl, boxr |-> D.boxr,
                        dbcs |-> D.dbcs, pres |-> pres, box |-> box]

(* ------------------------- converter state machine ----------------------- *)
CInit == [buf |-> <<>>, bset |-> -1, last |-> <<>>]

\* Codepage.connects(c, d, bset) with c possibly empty (b'' is in no set)
Conn(K, s, d, i) == s # <<>> /\ s[Len(s)] \in K.boxr[i + 1] /\ d \in K.boxl[i + 1]
FirstSet(K, s, d) == IF Conn(K, s, d, 0) THEN 0 ELSE IF Conn(K, s, d, 1) THEN 1 ELSE -1
FlushAll(buf) == IF buf = <<>> THEN <<>> ELSE <<buf>>
One(c) == <<<<c>>>>

NoBox(K, st, c) ==
    IF c \in K.pres
    THEN [st |-> [st EXCEPT !.buf = <<>>], out |-> FlushAll(st.buf) \o One(c)]
    ELSE IF st.buf # <<>> /\ c \in K.trail
    THEN [st |-> [st EXCEPT !.buf = <<>>], out |-> <<st.buf \o <<c>>>>]
    ELSE IF c \in K.lead
    THEN [st |-> [st EXCEPT !.buf = <<c>>], out |-> FlushAll(st.buf)]
    ELSE [st |-> [st EXCEPT !.buf = <<>>], out |-> FlushAll(st.buf) \o One(c)]

Case0(K, st, c) ==
    IF c \notin K.lead THEN [st |-> st, out |-> One(c)]
    ELSE [st |-> [st EXCEPT !.buf = <<c>>], out |-> <<>>]

Case1(K, st, c) ==
    IF c \notin K.trail THEN [st |-> [st EXCEPT !.buf = <<>>], out |-> FlushAll(st.buf) \o One(c)]
    ELSE [st |-> [st EXCEPT !.buf = st.buf \o <<c>>, !.bset = FirstSet(K, st.buf, c)], out |-> <<>>]

Case2(K, st, c) ==
    IF c \notin K.lead THEN [st |-> [st EXCEPT !.buf = <<>>], out |-> FlushAll(st.buf) \o One(c)]
    ELSE LET i == FirstSet(K, st.buf, c) IN
         IF i # -1      \* the trail byte and c connect: release the lead byte alone
         THEN [st |-> [st EXCEPT !.buf = <<st.buf[2], c>>, !.bset = i], out |-> One(st.buf[1])]
         ELSE [st |-> [st EXCEPT !.buf = <<c>>], out |-> <<st.buf>>]

Case3(K, st, c) ==
    IF c \notin K.lead THEN [st |-> [st EXCEPT !.buf = <<>>], out |-> <<st.buf>> \o One(c)]
    ELSE IF Conn(K, st.buf, c, st.bset)      \* three connecting box characters: all single
    THEN [st |-> [st EXCEPT !.buf = <<>>, !.last = <<st.buf[2]>>],
          out |-> One(st.buf[1]) \o One(st.buf[2]) \o One(c)]
    ELSE [st |-> [st EXCEPT !.buf = <<c>>, !.bset = -1], out |-> <<st.buf>>]

Case4(K, st, c) ==
    IF c \notin K.lead THEN [st |-> st, out |-> One(c)]
    ELSE IF Conn(K, st.last, c, st.bset) THEN [st |-> [st EXCEPT !.last = <<c>>], out |-> One(c)]
    ELSE [st |-> [st EXCEPT !.buf = <<c>>, !.bset = -1], out |-> <<>>]

\* Converter._process(c) for a double-byte codepage
Process(K, st, c) ==
    IF ~K.box THEN NoBox(K, st, c)
    ELSE IF c \in K.pres THEN [st |-> CInit, out |-> FlushAll(st.buf) \o One(c)]
    ELSE IF st.bset = -1
    THEN CASE Len(st.buf) = 0 -> Case0(K, st, c)
           [] Len(st.buf) = 1 -> Case1(K, st, c)
           [] Len(st.buf) = 2 -> Case2(K, st, c)
           [] OTHER -> [st |-> st, out |-> <<>>]
    ELSE IF Len(st.buf) = 2 THEN Case3(K, st, c)
    ELSE IF Len(st.buf) = 0 THEN Case4(K, st, c)
    ELSE [st |-> st, out |-> <<>>]

\* Converter._mark(s, flush=FALSE): fold Process over the bytes of s (single-byte codepages are stateless)
RECURSIVE Feed(_, _, _)
Feed(K, st, s) ==
    IF ~K.dbcs THEN [st |-> st, out |-> [i \in 1..Len(s) |-> <<s[i]>>]]
    ELSE IF s = <<>> THEN [st |-> st, out |-> <<>>]
    ELSE LET r == Process(K, st, Head(s))
             t == Feed(K, r.st, Tail(s))
         IN  [st |-> t.st, out |-> r.out \o t.out]
\* _mark(s, flush=TRUE) on a fresh converter: the complete segmentation of s
Mark(K, s) == LET r == Feed(K, CInit, s) IN r.out \o FlushAll(r.st.buf)

\* shape invariant of the converter state (the "not allowed" branches of _process are unreachable)
ShapeOK(K, st) ==
    /\ Len(st.buf) <= 2 /\ Len(st.last) <= 1 /\ st.bset \in {-1, 0, 1}
    /\ (st.bset # -1 => Len(st.buf) \in {0, 2})
    /\ (~K.box => st.bset = -1 /\ Len(st.buf) <= 1)

(* ----------------------- unicode list of a segmentation ------------------ *)
\* Converter.to_unicode_list: one cluster per sequence, a 2-byte sequence is followed by an empty marker;
\* preserved bytes keep their ordinal (ascii only)
ConvSeq(R, pres, sub, q) ==
    IF Len(q) = 1 /\ q[1] \in pres THEN (IF q[1] < 128 THEN q ELSE <<>>) ELSE FwdM(R, q, sub)
RECURSIVE UList(_, _, _, _)
UList(R, pres, sub, qs) ==
    IF qs = <<>> THEN <<>>
    ELSE LET q == Head(qs) IN
         <<ConvSeq(R, pres, sub, q)>> \o (IF Len(q) = 1 THEN <<>> ELSE <<<<>>>>) \o UList(R, pres, sub, Tail(qs))
=============================================================================
