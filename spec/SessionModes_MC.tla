--------------------------- MODULE SessionModes_MC ---------------------------
(* Bounded exploration of the abstract session state under the catalogue and
   emission of every transition (from-state, item, argument class tuple,
   reference post-state) for replay on the real interpreter.                *)
EXTENDS SessionModes, IOUtils

CONSTANTS MaxDepth,     \* number of state-changing statements on a path
          FullArgs      \* TRUE: full product for 2-slot statements

VARIABLES st, depth, act
vars == <<st, depth, act>>

Init == /\ st \in {[Default EXCEPT !.mode = m, !.prog = (m = "run")] : m \in {"direct", "run"}}
        /\ depth = 0 /\ act = 0

\* the argument class tuple does not influence the abstract transition, so the graph is explored per statement and
\* the tuples of every statement are written once (file named by ARGS_FILE); the replayed transitions are the product
ItemArgs == [i \in Items |-> ArgTuples(Item(i), FullArgs)]
ASSUME JsonSerialize(IOEnv.ARGS_FILE, ItemArgs)

Exec(i) ==
    LET it == Item(i)
        to == IF HasEffect(it) /\ EffEnabled(st, it) THEN Effect(st, it) ELSE st
    IN  /\ act' = i
        /\ st' = to
        /\ depth' = IF to # st THEN depth + 1 ELSE depth
\* (Relevant(..) = TRUE: as a plain conjunct TLC would enumerate its disjunctions and generate the same successor 2^k times)
Next == \E i \in Items : (Relevant(st, Item(i)) = TRUE) /\ Exec(i)
Spec == Init /\ [][Next]_vars

View == st
\* states reached by MaxDepth state-changing statements are still expanded (all their transitions are emitted),
\* states beyond are not: the bound sits on the source state of a transition, not on its target
Bound == depth <= MaxDepth
TypeInv == TypeOK(st) /\ Consistent(st)

StTuple(s) == <<s.mode, s.prog, s.trap, s.prot, s.files, s.screen, s.view, s.window, s.ev, s.seg>>
Emit == Bound /\ PrintT(<<"TRANSITION", ToJson(<<StTuple(st), act', StTuple(st'), EffectChecked(st, Item(act'))>>)>>)
=============================================================================
