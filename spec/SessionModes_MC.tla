--------------------------- MODULE SessionModes_MC ---------------------------
(* Bounded exploration of the abstract session state under the catalogue and
   emission of every transition (from-state, item, argument class tuple,
   reference post-state) for replay on the real interpreter.                *)
EXTENDS SessionModes, TLC, Json

CONSTANTS MaxDepth,     \* number of state-changing statements on a path
          FullArgs      \* TRUE: full product for 2-slot statements

VARIABLES st, depth, act
vars == <<st, depth, act>>

Init == /\ st \in {[Default EXCEPT !.mode = m, !.prog = (m = "run")] : m \in {"direct", "run"}}
        /\ depth = 0 /\ act = [i |-> 0, a |-> <<>>]

Exec(i, a) ==
    LET it == Item(i)
        to == IF HasEffect(it) /\ EffEnabled(st, it) THEN Effect(st, it) ELSE st
    IN  /\ act' = [i |-> i, a |-> a]
        /\ st' = to
        /\ depth' = IF to # st THEN depth + 1 ELSE depth
ItemArgs == TLCEval([i \in Items |-> TLCEval(ArgTuples(Item(i), FullArgs))])      \* evaluated once
Next == \E i \in Items : Relevant(st, Item(i)) /\ \E a \in ItemArgs[i] : Exec(i, a)
Spec == Init /\ [][Next]_vars

View == st
Bound == depth <= MaxDepth
TypeInv == TypeOK(st) /\ Consistent(st)

StTuple(s) == <<s.mode, s.prog, s.trap, s.prot, s.files, s.screen, s.view, s.window, s.ev, s.seg>>
Emit == PrintT(<<"TRANSITION", ToJson(<<StTuple(st), act'.i, act'.a, StTuple(st')>>)>>)
=============================================================================
