-------------------------------- MODULE Draw --------------------------------
(* DRAW pen movement (property C33), functional-core style.
   Pen state: [pos |-> <<x, y>>, scale |-> 1..255, col |-> attribute].
   A DRAW string is a sequence of commands (records):
     [c |-> "U"|"D"|"L"|"R"|"E"|"F"|"G"|"H", n |-> count, b |-> BOOLEAN, nn |-> BOOLEAN]
     [c |-> "M", x |-> .., y |-> .., rel |-> BOOLEAN, b |-> .., nn |-> ..]
     [c |-> "S", n |-> scale]   [c |-> "C", n |-> attribute]
     [c |-> "X", sub |-> <<commands>>]                         (substring)
   b = prefix B (move without drawing), nn = prefix N (return to the start).
   No angle commands (A, TA) in this fragment.
   Run(st, cmds) = [st |-> final pen state, segs |-> the drawn segments
   <<x0, y0, x1, y1, col>> in order, err |-> the string was refused part-way]:
   each segment is the line LINE would draw.                                 *)
EXTENDS Integers, Sequences

\* scale * n / 4 truncated toward zero (TLA+ \div rounds toward minus infinity)
Trunc4(a) == IF a >= 0 THEN a \div 4 ELSE -((-a) \div 4)
Off(scale, d) == <<Trunc4(scale * d[1]), Trunc4(scale * d[2])>>

Dir(c) == CASE c = "U" -> <<0, -1>> [] c = "D" -> <<0, 1>> [] c = "L" -> <<-1, 0>> [] c = "R" -> <<1, 0>>
            [] c = "E" -> <<1, -1>> [] c = "F" -> <<1, 1>> [] c = "G" -> <<-1, 1>> [] c = "H" -> <<-1, -1>>
MoveLetters == {"U", "D", "L", "R", "E", "F", "G", "H"}
IsMove(cmd) == cmd.c \in MoveLetters \cup {"M"}

\* where a move command takes the pen from position p
Target(st, cmd) ==
    IF cmd.c = "M"
    THEN IF cmd.rel THEN LET o == Off(st.scale, <<cmd.x, cmd.y>>) IN <<st.pos[1] + o[1], st.pos[2] + o[2]>>
         ELSE <<cmd.x, cmd.y>>
    ELSE LET d == Dir(cmd.c)
             o == Off(st.scale, <<d[1] * cmd.n, d[2] * cmd.n>>)
         IN  <<st.pos[1] + o[1], st.pos[2] + o[2]>>

\* A scale outside 1..255 is refused (Illegal function call): the string stops there, what was drawn before it stays, and the
\* scale in force does not change (a failed S must not leak into later DRAW statements).  err = TRUE marks that outcome.
ValidScale(n) == n >= 1 /\ n <= 255
RECURSIVE Run(_, _)
Step(st, cmd) ==
    IF IsMove(cmd)
    THEN LET t == Target(st, cmd)
         IN  [st   |-> IF cmd.nn THEN st ELSE [st EXCEPT !.pos = t],
              segs |-> IF cmd.b THEN <<>> ELSE <<<<st.pos[1], st.pos[2], t[1], t[2], st.col>>>>,
              err  |-> FALSE]
    ELSE CASE cmd.c = "S" -> IF ValidScale(cmd.n) THEN [st |-> [st EXCEPT !.scale = cmd.n], segs |-> <<>>, err |-> FALSE]
                             ELSE [st |-> st, segs |-> <<>>, err |-> TRUE]
           [] cmd.c = "C" -> [st |-> [st EXCEPT !.col = cmd.n], segs |-> <<>>, err |-> FALSE]
           [] cmd.c = "X" -> Run(st, cmd.sub)
Run(st, cmds) ==
    IF cmds = <<>> THEN [st |-> st, segs |-> <<>>, err |-> FALSE]
    ELSE LET r1 == Step(st, Head(cmds))
         IN  IF r1.err THEN r1
             ELSE LET r2 == Run(r1.st, Tail(cmds))
                  IN  [st |-> r2.st, segs |-> r1.segs \o r2.segs, err |-> r2.err]

(* ---- the statement of the property, read declaratively, for the self-check in Draw_MC ---- *)
RECURSIVE Flat(_)
\* substrings expanded in place
Flat(cmds) == IF cmds = <<>> THEN <<>>
              ELSE LET h == Head(cmds) IN (IF h.c = "X" THEN Flat(h.sub) ELSE <<h>>) \o Flat(Tail(cmds))
RECURSIVE ScaleAt(_, _, _)
\* the scale in force at command i of a flat string started with scale s0
ScaleAt(f, i, s0) == IF i = 1 THEN s0
                     ELSE IF f[i - 1].c = "S" THEN f[i - 1].n ELSE ScaleAt(f, i - 1, s0)
RECURSIVE SumFrom(_, _, _, _)
\* "the pen ends at the position given by summing each move command's offset ... absolute M sets the position ...
\*  N returns to the start of the move": fold from the left, p = position before command i
SumFrom(f, i, p, s0) ==
    IF i > Len(f) THEN p
    ELSE LET cmd == f[i]
             sc  == ScaleAt(f, i, s0)
         IN  IF ~IsMove(cmd) \/ cmd.nn THEN SumFrom(f, i + 1, p, s0)
             ELSE IF cmd.c = "M" /\ ~cmd.rel THEN SumFrom(f, i + 1, <<cmd.x, cmd.y>>, s0)
             ELSE LET d == IF cmd.c = "M" THEN <<cmd.x, cmd.y>> ELSE <<Dir(cmd.c)[1] * cmd.n, Dir(cmd.c)[2] * cmd.n>>
                      o == Off(sc, d)
                  IN  SumFrom(f, i + 1, <<p[1] + o[1], p[2] + o[2]>>, s0)
FinalPos(st, cmds) == SumFrom(Flat(cmds), 1, st.pos, st.scale)
=============================================================================
