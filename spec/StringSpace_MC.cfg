SPECIFICATION Spec
CONSTANTS
  Cells = {"A", "B", "C", "R0", "R1"}
  CellOrder <- MCCellOrder
  Arrays <- MCArrays
  Fns <- MCFns
  MaxLen = 4
  Top = 14
  VarStart = 2
  VarEnd = 4
  AsCoded = FALSE
  Lits <- MCLits
  Targets = {"A", "R0"}
  Srcs = {"A", "R0"}
  MaxOps = 4
  Shapes = {"l", "v", "vl", "lv", "vv", "vll", "v(lv)", "midset", "lset", "swap", "erase"}
VIEW View
INVARIANT RefinesInv
INVARIANT WellFormedInv
INVARIANT NoAliasInv
INVARIANT NoOverflowInv
INVARIANT NoBadInv
CHECK_DEADLOCK FALSE
