-------------------------------- MODULE MBF --------------------------------
(* Microsoft Binary Format numbers as GW-BASIC stores them, and the EXACT
   order of the values they denote (base module of properties C03, C05, C06).

   Encodings (little-endian byte sequences, bytes 0..Radix-1):
     integer  <<lo, hi>>                            two's complement
     single   <<m3, m2, s|m1, e>>                   4 bytes
     double   <<m7, m6, m5, m4, m3, m2, s|m1, e>>   8 bytes
   e = 0 denotes zero WHATEVER the other bytes are; otherwise the value is
        (-1)^s * 0.1m1m2...  (binary, hidden leading 1) * 2^(e - Bias).

   A decoded value is a record [neg, mant, exp]: `mant` is the mantissa as a
   tuple of NM bytes, MOST significant first, hidden bit made explicit
   (mant[1] >= Half) and padded with zero bytes; the value is
        (-1)^neg * (mant read as a binary fraction 0.b1b2b3...) * 2^(exp - Bias).
   Zero is the record with an all-zero mantissa.  `exp` of a decoded value is
   an unbounded integer (Ulp() of a small number is below the encodable
   range).  Nothing here needs an integer above 2^24, so everything stays
   inside TLC's 32-bit integers; mantissas are compared lexicographically.

   BB (bits per byte) is 8.  MBF_MC / MBFConv_MC override it with 2 (TLC
   definition override) and check every operator of this module against
   native integer arithmetic on ALL encodings of the reduced format.        *)
EXTENDS Integers, Sequences

BB    == 8
Radix == 2 ^ BB
Half  == 2 ^ (BB - 1)
Bias  == Half                     \* exponent bias (128)
NM    == 7                        \* mantissa bytes of a decoded value
W     == NM * BB                  \* mantissa bits of a decoded value (56)
IntMin == -(2 ^ (2 * BB - 1))     \* -32768
IntMax == 2 ^ (2 * BB - 1) - 1    \*  32767

Types == {"i", "s", "d"}
TypeOfLen(n) == CASE n = 2 -> "i" [] n = 4 -> "s" [] n = 8 -> "d" [] OTHER -> "?"
LenOfType(t) == CASE t = "i" -> 2 [] t = "s" -> 4 [] t = "d" -> 8
Rank(t)  == CASE t = "i" -> 1 [] t = "s" -> 2 [] t = "d" -> 3 [] OTHER -> 0
Wider(t, u) == IF Rank(t) >= Rank(u) THEN t ELSE u
MantBits(t) == CASE t = "s" -> 3 * BB [] t = "d" -> 7 * BB     \* 24, 56

IsBytes(b, n) == Len(b) = n /\ \A i \in 1..n : b[i] \in 0..(Radix - 1)
WellFormed(t, b) == t \in Types /\ IsBytes(b, LenOfType(t))

Abs(x) == IF x < 0 THEN -x ELSE x
Sgn(x) == IF x < 0 THEN -1 ELSE IF x = 0 THEN 0 ELSE 1
RECURSIVE BitLen(_)
BitLen(a) == IF a = 0 THEN 0 ELSE 1 + BitLen(a \div 2)

ZeroMant == [i \in 1..NM |-> 0]
OneMant  == [i \in 1..NM |-> IF i = 1 THEN Half ELSE 0]      \* 0.1000...b
Zero == [neg |-> FALSE, mant |-> ZeroMant, exp |-> 0]
IsZero(v) == v.mant[1] = 0

(* ---- decoding ----------------------------------------------------------- *)
IntOfBytes(b) == LET u == b[1] + Radix * b[2] IN IF b[2] >= Half THEN u - Radix * Radix ELSE u
BytesOfInt(v) == LET u == IF v < 0 THEN v + Radix * Radix ELSE v IN <<u % Radix, u \div Radix>>

\* value of a native integer with |v| < 2^(2*BB)
FromInt(v) ==
    IF v = 0 THEN Zero
    ELSE LET a == Abs(v)
             L == BitLen(a)
             s == a * 2 ^ (2 * BB - L)            \* normalised to 2*BB bits
         IN [neg |-> v < 0,
             mant |-> [i \in 1..NM |-> IF i = 1 THEN s \div Radix ELSE IF i = 2 THEN s % Radix ELSE 0],
             exp |-> Bias + L]

DecodeFloat(b) ==
    LET n == Len(b) IN
    IF b[n] = 0 THEN Zero                        \* every zero-exponent encoding is zero
    ELSE [neg |-> b[n - 1] >= Half,
          mant |-> [i \in 1..NM |-> IF i = 1 THEN (b[n - 1] % Half) + Half
                                    ELSE IF i <= n - 1 THEN b[n - i] ELSE 0],
          exp |-> b[n]]

Decode(b) == IF Len(b) = 2 THEN FromInt(IntOfBytes(b)) ELSE DecodeFloat(b)

(* ---- encoding (inverse of Decode on canonical encodings) ----------------- *)
Representable(t, v) ==
    \/ IsZero(v)
    \/ /\ t \in {"s", "d"}
       /\ v.exp \in 1..(Radix - 1)
       /\ \A i \in 1..NM : i > LenOfType(t) - 1 => v.mant[i] = 0
EncodeFloat(t, v) ==
    LET n == LenOfType(t) IN
    IF IsZero(v) THEN [i \in 1..n |-> 0]
    ELSE [i \in 1..n |-> IF i = n THEN v.exp
                         ELSE IF i = n - 1 THEN (v.mant[1] - Half) + (IF v.neg THEN Half ELSE 0)
                         ELSE v.mant[n - i]]

(* ---- sign, negation, exact order ---------------------------------------- *)
SignOf(v) == IF IsZero(v) THEN 0 ELSE IF v.neg THEN -1 ELSE 1
Neg(v)    == IF IsZero(v) THEN v ELSE [v EXCEPT !.neg = ~v.neg]
AbsV(v)   == [v EXCEPT !.neg = FALSE]

FirstDiff(a, b) == LET d == {i \in 1..NM : a[i] # b[i]}
                   IN IF d = {} THEN 0 ELSE CHOOSE i \in d : \A j \in d : i <= j
\* order of magnitudes of two non-zero values: exponent first, then mantissa from the top byte
CmpMag(x, y) ==
    IF x.exp # y.exp THEN (IF x.exp > y.exp THEN 1 ELSE -1)
    ELSE LET i == FirstDiff(x.mant, y.mant)
         IN IF i = 0 THEN 0 ELSE IF x.mant[i] > y.mant[i] THEN 1 ELSE -1
\* -1, 0, 1 as the exact value of x is below, equal to, above the exact value of y
Cmp(x, y) ==
    LET sx == SignOf(x)
        sy == SignOf(y)
    IN IF sx # sy THEN (IF sx > sy THEN 1 ELSE -1)
       ELSE IF sx = 0 THEN 0 ELSE sx * CmpMag(x, y)
Less(x, y)  == Cmp(x, y) < 0
EqualV(x, y) == Cmp(x, y) = 0

(* ---- units in the last place --------------------------------------------- *)
\* one unit in the last place of non-zero v in format t (a power of two, as a decoded value)
Ulp(t, v) == [neg |-> FALSE, mant |-> OneMant, exp |-> v.exp - MantBits(t) + 1]

\* add w at byte i of mantissa m, carrying towards the top; result <<carry out, m'>>
RECURSIVE AddAt(_, _, _)
AddAt(m, i, w) == IF i = 0 \/ w = 0 THEN <<w, m>>
                  ELSE LET s == m[i] + w IN AddAt([m EXCEPT ![i] = s % Radix], i - 1, s \div Radix)
\* |v| + one unit of mantissa bit k (1 = top bit .. W), sign kept.  Precondition: v # 0 and the
\* mantissa bits below bit k are zero (so a carry out of the top leaves exactly 0.1000b * 2^(exp+1)).
IncMag(v, k) ==
    LET i == (k + BB - 1) \div BB
        r == AddAt(v.mant, i, 2 ^ (i * BB - k))
    IN IF r[1] = 0 THEN [v EXCEPT !.mant = r[2]]
       ELSE [v EXCEPT !.mant = OneMant, !.exp = v.exp + 1]
\* neighbour of v (a value of format t) one ulp further from zero
MagSucc(t, v) == IncMag(v, MantBits(t))

\* keep the top k mantissa bits (k <= 0: none, k >= W: all)
KeepTop(m, k) == [i \in 1..NM |->
                    LET c == k - (i - 1) * BB
                    IN IF c >= BB THEN m[i] ELSE IF c <= 0 THEN 0
                       ELSE (m[i] \div 2 ^ (BB - c)) * 2 ^ (BB - c)]
=============================================================================
