--------------------------- MODULE Codepage_Trace ---------------------------
(* Oracle-style trace specification for C41.  Header.cps is the list of raw
   codepage tables (see Codepage.tla) taken from the shipped .ucp files (plus
   synthetic class codepages that realise the alphabet of Codepage_MC);
   every event is one observation of the real pcbasic.basic.codepage code:

   o = "b" : bytes q -> unicode u (bytes_to_unicode) -> bytes r (unicode_to_bytes)
   o = "u" : cluster (NFC form un; w = a byte sequence the codepage lists for it)
             of the repertoire -> bytes r (unicode_to_bytes) -> unicode v
   o = "c" : streaming converter run: chunks, per chunk the emitted sequences
             (marks), the buffer after the chunk (bufs), the unicode list per
             chunk (ul); once/ulonce = the same input converted in one piece;
             pres = preserved bytes, box = box protection, sub = substitutes
   Clause names say which part of the statement (or of the conformance with
   the converter state machine) is not met.                                  *)
EXTENDS Codepage, TraceBase
VARIABLES l, viol

Tables == TLCEval([i \in 1..Len(Header.cps) |-> Derive(Header.cps[i])])      \* evaluated once

SeqSet(s) == {s[i] : i \in 1..Len(s)}

\* decode bytes r the way bytes_to_unicode does: segmentation by the converter, then the table
Decode(D, r, sub, box) == Flat(UList(D.R, {}, sub, Mark(ConvK(D, {}, box), r)))

VB(e) ==
    LET D == Tables[e.c] IN
    IF e.u # Decode(D, e.q, e.sub, e.box) THEN "bytes_to_unicode_differs_from_table"
    ELSE IF e.q = e.r THEN "ok"
    ELSE IF Fwd(D.R, e.q) = <<>> THEN "ok"                        \* pair not in the codepage: no demand
    ELSE IF Maps(D.R, e.r, e.u) THEN "ok"                          \* another preimage: mapping not unique
    ELSE "bytes_roundtrip_not_identity_for_unique_mapping"

VU(e) ==
    LET D == Tables[e.c] IN
    IF FwdM(D.R, e.w, e.sub) # e.un THEN "harness_cluster_not_in_repertoire"
    ELSE IF e.v # e.un THEN "unicode_roundtrip_not_identity"
    ELSE IF e.v # Decode(D, e.r, e.sub, e.box) THEN "bytes_to_unicode_differs_from_table"
    ELSE "ok"

RECURSIVE ChunkLaw(_, _, _, _)
\* observed: after every chunk, what was emitted so far plus the buffer is what was consumed so far
ChunkLaw(e, k, emitted, eaten) ==
    IF k > Len(e.chunks) THEN TRUE
    ELSE LET em == emitted \o Flat(e.marks[k])
             ea == eaten \o e.chunks[k]
         IN  /\ (k < Len(e.chunks) => em \o e.bufs[k] = ea)
             /\ (k = Len(e.chunks) => em = ea)
             /\ ChunkLaw(e, k + 1, em, ea)

RECURSIVE SpecBufs(_, _, _, _)
\* the model's buffer after every chunk but the last
SpecBufs(K, st, chunks, k) ==
    IF k >= Len(chunks) THEN <<>>
    ELSE LET r == Feed(K, st, chunks[k]) IN <<r.st.buf>> \o SpecBufs(K, r.st, chunks, k + 1)

VC(e) ==
    LET D == Tables[e.c]
        pres == SeqSet(e.pres)
        K == ConvK(D, pres, e.box)
        whole == Flat(e.chunks)
        m == Mark(K, whole)
    IN  IF ~ChunkLaw(e, 1, <<>>, <<>>) THEN "sequences_plus_buffer_do_not_concatenate_to_input"
        ELSE IF Flat(e.once) # whole THEN "one_shot_sequences_do_not_concatenate_to_input"
        ELSE IF Flat(e.marks) # e.once THEN "conversion_in_pieces_differs_from_at_once"
        ELSE IF Flat(e.ul) # e.ulonce THEN "unicode_in_pieces_differs_from_at_once"
        ELSE IF e.once # m THEN "segmentation_differs_from_converter_model"
        ELSE IF SubSeq(e.bufs, 1, Len(e.chunks) - 1) # SpecBufs(K, CInit, e.chunks, 1) THEN "buffer_differs_from_converter_model"
        ELSE IF e.ulonce # UList(D.R, pres, e.sub, m) THEN "unicode_list_differs_from_table"
        ELSE IF e.ustr # Flat(e.ulonce) THEN "bytes_to_unicode_differs_from_converter"
        ELSE "ok"

V(e) == CASE e.o = "b" -> VB(e)
          [] e.o = "u" -> VU(e)
          [] e.o = "c" -> VC(e)
          [] OTHER -> "unknown_event"

INSTANCE OracleTrace WITH Verdict <- V
=============================================================================
