SPECIFICATION Spec
INVARIANT Inverse
INVARIANT Cover
INVARIANT NoBackingOutside
INVARIANT ReadBack
INVARIANT Identity
