SPECIFICATION Spec
CONSTANTS
  XPairs <- XP_full
  YPairs <- YP_full
  PageArgs <- PA_full
  Decos = {"none", "fill", "both"}
  DrawReqs = {"inside", "cross", "outside"}
VIEW View
INVARIANT InvViewInScreen
INVARIANT InvPagesExist
INVARIANT InvTextHasNoView
INVARIANT InvAllowedOnScreen
PROPERTY ViewCoversNew
