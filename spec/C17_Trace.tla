----------------------------- MODULE C17_Trace -----------------------------
(* Trace validation for C17.  Header: kw[dialect][id] = [b |-> spelling bytes,
   t |-> token bytes] as read from the code's TokenKeywordDict (to_keyword),
   plus the symbol operators' composites (<= >= <>), and rev[dialect][id] = the
   spelling the reverse dictionary (to_token -> to_keyword) gives back.
   Events:
     line    {d, n, toks, seps, t1, t2}   an abstract line (tokens of TokenList.tla),
             rendered with random capitalisation, t1 = Tokeniser.tokenise_line(text),
             t2 = tokenise_line(Lister.detokenise_line(t1))
     kw      {d, id, up, low, mix, listed}  one keyword of one dialect: the direct
             line consisting of the keyword in upper, lower and mixed case,
             tokenised; and the listing of the line ": <token>"
     table   {d}                           the keyword table of dialect d
     numlit  {d, cls, text, t1, t2}       a free-form number literal (up to 7 / 16
             significant digits): token class and re-entry only                *)
EXTENDS TokenList, TraceBase
VARIABLES l, viol

RECURSIVE ClassesFrom(_, _, _)
ClassesFrom(d, toks, i) == IF i > Len(toks) THEN <<>> ELSE <<ClassOf(d, toks[i])>> \o ClassesFrom(d, toks, i + 1)

LineV(e) ==
    LET kt == Header.kw[e.d]
        ks == ClassesFrom(e.d, e.toks, 1)
    IN  IF e.d \notin Dialects \/ e.n \notin 1..65529 THEN "harness_line_outside_fragment"
        ELSE IF ~WellFormed(ks) THEN "harness_line_not_in_grammar"
        ELSE IF \E i \in 1..Len(ks) : ~OperandOK(kt, e.d, IF i = 1 THEN "" ELSE ks[i - 1], e.toks[i]) THEN "harness_operand_outside_fragment"
        ELSE IF ~SepsOK(ks, e.seps) THEN "harness_separators_not_canonical"
        ELSE IF e.t1 # LineBytes(kt, e.n, e.toks, e.seps) THEN "tokenised_line_differs_from_the_tokens_of_the_statement"
        ELSE IF e.t2 # e.t1 THEN "listing_does_not_reenter_as_the_same_tokenised_line"
        ELSE "ok"

\* the tokenised direct line ": <keyword>" (a direct line is anchored with a colon)
DirectLine(kt, id) == <<58>> \o Enc(kt, <<"kw", id>>)
\* what the lister shows for the program line  10 :<token>
ListedKw(kt, id) ==
    CASE id = "ELSE" -> <<49, 48, 32>> \o kt[id].b                     \* the colon before ELSE is part of the token
      [] id = "'"    -> <<49, 48, 32, 58>> \o kt[id].b
      [] OTHER       -> <<49, 48, 32, 58>> \o kt[id].b
KwV(e) ==
    LET kt == Header.kw[e.d]
        rv == Header.rev[e.d]
    IN  IF e.id \notin DOMAIN kt THEN "harness_unknown_keyword"
        ELSE IF rv[e.id] # kt[e.id].b THEN "keyword_does_not_map_to_one_token_and_back"
        ELSE IF e.up # DirectLine(kt, e.id) THEN "keyword_not_tokenised_to_its_token"
        ELSE IF e.low # e.up \/ e.mix # e.up THEN "keyword_recognition_depends_on_case"
        ELSE IF e.listed # ListedKw(kt, e.id) THEN "token_not_listed_as_its_keyword"
        ELSE "ok"

TableV(e) == IF ~TableBijective(Header.kw[e.d]) THEN "keyword_table_not_bijective"
             ELSE IF ~(KeywordsUsed(e.d) \subseteq DOMAIN Header.kw[e.d]) THEN "keyword_missing_from_the_table_of_its_dialect"
             ELSE "ok"

LeadOf(cls) == CASE cls = "digit" -> 0 [] cls = "byte" -> 15 [] cls = "int" -> 28 [] cls = "hex" -> 12 [] cls = "oct" -> 11
                 [] cls = "single" -> 29 [] cls = "double" -> 31
LenOf(cls)  == CASE cls = "digit" -> 1 [] cls = "byte" -> 2 [] cls \in {"int", "hex", "oct"} -> 3 [] cls = "single" -> 5 [] cls = "double" -> 9
\* the literal follows  <line> A=  : bytes 00 C0 DE lo hi 41 E7, then the number token ends the line
NumLitV(e) ==
    LET tok == SubSeq(e.t1, 8, Len(e.t1))
    IN  IF Len(e.t1) < 8 \/ Len(tok) # LenOf(e.cls) THEN "number_literal_not_one_token_of_its_class"
        ELSE IF e.cls = "digit" /\ tok[1] \notin 17..26 THEN "number_literal_not_one_token_of_its_class"
        ELSE IF e.cls # "digit" /\ tok[1] # LeadOf(e.cls) THEN "number_literal_not_one_token_of_its_class"
        ELSE IF e.t2 # e.t1 THEN "number_literal_changes_on_listing_and_reentry"
        ELSE "ok"

V(e) == CASE e.k = "line"   -> LineV(e)
          [] e.k = "kw"     -> KwV(e)
          [] e.k = "table"  -> TableV(e)
          [] e.k = "numlit" -> NumLitV(e)
          [] OTHER -> "unknown_event"

INSTANCE OracleTrace WITH Verdict <- V
=============================================================================
