SPECIFICATION Spec
CONSTANT Source = "kocher"
INVARIANT KocherLaws
INVARIANT ObservedIsKocher
