SPECIFICATION Spec
CONSTANTS
  W = 4
  H = 4
  Stride = 257
  Phase = 0
  SeedIdx = {0, 1, 2, 3, 4, 5, 6, 7, 8, 9, 10, 11, 12, 13, 14, 15}
INVARIANT FixpointLaws
INVARIANT Emit
