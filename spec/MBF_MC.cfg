SPECIFICATION Spec
CONSTANT BB <- McBB
INVARIANT OrderIsNative
INVARIANT Antisym
INVARIANT ZeroEncodings
INVARIANT IntDecode
INVARIANT EncDec
INVARIANT Widen
INVARIANT SuccAdjacent
INVARIANT NegAbs
INVARIANT WiderOK
CHECK_DEADLOCK FALSE
