SPECIFICATION Spec
CONSTANTS
  Payload = 255
  AsCoded = TRUE
  MaxFiles = 2
  Lens = {0, 1, 253, 254, 255, 256, 509, 510, 511}
  Types = {"D", "B"}
  Names = {"X", "Y"}
  Splits = {1, 254}
VIEW View
INVARIANT RoundTripInv
INVARIANT SplitIndependent
INVARIANT RecordsWellFormed
CHECK_DEADLOCK FALSE
