SPECIFICATION Spec
CONSTANTS
  CodeStart = 4717
  Keys = {1}
  AsCoded = TRUE
  LineNums = {10, 20, 30, 65529}
  Targets = {10}
  MaxLines = 4
  TrapCheck = TRUE
  Emitting = FALSE
  ArgNew <- NewQ
  ArgOld <- OldQ
  ArgInc <- IncQ
INVARIANT RenumOK
INVARIANT NoCrash
CHECK_DEADLOCK FALSE
