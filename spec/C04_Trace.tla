----------------------------- MODULE C04_Trace -----------------------------
(* C04: every recorded  r = a op b  of the real interpreter (op in + - * /,
   a and b MBF singles/doubles as bytes) is judged with EXACT arithmetic:

     + -   |r - exact| <= 2 ulp(r)
     *     |r - a*b|   <  ulp(r)
     /     |r*b - a|   <  ulp(r) * |b|          (cross-multiplied)
     |exact| >= 2^127            => Overflow (error 6, or the signed maximum when soft-handled)
     Overflow                    => |exact| exceeds the largest representable number
     b = 0 for /                 => Division by zero (error 11), signed maximum when soft-handled
     r = 0                       => exact = 0 or |exact| < 2^-128 (smallest positive number)
     the result has the wider of the operand types.

   event: [op, a, b, k ("val" | "err" | "soft"), code, r]                    *)
EXTENDS MBFBig, TraceBase
VARIABLES l, viol

Max2(p, q) == IF p > q THEN p ELSE q
Two == ScInt(2)

(* The exact result is the quotient X / D of two exactly known scaled numbers:
   X = a + b, a - b, a * b with D = 1, or X = a, D = b for the division.  Every
   comparison of the exact result with a bound T is cross-multiplied with |D|. *)
V(e) ==
    IF ~(e.op \in {"add", "sub", "mul", "div"} /\ MbfWellFormed(e.a) /\ MbfWellFormed(e.b)
         /\ e.k \in {"val", "err", "soft"}) THEN "malformed_event"
    ELSE
    LET A == MbfVal(e.a)
        B == MbfVal(e.b)
        wide == Max2(Len(e.a), Len(e.b))
        op == e.op
        X == IF op = "add" THEN ScAdd(A, B) ELSE IF op = "sub" THEN ScSub(A, B)
             ELSE IF op = "mul" THEN ScMul(A, B) ELSE A
        D == IF op = "div" THEN B ELSE ScInt(1)
        ExactIsZero == ScIsZero(X)
        ExactNeg == X.neg # D.neg
        MagLt(T) == ScAbsLt(X, ScMul(T, D))          \* |exact| < T
        MagLe(T) == ScAbsLe(X, ScMul(T, D))          \* |exact| <= T
        \* the stated error bound for a non-zero result R whose last binary place is U
        ErrOK(R, U) == LET diff == ScSub(ScMul(R, D), X)          \* (R - exact) * D
                       IN  IF op \in {"add", "sub"} THEN ScAbsLe(diff, ScMul(ScMul(Two, U), D))
                           ELSE ScAbsLt(diff, ScMul(U, D))
    IN
    IF op = "div" /\ ScIsZero(B) THEN
        IF e.k = "err" THEN (IF e.code = 11 THEN "ok" ELSE "divzero_wrong_error")
        ELSE IF e.k = "soft" THEN
            IF e.code # 11 THEN "divzero_wrong_error"
            ELSE IF ~(MbfWellFormed(e.r) /\ Len(e.r) = wide) THEN "result_type"
            ELSE IF IsMaxBytes(e.r, FALSE) /\ ~A.neg THEN "ok"
            ELSE IF IsMaxBytes(e.r, TRUE) /\ (A.neg \/ ScIsZero(A)) THEN "ok"
            ELSE "divzero_not_signed_max"
        ELSE "divzero_missed"
    ELSE IF e.k = "err" THEN
        IF e.code # 6 THEN "unexpected_error"
        ELSE IF MagLe(MbfMax(wide)) THEN "overflow_spurious" ELSE "ok"
    ELSE IF e.k = "soft" THEN
        IF e.code # 6 THEN "unexpected_error"
        ELSE IF MagLe(MbfMax(wide)) THEN "overflow_spurious"
        ELSE IF ~(MbfWellFormed(e.r) /\ Len(e.r) = wide) THEN "result_type"
        ELSE IF IsMaxBytes(e.r, ExactNeg) THEN "ok" ELSE "overflow_not_signed_max"
    ELSE
        IF ~(MbfWellFormed(e.r) /\ Len(e.r) = wide) THEN "result_type"
        ELSE IF ~MagLt(MbfLimit) THEN "overflow_missed"
        ELSE IF MbfIsZero(e.r) THEN
            IF ExactIsZero \/ MagLt(MbfMinPos) THEN "ok" ELSE "zero_result"
        ELSE IF ErrOK(MbfVal(e.r), MbfUlp(e.r)) THEN "ok"
        ELSE op \o "_error"

INSTANCE OracleTrace WITH Verdict <- V
=============================================================================
