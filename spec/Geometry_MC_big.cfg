SPECIFICATION Spec
CONSTANTS
  GW = 4
  GH = 4
INVARIANT WitnessEquivalent
INVARIANT RectLaws
