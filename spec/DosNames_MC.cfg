SPECIFICATION Spec
CONSTANTS
  Roots <- MCRoots
  CurDrive = 67
  AsCodedDots = FALSE
  AsCodedNames = FALSE
  MaxLen = 3
  MaxFiles = 1
  Alphabet = {65, 98, 46, 32}
VIEW View
CONSTRAINT Bound
PROPERTY Accepted
INVARIANT UpperLegal
INVARIANT FoundUnderAnyCase
INVARIANT ListingOpens
