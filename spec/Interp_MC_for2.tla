------------------------------ MODULE Interp_MC_for2 ------------------------------
EXTENDS Interp_MCF
VARIABLES s, hist
INSTANCE Interp_MCrun WITH Family <- For2Family
=============================================================================
