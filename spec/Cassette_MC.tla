---------------------------- MODULE Cassette_MC ----------------------------
(* Bounded design check of Cassette.tla: every tape session of 1..MaxFiles files with lengths in Lens, types in Types,
   names in Names, each file written in one piece or in two pieces split at a point of Splits; the invariant RoundTrip
   reads back every file from every earlier tape position.  Emit prints every finished session for the replay. *)
EXTENDS Cassette, TLC, Json
CONSTANTS MaxFiles, Lens, Types, Names, Splits
VARIABLES st, act
vars == <<st, act>>

Init == st = InitSt /\ act = [op |-> "init"]
NextId == Len(st.files) + 1
DoOpen == /\ ~st.w.open /\ Len(st.files) < MaxFiles
          /\ \E nm \in Names, t \in Types, n \in Lens :
               LET f == [name |-> nm, type |-> t, len |-> n, id |-> NextId]
               IN /\ st' = OpenWrite(st, f)
                  /\ act' = [op |-> "open", f |-> f]
Remaining == st.w.f.len - st.w.wr
DoWrite == /\ st.w.open /\ Remaining > 0
           /\ \E n \in ({Remaining} \cup {s \in Splits : st.w.wr = 0 /\ s < Remaining}) :
                /\ st' = Write(st, n)
                /\ act' = [op |-> "write", n |-> n]
DoClose == /\ st.w.open /\ Remaining = 0
           /\ st' = Close(st)
           /\ act' = [op |-> "close"]
Next == DoOpen \/ DoWrite \/ DoClose
Spec == Init /\ [][Next]_vars

View == st
RoundTripInv == RoundTrip(st)
\* the tape depends on the files only, not on how the writes were split
RECURSIVE Whole(_, _)
Whole(s, fs) == IF fs = <<>> THEN s ELSE Whole(Close(Write(OpenWrite(s, Head(fs)), Head(fs).len)), Tail(fs))
SplitIndependent == ~st.w.open => st.tape = Whole(InitSt, st.files).tape
RecordsWellFormed == \A p \in 1..Len(st.tape) : st.tape[p].k = "data" =>
                        /\ st.tape[p].n \in 1..Payload
                        /\ st.tape[p].count \in {0, st.tape[p].n}
                        /\ (st.tape[p].count = 0 => st.tape[p].n = Payload)

Emit == (act'.op = "close") =>
          PrintT(<<"SESSION", ToJson([files |-> st'.files, records |-> Len(st'.tape)])>>)
=============================================================================
