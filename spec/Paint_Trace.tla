---------------------------- MODULE Paint_Trace ----------------------------
(* Trace validation for C32: every PAINT executed on the real interpreter is
   judged with the Region operator of Paint.tla.  Events:
     paint {grid, after, seed [x,y] (viewport coordinates), fill, border, outside}
           grid/after: viewport content before/after as rows of attributes;
           outside: number of pixels changed outside the viewport (same page)
     gaps  {n}   pixels changed outside every viewport of a tiled screenful   *)
EXTENDS Paint, TraceBase
VARIABLES l, viol

V(e) ==
    IF e.op = "gaps" THEN (IF e.n = 0 THEN "ok" ELSE "changed_outside_viewport")
    ELSE LET sd == <<e.seed[1], e.seed[2]>>
         IN  IF e.outside # 0 THEN "changed_outside_viewport"
             ELSE IF ~OnlyRegion(e.grid, e.after, e.border, sd) THEN "changed_outside_region"
             ELSE IF ~ToFill(e.grid, e.after, e.fill) THEN "changed_to_other_attribute"
             ELSE IF ~Complete(e.grid, e.after, e.border, sd, e.fill) THEN "region_not_completely_filled"
             ELSE "ok"

INSTANCE OracleTrace WITH Verdict <- V
=============================================================================
