------------------------------- MODULE Cipher -------------------------------
(* The protection cipher of ,P files (property C15), as a position-dependent
   byte substitution.  The property does not fix the key tables, only their
   consequences: at every position the encoder and the decoder are inverse
   permutations of 0..255 and the position enters only modulo Period = 143.
   The tables are therefore PARAMETERS of every operator here.  A table is a
   sequence of rows, row i+1 belongs to stream position i, and a row is a
   sequence of 256 bytes: Row[c+1] is the image of byte c.  The checks
   instantiate the tables with those OBSERVED from the real protect/unprotect
   (Cipher_MC, C15_Trace) and with Kocher's published algorithm and the two
   GW-BASIC keys (Kocher.tla), which shows that the design the code
   transcribes has the property.
   (The laws are stated on rows so that TLC looks a row up once per position.) *)
EXTENDS Integers, Sequences, FiniteSets

Period == 143          \* 13 * 11, from the statement
Bytes  == 0..255

Img(row, c) == row[c + 1]

\* --- the cell laws; er/dr: encoder/decoder row of one position ---
RowShape(row)      == Len(row) = 256
RowInRange(row)    == \A c \in Bytes : Img(row, c) \in Bytes
RowDecEnc(er, dr)  == \A c \in Bytes : Img(dr, Img(er, c)) = c
RowEncDec(er, dr)  == \A c \in Bytes : Img(er, Img(dr, c)) = c
RowSame(r1, r2)    == \A c \in Bytes : Img(r1, c) = Img(r2, c)
\* a row is a permutation of 0..255
RowPermutation(row) == Cardinality({Img(row, x) : x \in Bytes}) = 256

\* the same laws for position i of whole tables E, D (two periods long)
PosLaws(E, D, i) ==
    LET er == E[i + 1]
        dr == D[i + 1]
    IN  /\ RowShape(er) /\ RowShape(dr) /\ RowInRange(er) /\ RowInRange(dr)
        /\ RowDecEnc(er, dr) /\ RowEncDec(er, dr)
        /\ RowPermutation(er) /\ RowPermutation(dr)
        /\ RowSame(er, E[(i % Period) + 1]) /\ RowSame(dr, D[(i % Period) + 1])

\* --- streams: the cipher is context free, byte k of a stream uses position (k-1) mod Period ---
Stream(T, s) == [k \in 1..Len(s) |-> T[((k - 1) % Period) + 1][s[k] + 1]]
=============================================================================
