---------------------------- MODULE VideoMem_Trace ----------------------------
(* Total trace specification for C34.  Events (one per BASIC statement):
     mode   {name, np, npr, fill, rows}  SCREEN / WIDTH: layout Layout(name), np pages tracked (of npr that exist),
                                       every row uniformly `fill` except the listed rows [page, y, row]
     draw   {rows}                     any other statement that changed the pages (PRINT, LINE, ..)
     plane  {rp, wm}                   OUT &H3CF,rp (plane read) / OUT &H3C5,wm (planes written)
     peek   {seg, off, val}            DEF SEG=seg: PEEK(off)
     poke   {seg, off, v, rows}        DEF SEG=seg: POKE off,v;  rows = rows that differ afterwards
     bsave  {seg, off, n, bytes}       BSAVE of n bytes; bytes = the data of the file written
     bload  {seg, off, bytes, rows}    BLOAD of a file holding bytes
   The state is the OBSERVED content of the pages (rows of cells / pixel
   attributes, kept up to date from the `rows` differences); every event is
   judged against VideoMem!Coords / PeekVal / PokeRow.  Bytes that back no
   content (bank padding, beyond the last page, other segments) are free.    *)
EXTENDS VideoMem, TraceBase
VARIABLES st, l, viol
tvars == <<st, l, viol>>
\* st = [L, np, npr, content, rp, wm];  content[page + 1][y + 1] = row

Uniform(w, v) == [i \in 1..w |-> v]
RowIn(rows, p, y, default) ==
    LET idx == {i \in 1..Len(rows) : rows[i][1] = p /\ rows[i][2] = y}
    IN  IF idx = {} THEN default ELSE rows[CHOOSE i \in idx : TRUE][3]
Patch(content, rows) ==
    [p \in 1..Len(content) |->
        IF \E i \in 1..Len(rows) : rows[i][1] = p - 1
        THEN [y \in 1..Len(content[p]) |-> RowIn(rows, p - 1, y - 1, content[p][y])]
        ELSE content[p]]

Rel(s, e) == e.seg * 16 + e.off - s.L.seg * 16
\* planes written: the write mask restricted to the planes that exist
Mask(s) == IF s.L.kind = "ega"
           THEN Bit(s.wm, 0) * Bit(s.L.planes, 0) + 2 * Bit(s.wm, 1) * Bit(s.L.planes, 1)
                + 4 * Bit(s.wm, 2) * Bit(s.L.planes, 2) + 8 * Bit(s.wm, 3) * Bit(s.L.planes, 3)
           ELSE 0
RowAt(content, c) == content[c.page + 1][c.y + 1]

\* expected row <<p, y>> after writing the bytes b at rel, rel+1, ..: the POKEs of the bytes that lie in that row, one after
\* the other (the bytes of a row are contiguous addresses, so the recursion is at most one row of bytes deep)
Max(a, b) == IF a > b THEN a ELSE b
Min(a, b) == IF a < b THEN a ELSE b
RECURSIVE FoldRow(_, _, _, _, _, _)
FoldRow(s, row, rel, b, j, hi) ==
    IF j > hi THEN row
    ELSE IF Backs(s.L, s.np, rel + j - 1)
         THEN LET nr == PokeRow(s.L, Coords(s.L, rel + j - 1), row, b[j], Mask(s))
              IN  IF Len(nr) >= 0 THEN FoldRow(s, nr, rel, b, j + 1, hi) ELSE row
         ELSE FoldRow(s, row, rel, b, j + 1, hi)
ExpRow(s, rel, b, p, y) ==
    LET a0 == Addr(s.L, p, y, 0, 0)
    IN  FoldRow(s, s.content[p + 1][y + 1], rel, b, Max(1, a0 - rel + 1), Min(Len(b), a0 + s.L.bpr - rel))
\* rows touched by writing n bytes from rel
Touched(s, rel, n) == {<<Coords(s.L, rel + i).page, Coords(s.L, rel + i).y>> : i \in {j \in 0..(n - 1) : Backs(s.L, s.np, rel + j)}}
DiffRows(rows) == {<<rows[i][1], rows[i][2]>> : i \in 1..Len(rows)}

\* reading a plane that exists / writing with a mask inside the existing planes (otherwise the property is silent)
ReadOk(s) == s.L.kind # "ega" \/ Bit(s.L.planes, s.rp % 4) = 1
WriteOk(s) == s.L.kind # "ega" \/ Mask(s) # 0
InMode(s, rel) == rel >= 0 /\ rel < s.npr * s.L.pageSize /\ s.L.seg * 16 + rel < 786432
CrossesBank(s, rel, n) == (rel % s.L.bankSize) + n > s.L.bankSize

FirstBad(s, rel, bytes) ==
    LET bad == {i \in 1..Len(bytes) : Backs(s.L, s.np, rel + i - 1)
                                       /\ bytes[i] # PeekVal(s.L, Coords(s.L, rel + i - 1), RowAt(s.content, Coords(s.L, rel + i - 1)), s.rp % 4)}
    IN  IF bad = {} THEN 0 ELSE CHOOSE i \in bad : \A j \in bad : i <= j

Verdict(s, e, obs) ==
    CASE e.op \in {"mode", "draw", "plane"} -> <<"ok">>
      [] e.op = "peek" ->
           IF Backs(s.L, s.np, Rel(s, e)) /\ ReadOk(s)
              /\ e.val # PeekVal(s.L, Coords(s.L, Rel(s, e)), RowAt(s.content, Coords(s.L, Rel(s, e))), s.rp % 4)
           THEN <<"peek_differs_from_screen_content", s.L.kind, Rel(s, e)>> ELSE <<"ok">>
      [] e.op = "poke" ->
           IF Backs(s.L, s.np, Rel(s, e)) /\ WriteOk(s)
           THEN LET chk == DiffRows(e.rows) \cup Touched(s, Rel(s, e), 1)
                IN  IF \A q \in chk : ExpRow(s, Rel(s, e), <<e.v>>, q[1], q[2]) = obs[q[1] + 1][q[2] + 1] THEN <<"ok">>
                    ELSE <<"poke_did_not_change_exactly_the_backed_content", s.L.kind, Rel(s, e)>>
           ELSE <<"ok">>
      [] e.op = "bsave" ->
           IF ~ReadOk(s) THEN <<"ok">>
           ELSE LET i == FirstBad(s, Rel(s, e), e.bytes)
                IN  IF i = 0 THEN <<"ok">>
                    ELSE <<"block_read_differs_from_bytewise_read", s.L.kind, Rel(s, e), Len(e.bytes), i,
                           CrossesBank(s, Rel(s, e), Len(e.bytes)), (Rel(s, e) % 2) = 1>>
      [] e.op = "bload" ->
           \* (a block that leaves the pages of the mode or the video window also writes bytes about which the property is silent)
           IF ~WriteOk(s) \/ ~InMode(s, Rel(s, e)) \/ ~InMode(s, Rel(s, e) + Len(e.bytes) - 1) THEN <<"ok">>
           ELSE LET chk == DiffRows(e.rows) \cup Touched(s, Rel(s, e), Len(e.bytes))
                IN  IF \A q \in chk : ExpRow(s, Rel(s, e), e.bytes, q[1], q[2]) = obs[q[1] + 1][q[2] + 1] THEN <<"ok">>
                    ELSE <<"block_write_differs_from_bytewise_write", s.L.kind, Rel(s, e), Len(e.bytes), 0,
                           CrossesBank(s, Rel(s, e), Len(e.bytes)), (Rel(s, e) % 2) = 1>>

Step(e) ==
    IF e.op = "mode"
    THEN LET L == Layout(e.name)
         IN  /\ st' = [L |-> L, np |-> e.np, npr |-> e.npr, rp |-> 0, wm |-> 255,
                       content |-> [p \in 1..e.np |-> [y \in 1..L.h |-> RowIn(e.rows, p - 1, y - 1, Uniform(L.w, e.fill))]]]
             /\ viol' = viol
    ELSE IF e.op = "plane"
    THEN st' = [st EXCEPT !.rp = e.rp, !.wm = e.wm] /\ viol' = viol
    ELSE LET obs == IF Has(e, "rows") /\ Len(e.rows) > 0 THEN Patch(st.content, e.rows) ELSE st.content
             v   == Verdict(st, e, obs)
         IN  /\ st' = [st EXCEPT !.content = obs]
             /\ viol' = IF v[1] = "ok" THEN viol ELSE Append(viol, <<l, v>>)

TInit == st = [L |-> Layout("cgatext80"), np |-> 0, npr |-> 0, rp |-> 0, wm |-> 255, content |-> <<>>] /\ l = 1 /\ viol = <<>>
TNext == l <= NEvents /\ l' = l + 1 /\ Step(Events[l])
TSpec == TInit /\ [][TNext]_tvars
TDone == (l = NEvents + 1) => WriteVerdict(l - 1, viol)
=============================================================================
