------------------------------ MODULE VideoMem ------------------------------
(* Video memory reflects and controls the screen content (property C34).

   The hardware layouts are literals of this specification (Layout(name)):
     text    page p, row r, column c:  byte 2(r*tw + c) of the page is the
             character, the next byte its attribute
     cga     packed pixels, bpp bits each, leftmost pixel in the high bits;
             scan line y lies in bank (y mod banks) at row (y div banks);
             banks are bankSize bytes apart, rows bpr bytes; the end of a bank
             behind its last row backs nothing
     ega     planar: 8 pixels per byte, leftmost in bit 7; the byte read is
             bit `plane` of the 8 attributes; a byte written sets, in every
             plane of the write mask, that plane's bit of the 8 attributes
             (L.planes = the planes that exist, as a bit mask)
     tandy6  4 banks like cga, 8 pixels per PAIR of bytes: the even byte holds
             bit 0 of the 8 attributes, the odd byte bit 1
   Content is kept as rows: for text modes rows of cells <<char, attr>>, for
   graphics rows of pixel attributes.

   Coords(L, rel)     where byte `rel` (offset from the start of the video
                      segment of the mode) lives: page, row y, first column x,
                      number of columns n, and `sub` (text: 0 char / 1 attr;
                      tandy6: plane);  Backs(L, np, rel) = the byte backs
                      content of one of the np pages
   Pack / PeekVal     the value PEEK must return
   PokeRow            the row after POKE of that byte (nothing else changes)
   block access       BSAVE = the PeekVals of the range; BLOAD = the POKEs of
                      the range one after the other                          *)
EXTENDS Integers, Sequences

Pow2(n) == IF n = 0 THEN 1 ELSE IF n = 1 THEN 2 ELSE IF n = 2 THEN 4 ELSE IF n = 3 THEN 8 ELSE IF n = 4 THEN 16
           ELSE IF n = 5 THEN 32 ELSE IF n = 6 THEN 64 ELSE IF n = 7 THEN 128 ELSE 256
Bit(v, k) == (v \div Pow2(k)) % 2

\* hardware layouts
Text(seg, tw, pageSize) == [kind |-> "text", seg |-> seg, w |-> tw, h |-> 25, pageSize |-> pageSize,
                            banks |-> 1, bankSize |-> pageSize, bpr |-> 2 * tw, bpp |-> 8, planes |-> 0]
Cga(w, h, bpp, banks)   == [kind |-> "cga", seg |-> 47104, w |-> w, h |-> h, pageSize |-> banks * 8192,
                            banks |-> banks, bankSize |-> 8192, bpr |-> (w * bpp) \div 8, bpp |-> bpp, planes |-> 0]
Ega(w, h, pageSize, planes) ==
                           [kind |-> "ega", seg |-> 40960, w |-> w, h |-> h, pageSize |-> pageSize,
                            banks |-> 1, bankSize |-> pageSize, bpr |-> w \div 8, bpp |-> 1, planes |-> planes]
Layout(name) ==
    CASE name \in {"cgatext80", "egatext80", "vgatext80", "tandytext80", "olivettitext80"} -> Text(47104, 80, 4096)
      [] name \in {"cgatext40", "egatext40", "vgatext40", "tandytext40", "olivettitext40"} -> Text(47104, 40, 2048)
      [] name \in {"mdatext80", "ega_monotext80"} -> Text(45056, 80, 4096)
      [] name \in {"mdatext40", "ega_monotext40"} -> Text(45056, 40, 2048)
      [] name \in {"320x200x4", "320x200x4_8pg", "320x200x4pcjr"} -> Cga(320, 200, 2, 2)
      [] name \in {"640x200x2", "640x200x2_8pg"} -> Cga(640, 200, 1, 2)
      [] name = "160x200x16"     -> Cga(160, 200, 4, 2)
      [] name = "320x200x16pcjr" -> Cga(320, 200, 4, 4)
      [] name = "640x400x2"      -> Cga(640, 400, 1, 4)
      [] name = "720x348x2"      -> Cga(720, 348, 1, 4)
      [] name = "640x200x4"      -> [Cga(640, 200, 2, 4) EXCEPT !.kind = "tandy6"]
      [] name = "320x200x16"     -> Ega(320, 200, 8192, 15)
      [] name = "640x200x16"     -> Ega(640, 200, 16384, 15)
      [] name \in {"640x350x16", "640x350x4c"} -> Ega(640, 350, 32768, 15)
      [] name = "640x350x4"      -> Ega(640, 350, 32768, 10)      \* monochrome EGA: two of the four planes exist

-----------------------------------------------------------------------------
(* the address map *)
Coords(L, rel) ==
    LET page == rel \div L.pageSize
        o    == rel % L.pageSize
        bank == o \div L.bankSize
        bo   == o % L.bankSize
        row  == bo \div L.bpr
        col  == bo % L.bpr
    IN  CASE L.kind = "text"   -> [page |-> page, y |-> row, x |-> col \div 2, n |-> 1, sub |-> col % 2]
          [] L.kind = "cga"    -> [page |-> page, y |-> bank + L.banks * row, x |-> (col * 8) \div L.bpp,
                                   n |-> 8 \div L.bpp, sub |-> 0]
          [] L.kind = "ega"    -> [page |-> page, y |-> row, x |-> col * 8, n |-> 8, sub |-> 0]
          [] L.kind = "tandy6" -> [page |-> page, y |-> bank + L.banks * row, x |-> (col \div 2) * 8, n |-> 8, sub |-> col % 2]
\* the inverse: the byte that holds column x of row y of a page (for tandy6 / text: its sub-byte `sub`)
Addr(L, page, y, x, sub) ==
    CASE L.kind = "text"   -> page * L.pageSize + y * L.bpr + 2 * x + sub
      [] L.kind = "cga"    -> page * L.pageSize + (y % L.banks) * L.bankSize + (y \div L.banks) * L.bpr + (x * L.bpp) \div 8
      [] L.kind = "ega"    -> page * L.pageSize + y * L.bpr + x \div 8
      [] L.kind = "tandy6" -> page * L.pageSize + (y % L.banks) * L.bankSize + (y \div L.banks) * L.bpr + 2 * (x \div 8) + sub
\* (the PC memory map gives video memory the window A0000..BFFFF; pages that would lie behind it are not addressable)
Backs(L, np, rel) ==
    /\ rel >= 0
    /\ L.seg * 16 + rel < 786432
    /\ LET c == Coords(L, rel) IN c.page < np /\ c.y < L.h /\ c.x + c.n <= L.w

-----------------------------------------------------------------------------
(* encoding: row is the content row of the byte (cells <<char, attr>> or pixel attributes, 1-based sequences) *)
RECURSIVE PackPix(_, _, _, _, _)
\* packed pixels x..x+n-1, bpp bits each, leftmost highest
PackPix(row, x, n, bpp, acc) ==
    IF n = 0 THEN acc ELSE PackPix(row, x + 1, n - 1, bpp, acc * Pow2(bpp) + (row[x + 1] % Pow2(bpp)))
RECURSIVE PackPlane(_, _, _, _, _)
\* bit `plane` of the attributes of pixels x..x+n-1, leftmost highest
PackPlane(row, x, n, plane, acc) ==
    IF n = 0 THEN acc ELSE PackPlane(row, x + 1, n - 1, plane, acc * 2 + Bit(row[x + 1], plane))

\* rp: the colour plane selected for reading (ega)
PeekVal(L, c, row, rp) ==
    CASE L.kind = "text"   -> row[c.x + 1][c.sub + 1]
      [] L.kind = "cga"    -> PackPix(row, c.x, c.n, L.bpp, 0)
      [] L.kind = "ega"    -> PackPlane(row, c.x, 8, rp, 0)
      [] L.kind = "tandy6" -> PackPlane(row, c.x, 8, c.sub, 0)

\* the attribute of pixel number k (0 = leftmost) of a byte v written; mask: planes written (ega)
PokePix(L, c, old, v, k, mask) ==
    CASE L.kind = "cga"    -> (v \div Pow2(L.bpp * (c.n - 1 - k))) % Pow2(L.bpp)
      [] L.kind = "ega"    -> LET b == Bit(v, 7 - k)
                              IN  \* planes in the mask take the bit of v, the others keep theirs
                                  (IF Bit(mask, 0) = 1 THEN b ELSE Bit(old, 0))
                                  + 2 * (IF Bit(mask, 1) = 1 THEN b ELSE Bit(old, 1))
                                  + 4 * (IF Bit(mask, 2) = 1 THEN b ELSE Bit(old, 2))
                                  + 8 * (IF Bit(mask, 3) = 1 THEN b ELSE Bit(old, 3))
                                  + 16 * (old \div 16)
      [] L.kind = "tandy6" -> LET b == Bit(v, 7 - k)
                              IN  IF c.sub = 0 THEN 2 * (old \div 2) + b ELSE 4 * (old \div 4) + 2 * b + (old % 2)
PokeRow(L, c, row, v, mask) ==
    IF L.kind = "text"
    THEN [row EXCEPT ![c.x + 1] = IF c.sub = 0 THEN <<v, @[2]>> ELSE <<@[1], v>>]
    ELSE SubSeq(row, 1, c.x) \o [k \in 1..c.n |-> PokePix(L, c, row[c.x + k], v, k - 1, mask)]
         \o SubSeq(row, c.x + c.n + 1, Len(row))
=============================================================================
