------------------------------ MODULE Renum_MC ------------------------------
(* Bounded design check of RENUM.  TLC builds EVERY program with at most
   MaxLines lines over LineNums whose lines are plain or carry one or two
   references to Targets (existing or missing lines), and evaluates in every
   such state, for EVERY argument triple of the configuration (and, with
   TrapCheck, every placement of an error trap and a key trap), that
     - the acceptance condition is the one of the implementation-shaped layer
       (ProgramStore!RenumImpl on the freshly built memory image),
     - an accepted RENUM loses no line, keeps the order, stays <= 65529,
     - the implementation-shaped result refines the reference result
       (listing, index = rescan, links),
     - references to missing lines are kept,
     - when no reference dangles the renumbering map is an isomorphism of the
       control-flow graphs (same behaviour),
     - the traps end on the lines they were on, and (NoCrash) the trap lookup
       as coded does not fail.
   With Emitting = TRUE every RENUM is also a transition, printed for the
   behaviour replay.                                                         *)
EXTENDS Renum, Json

CONSTANTS LineNums, Targets, MaxLines, TrapCheck, Emitting,
          ArgNew, ArgOld, ArgInc
VARIABLES st, act
vars == <<st, act>>

\* argument sets (a .cfg file cannot hold negative numbers; -1 = argument absent)
NewQ == {-1, 5, 20, 65520}      OldQ == {-1, 20, 25}     IncQ == {-1, 0, 1}
NewT == {-1, 0, 5, 20, 65520}   OldT == {-1, 20, 25, 65529}   IncT == {-1, 0, 1}
NewE == {-1, 20, 65520}         OldE == {-1, 20}         IncE == {-1, 0}

\* a line that can serve as error handler and as key handler
Plain    == Lit("PRINT \"E\";ERR;\"L\";ERL:IF ERR THEN RESUME NEXT ELSE RETURN")
One(t)   == <<[s |-> "GOTO ", n |-> t]>>
Two(t,u) == <<[s |-> "IF X THEN ", n |-> t], [s |-> " ELSE ", n |-> u]>>
Texts == {Plain} \cup {One(t) : t \in Targets} \cup {Two(p[1], p[2]) : p \in {q \in Targets \X Targets : q[1] < q[2]}}
Args == {[op |-> "renum", new |-> n, old |-> o, inc |-> i] : n \in ArgNew, o \in ArgOld, i \in ArgInc}
TrapLines(ref) == IF TrapCheck THEN {k \in DOMAIN ref : ref[k] = Plain} \cup {0} ELSE {0}

Image(ref) == RebuildImpl([i \in DOMAIN Pairs(ref) |-> [n |-> Pairs(ref)[i][1], text |-> Pairs(ref)[i][2]]])

Check(ref, a) ==
    LET must == RenumMust(ref, a)
        imp  == RenumImpl(Image(ref), RNew(a), ROld(a), RInc(a))
        m    == RenumMap(ref, RNew(a), ROld(a), RInc(a))
        fm   == FullMap(ref, m)
        ref2 == RenumRef(ref, RNew(a), ROld(a), RInc(a))
    IN  CASE must = "ifc" -> imp.res = "ifc"
          [] must = "any" -> TRUE
          [] must = "ok"  ->
               /\ imp.res = "ok"
               /\ Cardinality(DOMAIN ref2) = Cardinality(DOMAIN ref)
               /\ \A k \in DOMAIN ref2 : k <= MaxLine
               /\ Monotone(fm)
               /\ \A k \in Moved(ref, ROld(a)) : m[k] = RNew(a) + RInc(a) * (Rank(k, Moved(ref, ROld(a))) - 1)
               /\ Refines(ref2, imp.im) /\ IndexIsScan(imp.im) /\ LinksChain(imp.im)
               /\ \A k \in DOMAIN ref : \A i \in DOMAIN ref[k] :
                     (ref[k][i].n # NoRef /\ ref[k][i].n \notin DOMAIN ref) => ref2[fm[k]][i].n = ref[k][i].n
               /\ (Reports(ref) = <<>> => Iso(ref, ref2, fm))
               /\ Len(Reports(ref)) = Cardinality({<<k, i>> \in (DOMAIN ref) \X (1..2) :
                                                     i \in DOMAIN ref[k] /\ ref[k][i].n # NoRef /\ ref[k][i].n \notin DOMAIN ref})
               /\ \A h \in TrapLines(ref), g \in TrapLines(ref) :
                     LET s2 == RenumEffect([InitR EXCEPT !.ref = ref, !.onerr = h, !.evt = [k \in Keys |-> g]], a)
                     IN  /\ (h # 0 => s2.onerr \in DOMAIN ref2 /\ ref2[s2.onerr] = Retarget(ref[h], m))
                         /\ (h = 0 => s2.onerr = 0)
                         /\ \A k \in Keys : (g # 0 => s2.evt[k] = fm[g]) /\ (g = 0 => s2.evt[k] = 0)
RenumOK == \A a \in Args : Check(st.ref, a)
NoCrash == \A a \in Args : \A h \in TrapLines(st.ref), g \in TrapLines(st.ref) :
              ~Crashes([InitR EXCEPT !.ref = st.ref, !.onerr = h, !.evt = [k \in Keys |-> g]], a)
\* NOT a property of RENUM as stated (expected to fail): a kept dangling reference can come to denote a line
NoCaptureInv == \A a \in Args : RenumMust(st.ref, a) = "ok" =>
                    NoCapture(st.ref, RenumRef(st.ref, RNew(a), ROld(a), RInc(a)))

Init == st = InitR /\ act = [op |-> "init"]
AddLine(n, t) ==
    /\ act.op \in {"init", "add"}
    /\ Cardinality(DOMAIN st.ref) < MaxLines
    /\ \A k \in DOMAIN st.ref : k < n
    /\ st' = [st EXCEPT !.ref = Put(@, n, t)]
    /\ act' = [op |-> "add"]
Arm(h, g) ==
    /\ Emitting /\ (h = g \/ h = 0 \/ g = 0) /\ TrapCheck /\ act.op = "add"
    /\ st' = [st EXCEPT !.onerr = h, !.evt = [k \in Keys |-> g]]
    /\ act' = [op |-> "arm"]
DoRenum(a) ==
    /\ Emitting /\ act.op \in {"add", "arm"}
    /\ act' = a @@ [must |-> RenumMust(st.ref, a), reports |-> Reports(st.ref), crash |-> Crashes(st, a)]
    /\ st' = IF RenumMust(st.ref, a) = "ok" THEN RenumEffect(st, a) ELSE st
Next == \/ \E n \in LineNums, t \in Texts : AddLine(n, t)
        \/ \E h \in TrapLines(st.ref), g \in TrapLines(st.ref) : Arm(h, g)
        \/ \E a \in Args : DoRenum(a)
Spec == Init /\ [][Next]_vars

EmitR == act'.op = "renum" =>
           PrintT(<<"TRANSITION", ToJson([from |-> Pairs(st.ref), onerr |-> st.onerr, evt |-> st.evt, a |-> act',
                                           list |-> Listing(st'.ref), onerr2 |-> st'.onerr, evt2 |-> st'.evt])>>)
=============================================================================
