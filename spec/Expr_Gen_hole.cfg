SPECIFICATION Spec
CONSTANTS
  Family = "hole"
  MaxDepth = 1
  NRandom = 0
  MaxOps = 9
  Positional = FALSE
INVARIANT RoundTrip
CHECK_DEADLOCK FALSE
