SPECIFICATION TSpec
CONSTANTS
  Names = {"A", "B", "C", "D"}
  Auto = 10
  MaxCells = 4000
INVARIANT TDone
CHECK_DEADLOCK FALSE
