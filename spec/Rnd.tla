-------------------------------- MODULE Rnd --------------------------------
(* The random number generator of BASIC (property C39).
   A linear congruential generator on 24-bit states:
        Next(seed) = (seed * A + C) mod 2^24,     RND = seed / 2^24 exactly.
   A and C are NOT fixed by the property statement: they are inferred from
   the first states observed from the implementation, handed in as
   constants and then held fixed; what the statement fixes is the modulus
   2^24, the exact scaling, determinism and the FULL PERIOD, which is
   stated here (a) as the Hull-Dobell conditions on A, C and (b) as the
   cycle length of Next that TLC measures by walking the cycle (Rnd_MC).
   TLC integers are 32-bit: products are formed on half-width limbs.       *)
EXTENDS Integers, Sequences

CONSTANTS A,        \* multiplier, 0..2^24-1
          C         \* increment,  0..2^24-1

M24 == 16777216     \* 2^24 (statement literal)
L24 == 4096         \* limb: 2^12

(* ---- modular arithmetic on a modulus Lb*Lb with limb Lb ----------------- *)
Lo(Lb, x) == x % Lb
Hi(Lb, x) == x \div Lb
\* x*y mod Lb^2 for 0 <= x, y < Lb^2 ; every intermediate value is < 2*Lb^2
MulModW(Lb, x, y) ==
    (Lo(Lb, x) * Lo(Lb, y) + ((Lo(Lb, x) * Hi(Lb, y) + Hi(Lb, x) * Lo(Lb, y)) % Lb) * Lb) % (Lb * Lb)
\* one step of the generator x -> a x + c on modulus Lb^2
NextG(Lb, a, c, s) == (MulModW(Lb, s, a % (Lb * Lb)) + (c % (Lb * Lb))) % (Lb * Lb)
NextW(Lb, s) == NextG(Lb, A, C, s)

Next(s)   == NextW(L24, s)
InRange(s) == s >= 0 /\ s < M24

(* ---- full period --------------------------------------------------------
   Hull-Dobell: x -> (A x + C) mod m has period m  iff  gcd(C, m) = 1,
   A - 1 is divisible by every prime factor of m, and by 4 if 4 | m.
   For m = 2^24: C odd and A = 1 (mod 4).                                   *)
HD(a, c)   == c % 2 = 1 /\ a % 4 = 1
HullDobell == HD(A, C)
ConstOK    == InRange(A) /\ InRange(C)

(* ---- the value: seed / 2^24 as the 4 bytes of a Microsoft-binary single --
   value = 0.1mmm... (24 bits, leading 1 replaced by the sign bit) * 2^(e-128);
   bytes little-endian <<m0, m1, m2 (bit 7 = sign), e>>; e = 0 is zero.     *)
RECURSIVE NormM(_, _)
NormM(m, e) == IF m >= 8388608 THEN <<m, e>> ELSE NormM(2 * m, e - 1)
Enc(s) == IF s = 0 THEN <<0, 0, 0, 0>>
          ELSE LET n == NormM(s, 128)
                   f == n[1] - 8388608
               IN  <<f % 256, (f \div 256) % 256, f \div 65536, n[2]>>

Pow2(k) == 2 ^ k
\* inverse: the seed a single stands for, or -1 when the single is not k/2^24 with 0 <= k < 2^24;
\* the single is given in the compact form (m, e): m = b1 + 256 b2 + 65536 b3 (mantissa with sign bit), e = b4 (exponent)
DecME(m, e) == IF e = 0 THEN 0
               ELSE IF m >= 8388608 \/ e > 128 \/ e < 105 THEN -1
               ELSE LET mant == m + 8388608
                        p    == Pow2(128 - e)
                    IN  IF mant % p # 0 THEN -1 ELSE mant \div p
Dec(b)  == DecME(b[1] + 256 * b[2] + 65536 * b[3], b[4])
Dec2(v) == DecME(v[1], v[2])

\* "every value is the current seed divided by 2^24 exactly"
ValueIs(b, s) == IF s = 0 THEN b[4] = 0 ELSE b = Enc(s)
=============================================================================
