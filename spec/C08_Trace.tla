----------------------------- MODULE C08_Trace -----------------------------
(* Trace validation for C08: every recorded PRINT USING of the real interpreter
   is judged by PrintUsing.tla.  Events:
     [op |-> "num", f |-> field text, neg |-> BOOLEAN, xd |-> digits, xe |-> Int, p |-> 7 | 16,
      k |-> "ok" | "err" | .., out |-> text written]
     [op |-> "str", f |-> field text, s |-> string, k, out]
     [op |-> "line", f |-> format string, vals |-> <<[t |-> "n", neg, xd, xe, p] | [t |-> "s", v]>>, k, out]
                                             (literal text, escapes and several fields; values cycle) *)
EXTENDS PrintUsing, TraceBase
VARIABLES l, viol

V(e) ==
    IF e.k # "ok" THEN "outcome"
    ELSE CASE e.op = "num" -> NumVerdict(e.f, e.neg, e.xd, e.xe, e.p, e.out)
           [] e.op = "str" -> StrVerdict(e.f, e.s, e.out)
           [] e.op = "line" -> LineVerdict(e.f, e.vals, e.out)
           [] OTHER -> "unknown_op"

INSTANCE OracleTrace WITH Verdict <- V
=============================================================================
