SPECIFICATION Spec
CONSTANTS
  RingLen = 16
  Keys <- Keys3
  MaxSteps = 8
  MaxPress = 99
  MaxPokes = 99
  MaxRead = 2
  Serial = FALSE
  PokeOps = {"pokehead", "poketail"}
  PokeD = {0, 1, 15}
VIEW View
INVARIANT TypeInv
INVARIANT RingViewInv
INVARIANT FifoInv
PROPERTY InkeyAgrees
PROPERTY DropWhenFull
PROPERTY StoreBelowCap
PROPERTY ClearEmpties
PROPERTY ClearPoke
CHECK_DEADLOCK FALSE
