SPECIFICATION Spec
CONSTANTS
  FileNums = {1}
  Names = {"A"}
  MaxLen = 3
  AsCoded = FALSE
  Strings <- StringsEmit
  Numbers <- NumbersEmit
  PLines <- PLinesEmit
  MaxItems = 3
  MaxOps = 6
VIEW ViewSt
INVARIANT ReadsInOrder
INVARIANT EofExact
INVARIANT LofIsBytes
INVARIANT FormatRoundTrips
PROPERTY AppendExtends
ACTION_CONSTRAINT Emit
CHECK_DEADLOCK FALSE
