SPECIFICATION Spec
CONSTANTS
  Family = "prec"
  MaxDepth = 2
  NRandom = 0
  MaxOps = 3
  Positional = TRUE
INVARIANT RoundTrip
CHECK_DEADLOCK FALSE
