SPECIFICATION Spec
CONSTANTS
  Roots <- MCRoots2
  CurDrive = 67
  AsCodedDots = FALSE
  AsCodedNames = TRUE
  Elems <- Elems9
  Prefixes <- Pre3
  MaxElems = 2
  NameElems = 1
  StmtSet = {"CHDIR", "MKDIR", "RMDIR", "OPENI", "OPENO", "OPENA", "OPENR", "LOAD", "MERGE", "CHAIN", "RUN", "BLOAD", "SAVE", "BSAVE", "FILES", "KILL", "NAME"}
  Dynamic = FALSE
  MaxNodes = 0
VIEW View
PROPERTY TouchedInside
INVARIANT CwdInside
INVARIANT CwdPlain
PROPERTY FailNoEffect
ACTION_CONSTRAINT Emit
