SPECIFICATION Spec
VIEW View
INVARIANT TypeOK
ACTION_CONSTRAINT Emit
