----------------------------- MODULE Renum_Trace -----------------------------
(* Total trace specification for C14.  Events (one BASIC statement or probe on
   the real interpreter each):
     load      lines                  NEW + the lines typed in; obs.list
     onerror   n                      direct ON ERROR GOTO n                (ok, code)
     onkey     k, n                   direct ON KEY(k) GOSUB n: KEY(k) ON    (ok, code)
     renum     new, old, inc (-1 = omitted)   ok, code, kind;
               obs.list = LIST after it, obs.reports = [[target, holder], ...] "Undefined line" lines
     probe_err                        direct ERROR 77 under TRON: obs.landed = first line executed (-1 none)
     probe_key k, at                  direct GOTO `at` with key k pressed at the statement boundary: obs.landed
     run                              RUN under TRON, cut after a fixed number of statements:
                                      obs.trace = printed output as items [s, n] (n = a printed line number)
   RENUM is judged by Renum!RenumMust / RenumEffect: refusal exactly as demanded and then nothing
   changes; acceptance => listing = Listing of the renumbered reference program, reports as demanded,
   afterwards the traps are found on the lines they followed and the next RUN prints the previous
   RUN's output with the line numbers mapped.                                *)
EXTENDS Renum, TraceBase
VARIABLES st, l, viol
tvars == <<st, l, viol>>

Unset == [set |-> FALSE, tr |-> <<>>]

Judge(e) ==
    CASE e.op = "load" ->
           LET s1 == EffectR(st, e)
           IN  [st |-> s1, v |-> IF e.kind = "internal" THEN "internal_error"
                                 ELSE IF e.obs.list # Listing(s1.ref) THEN "listing_differs_after_entering_the_program" ELSE "ok"]
      [] e.op \in {"onerror", "onkey"} ->
           [st |-> IF e.ok THEN EffectR(st, e) ELSE st,
            v  |-> IF e.kind = "internal" THEN "internal_error"
                   ELSE IF e.n \in DOMAIN st.ref /\ ~e.ok THEN "trap_statement_refused" ELSE "ok"]
      [] e.op = "renum" ->
           LET must == RenumMust(st.ref, e)
               s1   == IF e.ok THEN RenumEffect(st, e) ELSE st
               fm   == FullMap(st.ref, RenumMap(st.ref, RNew(e), ROld(e), RInc(e)))
               good == e.obs.list = Listing(s1.ref)
               v == IF e.kind = "internal" THEN "internal_error"
                    ELSE IF must = "ifc" /\ e.ok THEN "renum_accepted_but_must_be_refused"
                    ELSE IF must = "ifc" /\ e.code # 5 THEN "renum_refused_with_another_error"
                    ELSE IF must = "ok" /\ ~e.ok THEN "renum_refused_but_must_be_accepted"
                    ELSE IF ~good THEN (IF e.ok THEN "listing_differs_from_renumbered_reference" ELSE "refused_renum_changed_the_program")
                    ELSE IF e.ok /\ ~ReportsMatch(Reports(st.ref), e.obs.reports, fm) THEN "undefined_line_reports_differ"
                    ELSE "ok"
           IN  [st |-> IF good THEN s1
                       ELSE [s1 EXCEPT !.ref = [n \in {e.obs.list[i][1] : i \in DOMAIN e.obs.list} |->
                                                   Lit(e.obs.list[CHOOSE i \in DOMAIN e.obs.list : e.obs.list[i][1] = n][2])],
                                       !.expect = Unset],
                v  |-> v]
      [] e.op = "probe_err" ->
           [st |-> st, v |-> IF e.kind = "internal" THEN "internal_error"
                             ELSE IF st.onerr # 0 /\ e.obs.landed # st.onerr THEN "error_trap_not_on_its_line"
                             ELSE IF st.onerr = 0 /\ e.obs.landed # -1 THEN "error_trap_active_but_none_set"
                             ELSE "ok"]
      [] e.op = "probe_key" ->
           [st |-> st, v |-> IF e.kind = "internal" THEN "internal_error"
                             ELSE IF st.evt[e.k] # 0 /\ e.obs.landed # st.evt[e.k] THEN "event_trap_not_on_its_line"
                             ELSE IF st.evt[e.k] = 0 /\ e.obs.landed # e.at THEN "event_trap_active_but_none_set"
                             ELSE "ok"]
      [] e.op = "run" ->
           \* RUN switches the traps off; what the program arms itself is not tracked
           [st |-> [st EXCEPT !.onerr = 0, !.evt = [k \in Keys |-> 0], !.expect = [set |-> TRUE, tr |-> e.obs.trace]],
            v  |-> IF e.kind = "internal" THEN "internal_error"
                   ELSE IF st.expect.set /\ e.obs.trace # st.expect.tr THEN "behaviour_differs_after_renum" ELSE "ok"]

Step(e) ==
    LET j == Judge(e)
    IN  /\ st' = j.st
        /\ viol' = IF j.v = "ok" THEN viol ELSE Append(viol, <<l, j.v>>)

TInit == st = InitR /\ l = 1 /\ viol = <<>>
TNext == l <= NEvents /\ l' = l + 1 /\ Step(Events[l])
TSpec == TInit /\ [][TNext]_tvars
TDone == (l = NEvents + 1) => WriteVerdict(l - 1, viol)
=============================================================================
