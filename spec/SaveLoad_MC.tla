---------------------------- MODULE SaveLoad_MC ----------------------------
(* Design check of the file layout in SaveLoad.tla: for EVERY memory image over
   a small alphabet that contains the EOF byte (so payloads that contain or end
   in 1A are included) and both binary formats, loading the saved file gives
   the image back.  Cipher tables: Kocher's design.  With AsCoded = TRUE the
   loader of the pinned tree is used for B files and TLC must find the
   counterexample (selftest of the known finding eof-marker-kept).           *)
EXTENDS SaveLoad, Kocher, TLC
CONSTANTS Alphabet, MaxLen, AsCoded
VARIABLES mem, fmt

ETab == [k \in 1..Period |-> KEncRow(k - 1)]
DTab == [k \in 1..Period |-> KDecRow(k - 1)]

Seqs(n) == UNION {[1..k -> Alphabet] : k \in 0..n}
Init == /\ fmt \in {"B", "P"}
        /\ \E s \in Seqs(MaxLen) : mem = <<0>> \o s
Next == UNCHANGED <<mem, fmt>>
Spec == Init /\ [][Next]_<<mem, fmt>>

Load(file) == IF AsCoded THEN MemOfAsCoded(fmt, file, DTab) ELSE MemOf(fmt, file, DTab)
RoundTrip == Load(FileOf(fmt, mem, ETab)) = mem
Verdict   == RoundTripVerdict(mem, Len(mem), Load(FileOf(fmt, mem, ETab)), Len(mem)) = "ok"
\* the protected payload is the cipher image of the tokenised payload
PIsCipherOfB == FileOf("P", mem, ETab) = <<MagicP>> \o Stream(ETab, DropLast(Drop1(FileOf("B", mem, ETab)))) \o <<EOFByte>>
=============================================================================
