--------------------------- MODULE ProgramStore_MC ---------------------------
(* Bounded design check of the program store + transition emitter for the
   behaviour replay.  The reference layer and the implementation-shaped layer
   make every edit side by side; TLC checks in every reachable state that the
   implementation-shaped layer refines the reference layer.                  *)
EXTENDS ProgramStore, Json

CONSTANTS LineNums,      \* line numbers used by edits
          MaxEdits,      \* history length bound
          RenumNew, RenumOld, RenumInc

VARIABLES ref, im, act, depth
vars == <<ref, im, act, depth>>

TA == Lit("A")
TB == Lit("BB")
TG == <<[s |-> "GOTO ", n |-> 10]>>
Texts == {TA, TB, TG}
L(n, t) == [n |-> n, text |-> t]
File1 == <<L(20, TA), L(10, TB)>>                \* unordered
File2 == <<L(30, TG), L(30, TA), L(0, TB)>>      \* a number twice: the later line wins
Files == {File1, File2}
Image1 == <<L(10, TG), L(20, TA), L(65529, TB)>> \* tokenised file (ascending, as SAVE writes it)

Actions ==
    {[op |-> "store", n |-> n, text |-> t] : n \in LineNums, t \in Texts \cup {<<>>}}
    \cup {[op |-> "delete", lo |-> lo, hi |-> hi] : lo \in LineNums \cup {-1}, hi \in LineNums \cup {-1}}
    \cup {[op |-> "renum", new |-> n, old |-> o, inc |-> i] : n \in RenumNew, o \in RenumOld, i \in RenumInc}
    \cup {[op |-> o, lines |-> f] : o \in {"merge", "load"}, f \in Files}
    \cup {[op |-> "loadb", lines |-> Image1], [op |-> "new"]}

\* argument sets of the configurations (a .cfg file cannot hold negative numbers; -1 = argument absent)
NewBig == {-1, 0, 30, 65520}   OldBig == {-1, 20}   IncBig == {-1, 0, 5}
NewEmit == {-1, 65520}         OldEmit == {-1, 20}  IncEmit == {-1, 0}

Init == ref = EmptyRef /\ im = EmptyIm /\ act = [op |-> "init"] /\ depth = 0
Do(a) ==
    LET r  == ApplyImpl(im, a)
        st == [ref |-> ref, files |-> <<>>]
    IN  /\ depth < MaxEdits
        /\ depth' = depth + 1
        /\ im' = r.im
        \* the action, its outcome in the implementation-shaped layer, and what the reference layer says about it
        /\ act' = a @@ [res |-> r.res, must |-> Must(st, a),
                        legal |-> IF a.op = "renum" /\ Moved(ref, ROld(a)) # {}
                                  THEN IF RenumLegal(ref, RNew(a), ROld(a), RInc(a)) THEN "yes" ELSE "no"
                                  ELSE "na"]
        \* the reference layer follows the outcome (a refused edit leaves the program as it was)
        /\ ref' = After(st, a, r.res = "ok").ref
Next == \E a \in Actions : (a.op = "delete" => Lo(a) <= Hi(a)) /\ Do(a)
Spec == Init /\ [][Next]_vars

\* --- the property on the model
RefinesInv     == Refines(ref, im)
IndexIsScanInv == IndexIsScan(im)
LinksChainInv  == LinksChain(im)
GotoLandsInv   == GotoLands(ref, im)
\* the implementation-shaped layer refuses only where the property allows it, and RENUM exactly when the
\* renumbering is not legal (RenumLegal is the reference-layer condition used by module Renum)
OutcomeInv ==
    /\ act.op # "init" =>
          /\ (act.must = "ok" => act.res = "ok")
          /\ (act.legal = "yes" => act.res = "ok")
          /\ (act.legal = "no" => act.res = "ifc")

\* TLC evaluates invariants on newly found view-states only: a transition with a wrong outcome must be a new view-state
\* `depth` stays in the view of the model check: with several workers TLC's search is not strictly breadth-first, and a
\* hidden depth counter would make the set of explored histories depend on the schedule.  The emitter runs with one worker.
View  == <<ref, im, OutcomeInv, depth>>
ViewE == <<ref, im, OutcomeInv>>

\* every transition once: program before, action, outcome, program after with the predicted memory layout
Emit == PrintT(<<"TRANSITION", ToJson([from |-> Pairs(ref), a |-> act', to |-> Pairs(ref'),
                                        list |-> Listing(ref'), chain |-> ChainOf(im')])>>)
=============================================================================
