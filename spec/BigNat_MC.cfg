SPECIFICATION Spec
CONSTANTS
  LB = 8
  LBits = 3
  N = 48
  NS = 4
INVARIANT NatOK
INVARIANT ScOK
CHECK_DEADLOCK FALSE
