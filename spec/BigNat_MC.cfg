SPECIFICATION Spec
CONSTANTS
  LB = 8
  LBits = 3
  N = 96
  NS = 6
INVARIANT NatOK
INVARIANT ScOK
CHECK_DEADLOCK FALSE
