SPECIFICATION Spec
CONSTANTS
  TextWidths = {5, 3}
  W = 5
  H = 4
  W2 = 3
  Chars = {65, 66}
  Walk = FALSE
  NWalks = 300
  Seed = 1
  D = 3
INVARIANT Inv
INVARIANT PlacementLaw
INVARIANT ShortcutSound
PROPERTY OutsideWindowUnchanged
PROPERTY LocateReported
PROPERTY LocateOutsideRefused
CHECK_DEADLOCK FALSE
