SPECIFICATION Spec
CONSTANTS
  CodeStart = 4717
  Keys = {1}
  AsCoded = FALSE
  LineNums = {10, 20, 30, 65529}
  Targets = {10, 25, 30}
  MaxLines = 4
  TrapCheck = FALSE
  Emitting = FALSE
  ArgNew <- NewQ
  ArgOld <- OldQ
  ArgInc <- IncQ
INVARIANT RenumOK
CHECK_DEADLOCK FALSE
