------------------------------ MODULE Locks_MC ------------------------------
(* Bounded design check + transition emitter for behaviour replay.
   The reference implementation resolves "any" to success, "fail"/"deny70" to failure. *)
EXTENDS Locks, TLC, Json
VARIABLES st, act
vars == <<st, act>>

Init == st = InitSt /\ act = [op |-> "init"]
Do(a) == /\ act' = a
         /\ st' = IF RefOk(st, a) THEN Effect(st, a) ELSE st
Next == \E a \in Actions(st) : Do(a)
Spec == Init /\ [][Next]_vars

View == st
NoOverlap == NoOverlapSt(st)
NoTwoWritersInv == NoTwoWriters(st)
UnlockExact == [][act'.op = "unlock" /\ st' # st => Norm(st, act'.n, act'.r) \in st.locks[act'.n]]_vars

\* emit every transition once (each view-state is expanded exactly once): from-state id, action, demanded outcome
Emit == PrintT(<<"TRANSITION", ToJson([from |-> st, a |-> act', must |-> Must(st, act'), ref |-> RefOk(st, act'), to |-> st'])>>)
=============================================================================
