SPECIFICATION Spec
CONSTANTS
  CodeStart = 4717
  Keys = {1}
  AsCoded = FALSE
  LineNums = {0, 10, 20, 30, 65529}
  Targets = {10, 25, 30}
  MaxLines = 5
  TrapCheck = FALSE
  Emitting = FALSE
  ArgNew <- NewT
  ArgOld <- OldT
  ArgInc <- IncT
INVARIANT RenumOK
CHECK_DEADLOCK FALSE
