SPECIFICATION Spec
CONSTANTS
  NStmts = 30000
  MaxCmds = 8
  MaxTones = 24
  BadOdds = 25
CHECK_DEADLOCK FALSE
