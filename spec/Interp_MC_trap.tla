------------------------------ MODULE Interp_MC_trap ------------------------------
EXTENDS Interp_MCF
VARIABLES s, cmd, hset, pending, reon, nocc, last
INSTANCE Interp_MCtraprun WITH Family <- TrapFamily, MaxOcc <- 3
=============================================================================
