----------------------------- MODULE Rnd_Trace -----------------------------
(* Total trace specification for C39: call histories on a real Session.
   One event per BASIC-level operation:
     {op, s, v, arg}   op in fresh | rnd | rnd0 | rndneg | randomize | reset (RUN, CLEAR, NEW; v = RND(0) right after)
       s    generator state projected after the operation (Randomiser._seed)
       v    the 4 bytes of the single returned (rnd, rnd0, rndneg)
       arg  the bytes of the argument (rndneg: the single; randomize: int/single/double)
       how  (reset) "run" | "clear" | "new"
   State: the current seed, whether the last operation was an RND call (then
   RND(0) must repeat that very value) and the table of reseeding results
   seen so far.  A rejected event appends its clause and the state is
   re-synchronised from the observation.                                   *)
EXTENDS Rnd, TraceBase, TLC
VARIABLES seed, last, tab, l, viol
tvars == <<seed, last, tab, l, viol>>

HA == Header.A
HC == Header.C
Seed0 == Header.seed0
NoVal == <<>>

\* table of reseedings: <<kind, arg>> -> post  and  <<kind, arg, low byte of previous state>> -> post
Look(t, k) == IF k \in DOMAIN t THEN t[k] ELSE -1
Put(t, k, x) == IF k \in DOMAIN t THEN t ELSE (k :> x) @@ t

ReseedClause(e, lowkey, litkey) ==
    IF ~InRange(e.s) THEN "reseed_out_of_range"
    ELSE IF Look(tab, lowkey) \notin {-1, e.s} THEN "reseed_not_deterministic"
    ELSE IF Look(tab, litkey) \notin {-1, e.s} THEN
             (IF e.op = "randomize" THEN "randomize_depends_on_previous_state" ELSE "reseed_not_deterministic")
    ELSE "ok"

Step(e) ==
    LET k      == IF Has(e, "v") THEN Dec(e.v) ELSE -1
        low    == IF e.op = "randomize" THEN seed % 256 ELSE 0
        lowkey == <<e.op, e.arg, low>>
        litkey == <<e.op, e.arg>>
        c == CASE e.op = "fresh" -> IF e.s # Seed0 \/ k # Seed0 THEN "fresh_session_seed_differs" ELSE "ok"
               [] e.op = "reset" -> IF (Has(e, "s") /\ e.s # Seed0) \/ k # Seed0 THEN "not_restarted_after_run_or_clear" ELSE "ok"
               [] e.op = "rnd"   -> IF k = -1 THEN "value_not_seed_over_2^24"
                                    ELSE IF k # Next(seed) THEN "sequence_not_lcg"
                                    ELSE IF e.s # k THEN "projected_seed_differs_from_value" ELSE "ok"
               [] e.op = "rnd0"  -> IF k = -1 THEN "value_not_seed_over_2^24"
                                    ELSE IF k # seed THEN "rnd0_not_current_seed"
                                    ELSE IF last # NoVal /\ e.v # last THEN "rnd0_does_not_repeat_last_value"
                                    ELSE IF e.s # k THEN "projected_seed_differs_from_value" ELSE "ok"
               [] e.op = "rndneg" -> IF k = -1 THEN "value_not_seed_over_2^24"
                                     ELSE IF e.s # k THEN "projected_seed_differs_from_value"
                                     ELSE ReseedClause(e, lowkey, litkey)
               [] e.op = "randomize" -> ReseedClause(e, lowkey, litkey)
               [] OTHER -> "unknown_op"
        isre == e.op \in {"rndneg", "randomize"} /\ InRange(e.s)
    IN  /\ seed' = IF k # -1 THEN k ELSE IF Has(e, "s") THEN e.s % M24 ELSE Seed0
        /\ last' = IF e.op \in {"rnd", "rnd0", "rndneg"} THEN e.v ELSE NoVal
        /\ tab'  = IF isre THEN Put(Put(tab, lowkey, e.s), litkey, e.s) ELSE tab
        /\ viol' = IF c = "ok" THEN viol ELSE Append(viol, <<l, c>>)

TInit == seed = Seed0 /\ last = NoVal /\ tab = <<>> /\ l = 1 /\ viol = <<>>
TNext == l <= NEvents /\ l' = l + 1 /\ Step(Events[l])
TSpec == TInit /\ [][TNext]_tvars
TDone == (l = NEvents + 1) => WriteVerdict(l - 1, viol)
=============================================================================
