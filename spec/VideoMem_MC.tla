----------------------------- MODULE VideoMem_MC -----------------------------
(* Exhaustive check of the laws of the address map and of the encoding on tiny
   layouts of every kind (text; packed pixels with 1, 2 and 4 bits per pixel
   in 2 and 4 interleaved banks that end in padding and hold an uneven number
   of rows; planar; plane pairs), 2 pages, every address from below the
   segment to behind the last page, several byte values, every read plane and
   write mask:
     Inverse    a backing byte is the one Addr names for its own coordinates
     Cover      every cell / pixel (and sub-byte) of every page is covered by the
                byte Addr names, and that byte backs content
                (together: the map is a bijection between backing bytes and
                 <<page, row, column group, sub-byte>>)
     ReadBack   PEEK after POKE returns the byte written (on a plane that was
                written) and the POKE changed no other column of the row
     Identity   POKE of the value PEEK returns changes nothing               *)
EXTENDS VideoMem, TLC
VARIABLES L, rel, v, rp, wm
vars == <<L, rel, v, rp, wm>>
NP == 2

Tiny ==
    { [kind |-> "text", seg |-> 0, w |-> 3, h |-> 2, pageSize |-> 16, banks |-> 1, bankSize |-> 16, bpr |-> 6, bpp |-> 8, planes |-> 0],
      [kind |-> "cga", seg |-> 0, w |-> 8, h |-> 5, pageSize |-> 16, banks |-> 2, bankSize |-> 8, bpr |-> 2, bpp |-> 2, planes |-> 0],
      [kind |-> "cga", seg |-> 0, w |-> 16, h |-> 6, pageSize |-> 20, banks |-> 4, bankSize |-> 5, bpr |-> 2, bpp |-> 1, planes |-> 0],
      [kind |-> "cga", seg |-> 0, w |-> 4, h |-> 4, pageSize |-> 10, banks |-> 2, bankSize |-> 5, bpr |-> 2, bpp |-> 4, planes |-> 0],
      [kind |-> "ega", seg |-> 0, w |-> 16, h |-> 3, pageSize |-> 8, banks |-> 1, bankSize |-> 8, bpr |-> 2, bpp |-> 1, planes |-> 15],
      [kind |-> "tandy6", seg |-> 0, w |-> 16, h |-> 8, pageSize |-> 36, banks |-> 4, bankSize |-> 9, bpr |-> 4, bpp |-> 2, planes |-> 0] }

\* (read plane and write mask only matter for the planar layout)
Init == L \in Tiny /\ rel \in -2..76 /\ v \in {0, 27, 165, 255} /\ rp \in 0..3 /\ wm \in {1, 6, 15}
        /\ (L.kind = "ega" \/ (rp = 0 /\ wm = 15))
Next == UNCHANGED vars
Spec == Init /\ [][Next]_vars

\* some content
TestRow(y) == IF L.kind = "text" THEN [i \in 1..L.w |-> <<(65 + i + y) % 256, (7 * i + y) % 256>>]
              ELSE [i \in 1..L.w |-> (i * 7 + y * 3 + 5) % (IF L.kind = "cga" THEN Pow2(L.bpp) ELSE IF L.kind = "ega" THEN 16 ELSE 4)]
Subs == IF L.kind \in {"text", "tandy6"} THEN {0, 1} ELSE {0}
Mask == IF L.kind = "ega" THEN wm ELSE 0

Inverse == Backs(L, NP, rel) => LET c == Coords(L, rel) IN Addr(L, c.page, c.y, c.x, c.sub) = rel
\* (depends on the layout only: evaluated once per layout)
Cover == (rel = 0 /\ v = 0 /\ rp = 0 /\ wm = 15) => \A p \in 0..(NP - 1), y \in 0..(L.h - 1), x \in 0..(L.w - 1), s \in Subs :
            LET a == Addr(L, p, y, x, s)
                c == Coords(L, a)
            IN  Backs(L, NP, a) /\ c.page = p /\ c.y = y /\ c.x <= x /\ x < c.x + c.n /\ c.sub = s
NoBackingOutside == (rel < 0 \/ rel >= NP * L.pageSize) => ~Backs(L, NP, rel)
ReadBack == Backs(L, NP, rel) =>
    LET c   == Coords(L, rel)
        row == TestRow(c.y)
        nr  == PokeRow(L, c, row, v, Mask)
    IN  /\ Len(nr) = Len(row)
        /\ \A i \in 1..Len(row) : (i <= c.x \/ i > c.x + c.n) => nr[i] = row[i]
        /\ (L.kind # "ega" \/ Bit(wm, rp) = 1) => PeekVal(L, c, nr, rp) = v
        /\ (L.kind = "ega" /\ Bit(wm, rp) = 0) => PeekVal(L, c, nr, rp) = PeekVal(L, c, row, rp)
        /\ (L.kind = "tandy6") => PeekVal(L, [c EXCEPT !.sub = 1 - c.sub], nr, rp) = PeekVal(L, [c EXCEPT !.sub = 1 - c.sub], row, rp)
        /\ (L.kind = "text") => nr[c.x + 1][2 - c.sub] = row[c.x + 1][2 - c.sub]
Identity == Backs(L, NP, rel) =>
    LET c   == Coords(L, rel)
        row == TestRow(c.y)
    IN  PokeRow(L, c, row, PeekVal(L, c, row, rp), IF L.kind = "ega" THEN Pow2(rp) ELSE 0) = row
=============================================================================
