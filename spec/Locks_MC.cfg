SPECIFICATION Spec
CONSTANTS
  FileNums = {1, 2, 3}
  Names = {"X"}
  MaxRec = 3
  AsCoded = FALSE
VIEW View
INVARIANT NoOverlap
INVARIANT NoTwoWritersInv
PROPERTY UnlockExact
