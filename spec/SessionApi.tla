----------------------------- MODULE SessionApi -----------------------------
(* Python session API round trips (property C43): set_variable / get_variable /
   evaluate.  Every recorded round trip is one event judged by Verdict(e).

   Numbers never appear as floating point in the specification:
     * a Python float is its 8 IEEE-754 bytes (big-endian) and is decoded to
       <<neg, hi, lo, e2>> meaning (-1)^neg * (hi * 2^29 + lo) * 2^(e2 - 52)
       with hi the top 24 and lo the low 29 bits of the 53-bit significand -
       exactly the split that decides representability in a single;
     * printed numbers are byte strings parsed as <<neg, digits-as-integer, scale>>.
   Outcomes: k = "ok" | "basic" (a BASIC error, raised as BASICError or written
   to the console; code = its number) | "pyexc" (any other Python exception).   *)
EXTENDS Integers, Sequences, FiniteSets

Pow2(n) == 2 ^ n

(* ------------------------------ integers -------------------------------- *)
\* e.x is present when |x| < 2^30, otherwise e.big = TRUE (certainly out of range)
IntInRange(e) == ~e.big /\ e.x >= -32768 /\ e.x <= 32767
IntRT(e) ==
    IF IntInRange(e)
    THEN IF e.sk # "ok" THEN "integer_in_range_rejected"
         ELSE IF e.gk # "ok" \/ e.gbig \/ e.g # e.x THEN "integer_not_returned_exactly"
         ELSE "ok"
    ELSE IF e.sk = "basic" /\ e.scode = 6 THEN "ok"
         ELSE IF e.sk = "ok" THEN "integer_out_of_range_accepted"
         ELSE "integer_out_of_range_not_basic_overflow"

(* ------------------------------- floats --------------------------------- *)
\* IEEE-754 double, bytes b[1..8] big-endian
Biased(b) == (b[1] % 128) * 16 + b[2] \div 16
IsZero(b) == Biased(b) = 0 /\ b[2] % 16 = 0 /\ \A i \in 3..8 : b[i] = 0
IsFinite(b) == Biased(b) # 2047
IsNormal(b) == Biased(b) # 0 /\ Biased(b) # 2047
Neg(b) == b[1] >= 128
Hi24(b) == Pow2(23) + (b[2] % 16) * Pow2(19) + b[3] * Pow2(11) + b[4] * 8 + b[5] \div 32
Lo29(b) == (b[5] % 32) * Pow2(24) + b[6] * Pow2(16) + b[7] * 256 + b[8]
E2(b) == Biased(b) - 1023                       \* value = 1.f * 2^E2

\* MBF range (both types): 2^-128 <= |v| < 2^127
InMbfRange(b) == IsNormal(b) /\ E2(b) >= -128 /\ E2(b) <= 126

(* single: the result must lie on the 24-bit grid, less than one unit in the last place away from x
   (either neighbour - the statement fixes the precision, not the rounding direction), and equal x when
   x is on the grid.  r is again an IEEE double (what get_variable returns).                            *)
\* generic form (HB = number of significand bits kept): x = (xh * 2^LB + xl) * 2^xe, r likewise
NearOK(HB, xh, xl, xe, rh, rl, re) ==
    /\ rl = 0
    /\ \/ (re = xe /\ rh = xh)                                                  \* truncated (or exact)
       \/ (xl # 0 /\ re = xe /\ rh = xh + 1)                                     \* next value up
       \/ (xl # 0 /\ xh = Pow2(HB) - 1 /\ re = xe + 1 /\ rh = Pow2(HB - 1))       \* ... with carry
SingleOK(x, r) ==
    /\ IsNormal(r) /\ Neg(r) = Neg(x)
    /\ NearOK(24, Hi24(x), Lo29(x), E2(x), Hi24(r), Lo29(r), E2(r))
\* may the conversion of x to single leave the range by rounding up?
SingleCarriesOut(x) == E2(x) = 126 /\ Hi24(x) = Pow2(24) - 1 /\ Lo29(x) # 0
\* double: 56-bit significand, every in-range IEEE double is representable: exact
DoubleOK(x, r) == r = x

FloatRT(e) ==
    LET x == e.x
        r == e.g
    IN  IF e.sk = "pyexc" /\ IsFinite(x) THEN "float_set_python_exception"
        ELSE IF ~IsFinite(x) THEN "ok"                                     \* inf / nan: outside the statement
        ELSE IF IsZero(x) THEN (IF e.sk = "ok" /\ e.gk = "ok" /\ IsZero(r) THEN "ok" ELSE "zero_not_returned")
        ELSE IF ~InMbfRange(x) \/ (e.t = "!" /\ SingleCarriesOut(x)) THEN "ok"       \* over/underflow: statement silent
        ELSE IF e.sk # "ok" THEN "float_in_range_rejected"
        ELSE IF e.gk # "ok" THEN "float_get_failed"
        ELSE IF e.t = "!" THEN (IF SingleOK(x, r) THEN "ok" ELSE "single_not_within_one_ulp")
        ELSE (IF DoubleOK(x, r) THEN "ok" ELSE "double_not_returned_exactly")

(* ------------------------------- strings -------------------------------- *)
\* header.cp: 256 code points, cp[b + 1] = the unicode character of byte b in the session's codepage
StrBytesRT(e) ==
    IF Len(e.x) > 255 THEN (IF e.sk = "pyexc" THEN "long_string_python_exception" ELSE "ok")
    ELSE IF e.sk # "ok" \/ e.gk # "ok" THEN "byte_string_rejected"
    ELSE IF e.g # e.x THEN "byte_string_not_returned_exactly" ELSE "ok"
\* get_variable returns the bytes (documented); reading back with as_type=unicode must give the same characters,
\* except that control bytes (below 32, 127) may come back as the control character instead of the glyph
StrUniRT(cp, e) ==
    LET n == Len(e.x)
    IN  IF \E i \in 1..n : \A b \in 1..256 : cp[b] # e.x[i] THEN "ok"        \* not a string of codepage characters
        ELSE IF n > 255 THEN "ok"
        ELSE IF e.sk # "ok" \/ e.gk # "ok" THEN "codepage_string_rejected"
        ELSE IF Len(e.gb) # n \/ \E i \in 1..n : cp[e.gb[i] + 1] # e.x[i] THEN "stored_bytes_are_not_the_codepage_encoding"
        ELSE IF Len(e.gu) # n \/ \E i \in 1..n : e.gu[i] # e.x[i] /\ ~((e.gb[i] < 32 \/ e.gb[i] = 127) /\ e.gu[i] = e.gb[i])
             THEN "codepage_string_not_returned_exactly"
        ELSE "ok"

(* -------------------------------- bool ---------------------------------- *)
BoolRT(e) == IF e.sk # "ok" \/ e.gk # "ok" THEN "bool_rejected"
             ELSE IF e.gb # e.x THEN "bool_not_returned"
             ELSE IF e.g # (IF e.x THEN -1 ELSE 0) THEN "bool_not_stored_as_basic_truth_value"
             ELSE "ok"

(* --------------------- evaluate versus PRINT ---------------------------- *)
Dg(c) == c >= 48 /\ c <= 57
Strip(s, c) ==   \* remove leading and trailing bytes equal to c
    LET I == {i \in 1..Len(s) : s[i] # c}
    IN  IF I = {} THEN <<>>
        ELSE SubSeq(s, CHOOSE i \in I : \A j \in I : i <= j, CHOOSE i \in I : \A j \in I : i >= j)
RECURSIVE DigitsVal(_)
DigitsVal(s) == IF s = <<>> THEN 0 ELSE DigitsVal(SubSeq(s, 1, Len(s) - 1)) * 10 + (s[Len(s)] - 48)
\* printed number: [-]digits[.digits] (PRINT puts a blank or "-" in front and a blank behind)
\* -> <<ok, neg, N, d>> meaning (-1)^neg * N / 10^d ; at most 9 digits
Printed(p) ==
    LET t    == Strip(p, 32)
        neg  == t # <<>> /\ t[1] = 45
        u    == IF neg THEN Tail(t) ELSE t
        dots == {i \in 1..Len(u) : u[i] = 46}
        dig  == [i \in 1..(Len(u) - Cardinality(dots)) |->
                    IF dots = {} \/ i < (CHOOSE k \in dots : TRUE) THEN u[i] ELSE u[i + 1]]
        ok   == /\ u # <<>> /\ Cardinality(dots) <= 1 /\ Len(dig) >= 1 /\ Len(dig) <= 9
                /\ \A i \in 1..Len(u) : Dg(u[i]) \/ u[i] = 46
    IN  IF ok THEN <<TRUE, neg, DigitsVal(dig), IF dots = {} THEN 0 ELSE Len(u) - (CHOOSE k \in dots : TRUE)>>
        ELSE <<FALSE, FALSE, 0, 0>>
Pow10(n) == 10 ^ n
\* an IEEE double that is a small dyadic: |v| = m / 2^j with 0 <= j <= 4  ->  <<ok, m, j>>
\* (|v| = hi * 2^29 * 2^(e2-52) = hi / 2^(23-e2); needs lo = 0 and hi divisible by 2^(23-e2-j))
SmallDyadic(b) ==
    IF IsZero(b) THEN <<TRUE, 0, 0>>
    ELSE IF ~IsNormal(b) \/ Lo29(b) # 0 \/ E2(b) > 23 \/ E2(b) < -4 THEN <<FALSE, 0, 0>>
    ELSE LET sh == 23 - E2(b)                       \* |v| = hi / 2^sh, 0 <= sh <= 27
             J  == {j \in 0..4 : j <= sh /\ Hi24(b) % Pow2(sh - j) = 0}
             j  == CHOOSE k \in J : \A k2 \in J : k <= k2
         IN  IF J = {} THEN <<FALSE, 0, 0>> ELSE <<TRUE, Hi24(b) \div Pow2(sh - j), j>>
\* m / 2^j has an exact decimal expansion of at most 7 significant digits (so PRINT shows it exactly,
\* in fixed notation, whether the value is single or double)
ShortDecimal(m, j) == m <= 9999999 \div (5 ^ j)
\* m / 2^j = N / 10^d  (j <= 4, d <= 6; no product exceeds 2^31)
EqRat(m, j, N, d) ==
    LET f == 5 ^ d
    IN  /\ N % f = 0
        /\ IF d >= j THEN m * Pow2(d - j) = N \div f
           ELSE m % Pow2(j - d) = 0 /\ m \div Pow2(j - d) = N \div f
Printable(v) == Len(v) <= 60 /\ \A i \in 1..Len(v) : v[i] >= 32 /\ v[i] <= 126
\* evaluate(expr) returned value v ; PRINT expr wrote p
EvalRT(e) ==
    IF e.vk # "ok" \/ e.pk # "ok" THEN
        (IF e.vk = "pyexc" \/ e.pk = "pyexc" THEN "evaluate_python_exception"
         ELSE IF (e.vk = "ok") # (e.pk = "ok") THEN "evaluate_and_print_disagree_on_error" ELSE "ok")
    ELSE IF e.kind = "str" THEN
        (IF ~Printable(e.v) \/ e.p = e.v \o <<13, 10>> THEN "ok" ELSE "evaluate_string_differs_from_print")
    ELSE LET pr == Printed(SubSeq(e.p, 1, Len(e.p) - 2))
             dy == SmallDyadic(e.v)
             judged == e.kind = "int" \/ (dy[1] /\ ShortDecimal(dy[2], dy[3]))
         IN  IF ~judged THEN "ok"             \* PRINT would round the value or use exponent notation: not judged
             ELSE IF Len(e.p) < 2 \/ SubSeq(e.p, Len(e.p) - 1, Len(e.p)) # <<13, 10>> \/ ~pr[1] THEN "printed_number_malformed"
             ELSE IF e.kind = "int" THEN
                 (IF pr[4] = 0 /\ e.v = (IF pr[2] THEN -pr[3] ELSE pr[3]) THEN "ok" ELSE "evaluate_integer_differs_from_print")
             ELSE IF pr[4] > 6 THEN "evaluate_float_differs_from_print"
             ELSE IF (dy[2] = 0) # (pr[3] = 0) THEN "evaluate_float_differs_from_print"
             ELSE IF dy[2] # 0 /\ (Neg(e.v) # pr[2]) THEN "evaluate_float_sign_differs_from_print"
             ELSE IF EqRat(dy[2], dy[3], pr[3], pr[4]) THEN "ok" ELSE "evaluate_float_differs_from_print"

(* ------------------------------- arrays --------------------------------- *)
\* leaves: integers, 8-byte floats or byte strings according to e.t ; compared by the scalar rules
LeafOK(t, x, r) ==
    CASE t = "%" -> r = x
      [] t = "!" -> IF IsZero(x) THEN IsZero(r) ELSE SingleOK(x, r)
      [] t = "#" -> IF IsZero(x) THEN IsZero(r) ELSE r = x
      [] t = "$" -> r = x
ArrayRT(e) ==
    IF e.sk = "pyexc" THEN "array_set_python_exception"
    ELSE IF e.sk # "ok" THEN "array_set_rejected"
    ELSE IF e.gk # "ok" THEN "array_get_failed"
    ELSE IF ~e.rect \/ e.shape_out # e.shape_in THEN "array_read_back_with_another_shape"
    ELSE IF \E i \in 1..Len(e.leaves_in) : ~LeafOK(e.t, e.leaves_in[i], e.leaves_out[i]) THEN "array_element_differs"
    ELSE "ok"

Verdict0(cp, e) ==
    CASE e.op = "int"   -> IntRT(e)
      [] e.op = "float" -> FloatRT(e)
      [] e.op = "bytes" -> StrBytesRT(e)
      [] e.op = "ustr"  -> StrUniRT(cp, e)
      [] e.op = "bool"  -> BoolRT(e)
      [] e.op = "eval"  -> EvalRT(e)
      [] e.op = "array" -> ArrayRT(e)
      [] OTHER -> "unknown_event"
=============================================================================
