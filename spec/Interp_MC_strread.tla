------------------------------ MODULE Interp_MC_strread ------------------------------
EXTENDS Interp_MCF
VARIABLES s, hist
INSTANCE Interp_MCrun WITH Family <- StrReadFamily
=============================================================================
