----------------------------- MODULE KeyRing_MC -----------------------------
(* Bounded design check of KeyRing.tla + transition emitter for behaviour replay.
   Serial = FALSE: any key of Keys at every press (order/duplication among few keys).
   Serial = TRUE : the n-th press types the n-th key of KeyOrder (all keystrokes of a behaviour distinct, so any
                   loss, duplication or reordering shows), which keeps the real 16-slot ring tractable.
   History variables (hidden by VIEW): steps; acc/del = keystrokes accepted/delivered since the last pointer POKE. *)
EXTENDS KeyRing, TLC, Json
CONSTANTS MaxSteps, MaxPress, MaxPokes, MaxRead, Serial,
          PokeOps,   \* which pointer POKEs are offered, subset of {"pokehead", "poketail"}
          PokeD      \* pointer POKEs offered: head := tail + d, tail := head + d (mod RingLen) for d in PokeD (0 = the clearing POKE)
VARIABLES st, act, np, npk, steps, acc, del
vars == <<st, act, np, npk, steps, acc, del>>

Letter(c, s) == <<<<c>>, s>>
\* a..z with their XT scancodes
KeyOrder == << Letter(97, 30), Letter(98, 48), Letter(99, 46), Letter(100, 32), Letter(101, 18), Letter(102, 33),
               Letter(103, 34), Letter(104, 35), Letter(105, 23), Letter(106, 36), Letter(107, 37), Letter(108, 38),
               Letter(109, 50), Letter(110, 49), Letter(111, 24), Letter(112, 25), Letter(113, 16), Letter(114, 19),
               Letter(115, 31), Letter(116, 20), Letter(117, 22), Letter(118, 47), Letter(119, 17), Letter(120, 45),
               Letter(121, 21), Letter(122, 44) >>
Keys3  == {KeyOrder[1], KeyOrder[2], KeyOrder[3]}
Keys26 == {KeyOrder[i] : i \in 1..26}

Init == st = InitSt /\ act = [op |-> "init"] /\ np = 0 /\ npk = 0 /\ steps = 0 /\ acc = <<>> /\ del = <<>>

Allowed(a) ==
    /\ a.op = "press" => (np < MaxPress /\ (Serial => a.k = KeyOrder[np + 1]))
    /\ IsPoke(a) => npk < MaxPokes
    /\ IsPoke(a) => a.op \in PokeOps
    /\ a.op = "pokehead" => \E d \in PokeD : a.v = (st.tail + d) % RingLen
    /\ a.op = "poketail" => \E d \in PokeD : a.v = (st.head + d) % RingLen
    /\ a.op = "readn" => a.n <= MaxRead
Do(a) ==
    LET r == Apply(st, a)
    IN  /\ steps < MaxSteps
        /\ Allowed(a)
        /\ act' = a
        /\ st' = r.st
        /\ steps' = steps + 1
        /\ np' = IF a.op = "press" /\ Serial THEN np + 1 ELSE np
        /\ npk' = IF IsPoke(a) /\ MaxPokes < MaxSteps THEN npk + 1 ELSE npk   \* only counted when the bound can bind
        /\ acc' = IF IsPoke(a) THEN r.st.q ELSE IF a.op = "press" /\ r.res = "stored" THEN Append(acc, a.k) ELSE acc
        /\ del' = IF IsPoke(a) THEN <<>>
                  ELSE IF a.op = "inkey" /\ st.q # <<>> THEN Append(del, Head(st.q))
                  ELSE IF a.op = "readn" THEN del \o SubSeq(st.q, 1, a.n) ELSE del
MCActions == IF Serial THEN (IF np < MaxPress THEN {[op |-> "press", k |-> KeyOrder[np + 1]]} ELSE {}) \cup OtherActions(st)
             ELSE Actions(st)
Next == \E a \in MCActions : Do(a)
Spec == Init /\ [][Next]_vars

View == <<st, np, npk>>

\* ---- the property on the model
TypeInv     == TypeOK(st)
RingViewInv == RingView(st)                       \* BIOS view = waiting keys, in every reachable state
FifoInv     == acc = del \o st.q                  \* delivered in typing order, none lost or repeated
\* what the ring alone delivers is what the FIFO delivers; a full ring drops the key; the clearing POKEs empty
InkeyAgrees == [][act'.op = "inkey" => RingInkey(Ring(st)) = Apply(st, act').res]_vars
DropWhenFull == [][(act'.op = "press" /\ Len(st.q) = Cap) => (st'.q = st.q /\ st'.head = st.head /\ st'.tail = st.tail)]_vars
StoreBelowCap == [][(act'.op = "press" /\ Len(st.q) < Cap) => st'.q = Append(st.q, act'.k)]_vars
ClearEmpties == [][IsPoke(act') => Empties(st, act')]_vars
ClearPoke == [][(act'.op = "pokehead" /\ act'.v = st.tail) => (st'.q = <<>> /\ RingInkey(Ring(st')) = <<>>)]_vars

\* ---- emitter: every transition once (each view-state is expanded exactly once)
\* compact state key: head, tail, press/poke counters, first byte of every slot (the scancode is a function of it here)
Key(s, p, k) == <<s.head, s.tail, p, k, [i \in 1..RingLen |-> s.slots[i - 1][1][1]]>>
QView(s) == [i \in 1..Len(s.q) |-> s.q[i][1][1]]
Emit == PrintT(<<"TRANSITION", ToJson([from |-> Key(st, np, npk), a |-> act', res |-> Apply(st, act').res,
                                       to |-> Key(st', np', npk'), toq |-> QView(st')])>>)
=============================================================================
