SPECIFICATION TSpec
CONSTANTS
  RingLen = 16
  Keys <- TraceKeys
INVARIANT TDone
CHECK_DEADLOCK FALSE
