------------------------------ MODULE Interp_MC_fn ------------------------------
EXTENDS Interp_MCF
VARIABLES s, hist
INSTANCE Interp_MCrun WITH Family <- FnFamily
=============================================================================
