SPECIFICATION Spec
CONSTANTS
  MaxDepth = 2
  FullArgs = TRUE
VIEW View
INVARIANT TypeInv
ACTION_CONSTRAINT Emit
CHECK_DEADLOCK FALSE
