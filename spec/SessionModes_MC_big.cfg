SPECIFICATION Spec
CONSTANTS
  MaxDepth = 2
  FullArgs = TRUE
VIEW View
CONSTRAINT Bound
INVARIANT TypeInv
ACTION_CONSTRAINT Emit
CHECK_DEADLOCK FALSE
