SPECIFICATION Spec
CONSTANTS
  A = 1
  C = 1
  Lb = 8
INVARIANT LimbsExact
INVARIANT HDiffPeriod
CHECK_DEADLOCK FALSE
