SPECIFICATION TSpec
CONSTANTS
  FileNums = {1, 2}
  Names = {"A", "B", "C"}
  AsCoded = FALSE
INVARIANT TDone
CHECK_DEADLOCK FALSE
