------------------------------ MODULE Interp_MC_reset ------------------------------
EXTENDS Interp_MCF
VARIABLES s, hist
INSTANCE Interp_MCrun WITH Family <- ResetFamily
=============================================================================
