SPECIFICATION Spec
CONSTANTS
  FileNums = {1}
  Names = {"A"}
  MaxLen = 3
  AsCoded = TRUE
  Strings <- StringsDef
  Numbers <- NumbersDef
  PLines <- PLinesDef
  MaxItems = 3
  MaxOps = 7
VIEW View
INVARIANT ReadsInOrder
INVARIANT EofExact
INVARIANT LofIsBytes
INVARIANT FormatRoundTrips
PROPERTY AppendExtends
CHECK_DEADLOCK FALSE
