SPECIFICATION Spec
CONSTANT MaxLen = 14
INVARIANT RunAgrees
ACTION_CONSTRAINT Emit
CHECK_DEADLOCK FALSE
