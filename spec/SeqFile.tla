------------------------------ MODULE SeqFile ------------------------------
(* Sequential files (property C24), functional-core style.

   REFERENCE LAYER (the oracle).  A file is the sequence of lines that were written to it:
     [k |-> "w", items |-> <<item, ..>>]    one WRITE # statement; an item is a string [k |-> "s", b |-> bytes] or a
                                            number [k |-> "n", r |-> bytes of its written representation]
     [k |-> "p", s |-> bytes]               one PRINT #n, s$ statement (a line)
   A file number open FOR INPUT has a read position (line, items of that line already consumed).  INPUT # pops items,
   LINE INPUT # pops a line, EOF is true exactly when nothing is left, LOF is the number of bytes of the written text,
   OUTPUT starts from nothing and APPEND from the existing lines.  The trace specification SeqFile_Trace judges the real
   interpreter with this layer only.

   BYTE LAYER (implementation-shaped, never judges the code).  FileBytes is the text of the file in the format of the
   GW-BASIC manual (items separated by commas, strings in quotes, CR LF after each statement) and ReadStr / ReadNum /
   ReadLine are the manual's INPUT # / LINE INPUT # scanning rules on those bytes.  SeqFile_MC checks exhaustively on a
   small alphabet that the byte reader recovers exactly the reference items and reaches end-of-file exactly after the
   last one - and that it does NOT when it stops after MaxLen characters without consuming the terminator, as the
   pinned code does (AsCoded).                                                                                        *)
EXTENDS Integers, Sequences, FiniteSets

CONSTANTS FileNums,     \* file numbers
          Names,        \* files on the disk
          MaxLen,       \* longest string / line (255)
          AsCoded       \* byte reader stops at MaxLen characters like devicebase.input_entry / TextFile.read_line

CR == 13  LF == 10  QUOTE == 34  COMMA == 44  EOFCHAR == 26  SP == 32

(* ---- legal alphabet, from the statement: strings without quotes, NUL or end-of-file bytes; lengths 0..255 ---- *)
LegalString(b) == Len(b) <= MaxLen /\ \A i \in 1..Len(b) : b[i] \notin {QUOTE, 0, EOFCHAR}
\* a line is a string without line terminators (and without the end-of-file byte)
LegalLine(s)   == Len(s) <= MaxLen /\ \A i \in 1..Len(s) : s[i] \notin {CR, LF, EOFCHAR}
LegalItem(it)  == IF it.k = "s" THEN LegalString(it.b) ELSE Len(it.r) > 0

(* ---- the written text --------------------------------------------------------------------------------------- *)
ItemBytes(it) == IF it.k = "s" THEN <<QUOTE>> \o it.b \o <<QUOTE>> ELSE it.r
RECURSIVE JoinItems(_)
JoinItems(items) == IF Len(items) = 0 THEN <<>>
                    ELSE IF Len(items) = 1 THEN ItemBytes(items[1])
                    ELSE ItemBytes(items[1]) \o <<COMMA>> \o JoinItems(Tail(items))
LineText(ln)  == IF ln.k = "w" THEN JoinItems(ln.items) ELSE ln.s
LineBytes(ln) == LineText(ln) \o <<CR, LF>>
RECURSIVE FileBytes(_)
FileBytes(lines) == IF Len(lines) = 0 THEN <<>> ELSE LineBytes(lines[1]) \o FileBytes(Tail(lines))
RECURSIVE ItemsLen(_)
ItemsLen(items) == IF Len(items) = 0 THEN 0
                   ELSE (IF items[1].k = "s" THEN Len(items[1].b) + 2 ELSE Len(items[1].r))
                        + (IF Len(items) > 1 THEN 1 ELSE 0) + ItemsLen(Tail(items))
LineLen(ln) == (IF ln.k = "w" THEN ItemsLen(ln.items) ELSE Len(ln.s)) + 2

(* ---- state ---------------------------------------------------------------------------------------------------- *)
\* disk[x]: lines written; len = bytes of the written text; extra = bytes on the host beyond the text (end-of-file mark)
EmptyFile == [lines |-> <<>>, len |-> 0, extra |-> 0, known |-> TRUE]
Closed == [open |-> FALSE]
InitSt == [disk |-> [x \in Names |-> EmptyFile], fil |-> [n \in FileNums |-> Closed]]

IsOpen(st, n) == st.fil[n].open
NameOpen(st, x) == \E n \in FileNums : IsOpen(st, n) /\ st.fil[n].name = x
Lines(st, n) == st.disk[st.fil[n].name].lines

\* read position: li = line, ii = items of that line already consumed
AtEof(lines, li) == li > Len(lines)
\* position after consuming one item at (li, ii)
NextPos(lines, li, ii) == IF ii + 1 < Len(lines[li].items) THEN <<li, ii + 1>> ELSE <<li + 1, 0>>
\* k items can be popped at (li, ii) and they are all items of WRITE lines
RECURSIVE CanPop(_, _, _, _)
CanPop(lines, li, ii, k) ==
    IF k = 0 THEN TRUE
    ELSE /\ li <= Len(lines) /\ lines[li].k = "w" /\ ii < Len(lines[li].items)
         /\ LET np == NextPos(lines, li, ii) IN CanPop(lines, np[1], np[2], k - 1)
\* the k items at (li, ii), in order
RECURSIVE Pop(_, _, _, _)
Pop(lines, li, ii, k) ==
    IF k = 0 THEN <<>>
    ELSE LET np == NextPos(lines, li, ii) IN <<lines[li].items[ii + 1]>> \o Pop(lines, np[1], np[2], k - 1)
RECURSIVE PosAfter(_, _, _, _)
PosAfter(lines, li, ii, k) ==
    IF k = 0 THEN <<li, ii>> ELSE LET np == NextPos(lines, li, ii) IN PosAfter(lines, np[1], np[2], k - 1)
\* the item consumed just before (li, ii): <<TRUE, item-or-line>> / <<FALSE, ..>> at the start of the file
Previous(lines, li, ii) ==
    IF ii > 0 THEN <<TRUE, lines[li].items[ii]>>
    ELSE IF li = 1 \/ li - 1 > Len(lines) THEN <<FALSE, [k |-> "none"]>>
    ELSE LET pl == lines[li - 1]
         IN  IF pl.k = "p" THEN <<TRUE, [k |-> "l", b |-> pl.s]>>
             ELSE IF Len(pl.items) = 0 THEN <<FALSE, [k |-> "none"]>> ELSE <<TRUE, pl.items[Len(pl.items)]>>

\* action records: [op, n] + open: name, mode; write: items; print: s; input: k (number of variables); lineinput
\* is the operation inside the fragment the statement speaks about?
InFragment(st, a) ==
    CASE a.op = "open"      -> ~IsOpen(st, a.n) /\ ~NameOpen(st, a.name)
      [] a.op = "close"     -> IsOpen(st, a.n)
      [] a.op = "write"     -> IsOpen(st, a.n) /\ st.fil[a.n].mode \in {"O", "A"} /\ Len(a.items) > 0
                               /\ \A i \in 1..Len(a.items) : LegalItem(a.items[i])
      [] a.op = "print"     -> IsOpen(st, a.n) /\ st.fil[a.n].mode \in {"O", "A"} /\ LegalLine(a.s)
      [] a.op = "input"     -> IsOpen(st, a.n) /\ st.fil[a.n].mode = "I" /\ ~st.fil[a.n].bad
                               /\ CanPop(Lines(st, a.n), st.fil[a.n].li, st.fil[a.n].ii, a.k)
      [] a.op = "lineinput" -> IsOpen(st, a.n) /\ st.fil[a.n].mode = "I" /\ ~st.fil[a.n].bad /\ st.fil[a.n].ii = 0
                               /\ st.fil[a.n].li <= Len(Lines(st, a.n)) /\ Lines(st, a.n)[st.fil[a.n].li].k = "p"
      [] OTHER -> FALSE
Must(st, a) == IF InFragment(st, a) /\ a.op \in {"write", "print", "input", "lineinput"} THEN "ok" ELSE "any"

\* what a read returns: the items / the line
InputResult(st, a) == Pop(Lines(st, a.n), st.fil[a.n].li, st.fil[a.n].ii, a.k)
LineResult(st, a)  == Lines(st, a.n)[st.fil[a.n].li].s

\* effect of an operation of the fragment that succeeded
Effect(st, a) ==
    CASE a.op = "open" ->
           [st EXCEPT !.fil[a.n] = [open |-> TRUE, name |-> a.name, mode |-> a.mode, li |-> 1, ii |-> 0,
                                    bad |-> ~st.disk[a.name].known],
                      !.disk[a.name] = IF a.mode = "O" THEN EmptyFile ELSE @]
      [] a.op = "close" -> [st EXCEPT !.fil[a.n] = Closed]
      [] a.op = "write" ->
           LET x == st.fil[a.n].name  ln == [k |-> "w", items |-> a.items]
           IN  [st EXCEPT !.disk[x].lines = Append(@, ln), !.disk[x].len = @ + LineLen(ln)]
      [] a.op = "print" ->
           LET x == st.fil[a.n].name  ln == [k |-> "p", s |-> a.s]
           IN  [st EXCEPT !.disk[x].lines = Append(@, ln), !.disk[x].len = @ + LineLen(ln)]
      [] a.op = "input" ->
           LET np == PosAfter(Lines(st, a.n), st.fil[a.n].li, st.fil[a.n].ii, a.k)
           IN  [st EXCEPT !.fil[a.n].li = np[1], !.fil[a.n].ii = np[2]]
      [] a.op = "lineinput" -> [st EXCEPT !.fil[a.n].li = @ + 1]
      [] OTHER -> st

\* observables of an open file
Eof(st, n) == AtEof(Lines(st, n), st.fil[n].li)
\* (extra: bytes of the host file beyond the written text, i.e. an end-of-file mark; re-synchronised from the host file)
Lof(st, n) == LET d == st.disk[st.fil[n].name] IN d.len + d.extra

(* ---- BYTE LAYER: the scanning rules of INPUT # and LINE INPUT # (GW-BASIC manual, INPUT# statement) ------------- *)
RECURSIVE SkipSet(_, _, _)
SkipSet(b, p, S) == IF p <= Len(b) /\ b[p] \in S THEN SkipSet(b, p + 1, S) ELSE p
RECURSIVE FindSet(_, _, _)
FindSet(b, p, S) == IF p > Len(b) \/ b[p] \in S THEN p ELSE FindSet(b, p + 1, S)
\* position after the separator at p (a comma, or CR with an optional LF); p itself if there is none
AfterSep(b, p) == IF p > Len(b) THEN p
                  ELSE IF b[p] = COMMA THEN p + 1
                  ELSE IF b[p] = CR THEN (IF p + 1 <= Len(b) /\ b[p + 1] = LF THEN p + 2 ELSE p + 1)
                  ELSE p
BytesAtEnd(b, p) == p > Len(b) \/ b[p] = EOFCHAR
RECURSIVE RTrim(_)
RTrim(s) == IF Len(s) > 0 /\ s[Len(s)] = SP THEN RTrim(SubSeq(s, 1, Len(s) - 1)) ELSE s

\* each reader returns [word, next]
ReadStr(b, p) ==
    LET p0 == SkipSet(b, p, {SP, LF, 0})
    IN  IF p0 <= Len(b) /\ b[p0] = QUOTE
        THEN LET q == FindSet(b, p0 + 1, {QUOTE})
             IN  IF AsCoded /\ q - (p0 + 1) >= MaxLen
                 THEN [word |-> SubSeq(b, p0 + 1, p0 + MaxLen), next |-> p0 + MaxLen + 1]  \* closing quote left unread
                 ELSE [word |-> SubSeq(b, p0 + 1, q - 1), next |-> AfterSep(b, SkipSet(b, q + 1, {SP}))]
        ELSE LET e == FindSet(b, p0, {COMMA, CR})
             IN  [word |-> RTrim(SubSeq(b, p0, e - 1)), next |-> AfterSep(b, e)]
ReadNum(b, p) ==
    LET p0 == SkipSet(b, p, {SP, LF, 0})
        e  == FindSet(b, p0, {COMMA, CR, SP})
    IN  [word |-> SubSeq(b, p0, e - 1), next |-> AfterSep(b, SkipSet(b, e, {SP}))]
ReadLine(b, p) ==
    LET e == FindSet(b, p, {CR, EOFCHAR})
    IN  IF AsCoded /\ e - p >= MaxLen
        THEN [word |-> SubSeq(b, p, p + MaxLen - 1), next |-> p + MaxLen]                  \* CR left unread
        ELSE [word |-> SubSeq(b, p, e - 1), next |-> AfterSep(b, e)]

\* read a whole file with the byte reader, line kinds and item kinds as in `lines`; result: <<ok, position>>:
\* ok = every item came back as written and end-of-file was not signalled before the last item
RECURSIVE ScanItems(_, _, _)
ScanItems(b, p, items) ==
    IF Len(items) = 0 THEN <<TRUE, p>>
    ELSE IF BytesAtEnd(b, p) THEN <<FALSE, p>>
    ELSE LET it == items[1]
             r  == IF it.k = "s" THEN ReadStr(b, p) ELSE ReadNum(b, p)
         IN  IF r.word # (IF it.k = "s" THEN it.b ELSE it.r) THEN <<FALSE, p>> ELSE ScanItems(b, r.next, Tail(items))
RECURSIVE ScanLines(_, _, _)
ScanLines(b, p, lines) ==
    IF Len(lines) = 0 THEN <<TRUE, p>>
    ELSE IF BytesAtEnd(b, p) THEN <<FALSE, p>>
    ELSE LET ln == lines[1]
         IN  IF ln.k = "w"
             THEN LET r == ScanItems(b, p, ln.items) IN IF r[1] THEN ScanLines(b, r[2], Tail(lines)) ELSE r
             ELSE LET r == ReadLine(b, p) IN IF r.word # ln.s THEN <<FALSE, p>> ELSE ScanLines(b, r.next, Tail(lines))
\* the text of a file, read back by the scanning rules, yields its items in order and then (exactly then) end of file
ByteReaderAgrees(lines) ==
    LET b == FileBytes(lines) \o <<EOFCHAR>>
        r == ScanLines(b, 1, lines)
    IN  r[1] /\ BytesAtEnd(b, r[2])
=============================================================================
