---------------------------- MODULE Interp_Trace ----------------------------
(* Total trace specification for statement-level traces of the real interpreter
   (C19, C21, C22, C38, C40).  Header: progs.  Events, in order:
     {a:"run",  pi}                          RUN of program pi (state := Start(pi))
     {a:"b", line, vars, out, occ}           one statement boundary (hook H1): what is visible there
                                             (line of the next statement, variable values, numbers printed by
                                             the statement just executed) and the trap ids injected right after
     {a:"sr"}                                suspend + resume happened at this boundary (C40)
     {a:"end", k, code, line, vars, out}     how the run finished
     {a:"direct", stmts}                     a direct line executed after the run (its boundaries carry line 65535)
   One event = one TLC step.  A boundary event must equal the observation of the specification state; then
   the specification executes one statement (after applying the injected occurrences and dispatching traps in
   some order).  After the first rejected event of a run the rest of that run is skipped (the stacks cannot
   be re-synchronised from an observation); the next run is checked again.                                  *)
EXTENDS TraceBase, Integers, FiniteSets
I == INSTANCE Interp

VARIABLES ss,      \* set of candidate specification states (more than one only while trap dispatch order is open)
          dead,    \* TRUE: current run already rejected, skip to the next "run"
          l, viol
tvars == <<ss, dead, l, viol>>

RECURSIVE OccurAll(_, _)
OccurAll(s, occ) == IF occ = <<>> THEN s ELSE OccurAll(I!Occur(s, Head(occ)), Tail(occ))

VarsMatch(s, e) == \A i \in 1..Len(s.vars) : I!Prog(s).vars[i] \in s.havoc \/ s.vars[i] = e.vars[i]
\* take the observed value for variables whose value the specification leaves open
Adopt(s, e) == [s EXCEPT !.vars = [i \in 1..Len(s.vars) |-> IF I!Prog(s).vars[i] \in s.havoc THEN e.vars[i] ELSE s.vars[i]],
                         !.havoc = {}]

BoundaryClause(s, e) ==
    IF ~s.run THEN "program_continues_after_it_should_have_stopped"
    ELSE IF I!LineNo(s, s.pc) # e.line THEN "position"
    ELSE IF s.out # e.out THEN "output"
    ELSE IF ~VarsMatch(s, e) THEN "variables"
    ELSE "ok"
EndClause(s, e) ==
    IF e.k = "cut" THEN "ok"                      \* run cut by the harness's statement budget: nothing to compare
    ELSE IF s.stat.k = "fragment" THEN "outside_fragment"
    ELSE IF s.run THEN "program_stopped_early"
    ELSE IF s.stat.k # e.k THEN "final_status"
    ELSE IF s.stat.k = "error" /\ s.stat.code # e.code THEN "error_code"
    ELSE IF s.stat.k \in {"error", "break"} /\ s.stat.line # -1 /\ s.stat.line # e.line THEN "error_line"
    ELSE IF s.out # e.out THEN "output"
    ELSE IF ~VarsMatch(s, e) THEN "variables"
    ELSE "ok"

\* the end of a direct line is not a logged boundary: reaching it just returns to the prompt
Settle(s) == IF s.run /\ s.pc[1] = 0 /\ I!AtEnd(s, s.pc) THEN I!Exec(s) ELSE s

Reject(c) == /\ viol' = Append(viol, <<l, c>>) /\ dead' = TRUE /\ ss' = {}

TNext ==
    /\ l <= NEvents
    /\ l' = l + 1
    /\ LET e == Events[l] IN
       CASE e.a = "run" -> /\ ss' = {I!Start(Header.progs[e.pi])}
                           /\ dead' = FALSE /\ viol' = viol
         [] dead -> UNCHANGED <<ss, dead, viol>>
         \* C40: the session was suspended to a state file and resumed from it between two statements:
         \* a stuttering step of the abstract machine - whatever follows must continue as if nothing happened
         [] e.a = "sr" -> UNCHANGED <<ss, dead, viol>>
         \* a line typed at the prompt after the run has stopped (C21, C38: traps and handlers armed by the program)
         [] e.a = "direct" -> /\ ss' = {I!StartDirect(s, e.stmts) : s \in ss}
                              /\ UNCHANGED <<dead, viol>>
         [] e.a = "b" ->
              LET good == {s \in ss : BoundaryClause(s, e) = "ok"} IN
              IF good = {}
              THEN IF \E s \in ss : s.stat.k = "fragment"
                   THEN Reject("outside_fragment")
                   ELSE Reject(BoundaryClause(CHOOSE s \in ss : TRUE, e))
              ELSE /\ ss' = UNION {I!Steps(OccurAll(Adopt(s, e), e.occ)) : s \in good}
                   /\ UNCHANGED <<dead, viol>>
         [] e.a = "end" ->
              LET sett == {Settle(s) : s \in ss}
                  good == {s \in sett : EndClause(s, e) = "ok"} IN
              IF good = {} THEN Reject(EndClause(CHOOSE s \in sett : TRUE, e))
              ELSE IF \A s \in good : s.kf
                   THEN Reject("known_clear_keeps_gosub_stack")      \* explained only by the listed deviation
              ELSE ss' = {Adopt(s, e) : s \in good} /\ UNCHANGED <<dead, viol>>       \* kept: a direct line may follow

TInit == ss = {} /\ dead = TRUE /\ l = 1 /\ viol = <<>>
TSpec == TInit /\ [][TNext]_tvars
TDone == (l = NEvents + 1) => WriteVerdict(l - 1, viol)
=============================================================================
