SPECIFICATION TSpec
CONSTANTS
  CodeStart = 4717
INVARIANT TDone
CHECK_DEADLOCK FALSE
