---------------------------- MODULE Codepage_MC ----------------------------
(* Exhaustive bounded check of the double-byte converter over byte CLASSES.

   A model byte is a number i standing for the attribute set Alphabet[i]
   (subset of Attr); the converter only tests class membership, so every real
   byte behaves like the model byte with the same attributes.  Two models:

   * history model (Codepage_MC.cfg / _big.cfg): every input of at most MaxLen
     model bytes, fed in every possible chunking (Next feeds any non-empty
     chunk), with and without box protection.  Invariants: the concatenation
     law  Flat(out) \o buf = consumed, chunk independence (the state and
     output reached by pieces equal the one-shot fold), the shape invariant,
     and at the end the flushed output is a segmentation of the input.
   * step model (Codepage_MC_step.cfg): no history, unbounded input length,
     a larger alphabet; the concatenation law is checked as the inductive
     step law on every transition of every reachable converter state.      *)
EXTENDS Codepage, TLC

CONSTANTS AlphaName,    \* "seven" | "nine" | "step": which alphabet (sequence of attribute sets; model byte i has the attributes Alphabet[i])
          MaxLen,       \* bound on the input length (history model)
          History       \* TRUE: history model, FALSE: step model

Attr == {"lead", "trail", "bl0", "br0", "bl1", "br1", "pres"}

\* the seven classes named in the design + a second box set and a both-sides box byte (like the real U+2500)
LT == {"lead", "trail"}
Alpha7 == <<{}, {"lead"}, {"trail"}, LT, LT \cup {"bl0"}, LT \cup {"br0"}, {"pres"}>>
Alpha9 == Alpha7 \o <<LT \cup {"bl0", "br0"}, LT \cup {"bl1", "br1"}>>
\* step model: preserved or any combination of lead/trail with a box kind
LeadKinds == <<{}, {"lead"}, {"trail"}, LT>>
BoxKindSeq == <<{}, {"bl0"}, {"br0"}, {"bl0", "br0"}, {"bl1", "br1"}, {"bl0", "br1"}, {"bl1"}, {"br1"}, {"bl0", "br0", "bl1", "br1"}>>
AlphaStep == <<{"pres"}, {"pres", "lead", "trail", "bl0", "br0"}>>
             \o [i \in 1..36 |-> LeadKinds[((i - 1) \div 9) + 1] \cup BoxKindSeq[((i - 1) % 9) + 1]]

\* (zero-arity definitions so that TLC evaluates them once; no identifier below may coincide with a variable name,
\*  otherwise TLC takes the definition for state-dependent and re-evaluates it at every use)
Alphabet == CASE AlphaName = "seven" -> Alpha7 [] AlphaName = "nine" -> Alpha9 [] OTHER -> AlphaStep
Bytes == 1..Len(Alphabet)
HasAttr(a) == TLCEval({b \in Bytes : a \in Alphabet[b]})
MK0(bx) == [lead |-> HasAttr("lead"), trail |-> HasAttr("trail"),
            boxl |-> <<HasAttr("bl0"), HasAttr("bl1")>>, boxr |-> <<HasAttr("br0"), HasAttr("br1")>>,
            dbcs |-> TRUE, pres |-> HasAttr("pres"), box |-> bx]
MKs == TLCEval([bx \in BOOLEAN |-> MK0(bx)])
MK(bx) == MKs[bx]
LeadSet == HasAttr("lead")
TrailSet == HasAttr("trail")
PresSet == HasAttr("pres")

VARIABLES vBox, vSt, vConsumed, vOut, vLastC, vLastO
vars == <<vBox, vSt, vConsumed, vOut, vLastC, vLastO>>

Init == /\ vBox \in BOOLEAN /\ vSt = CInit /\ vConsumed = <<>> /\ vOut = <<>>
        /\ vLastC = <<>> /\ vLastO = <<>>

FeedChunk(ch) == LET r == Feed(MK(vBox), vSt, ch) IN
    /\ vSt' = r.st /\ vLastC' = ch /\ vLastO' = r.out
    /\ vConsumed' = IF History THEN vConsumed \o ch ELSE <<>>
    /\ vOut' = IF History THEN vOut \o r.out ELSE <<>>
    /\ UNCHANGED vBox
Next == IF History THEN \E k \in 1..(MaxLen - Len(vConsumed)) : \E ch \in [1..k -> Bytes] : FeedChunk(ch)
        ELSE \E c \in Bytes : FeedChunk(<<c>>)
Spec == Init /\ [][Next]_vars

View == <<vBox, vSt, vConsumed, vOut>>

\* --- the property on the model
ConcatInv == History => Flat(vOut) \o vSt.buf = vConsumed
ChunkIndependent == History =>
    LET r == Feed(MK(vBox), CInit, vConsumed) IN r.st = vSt /\ r.out = vOut
Shape == ShapeOK(MK(vBox), vSt)
\* flushing at any point gives a segmentation of the input into 1- and 2-byte sequences
Segmentation == History =>
    LET m == Mark(MK(vBox), vConsumed) IN
    /\ Flat(m) = vConsumed /\ m = vOut \o FlushAll(vSt.buf)
    /\ \A i \in 1..Len(m) : Len(m[i]) \in {1, 2}
\* without vBox protection every 2-byte sequence is a lead byte followed by a trail byte, and a preserved
\* byte is never part of one
PairsNoBox == (History /\ ~vBox) =>
    \A i \in 1..Len(vOut) : Len(vOut[i]) = 2 => vOut[i][1] \in LeadSet /\ vOut[i][2] \in TrailSet
PreservedAlone == History =>
    \A i \in 1..Len(vOut) : Len(vOut[i]) = 2 => vOut[i][1] \notin PresSet /\ vOut[i][2] \notin PresSet
\* inductive step law (both models): what one call emits plus the new buffer is the old buffer plus the chunk
StepLaw == [][Flat(vLastO') \o vSt'.buf = vSt.buf \o vLastC']_vars
=============================================================================
