---------------------------- MODULE Codepage_MC ----------------------------
(* Exhaustive bounded check of the double-byte converter over byte CLASSES.

   A model byte is a number i standing for the attribute set Alphabet[i]
   (subset of Attr); the converter only tests class membership, so every real
   byte behaves like the model byte with the same attributes.  Two models:

   * history model (Codepage_MC.cfg / _big.cfg): every input of at most MaxLen
     model bytes, fed in every possible chunking (Next feeds any non-empty
     chunk), with and without box protection.  Invariants: the concatenation
     law  Flat(out) \o buf = consumed, chunk independence (the state and
     output reached by pieces equal the one-shot fold), the shape invariant,
     and at the end the flushed output is a segmentation of the input.
   * step model (Codepage_MC_step.cfg): no history, unbounded input length,
     a larger alphabet; the concatenation law is checked as the inductive
     step law on every transition of every reachable converter state.      *)
EXTENDS Codepage, TLC

CONSTANTS Alphabet,     \* sequence of attribute sets; model byte i has the attributes Alphabet[i]
          MaxLen,       \* bound on the input length (history model)
          History       \* TRUE: history model, FALSE: step model

Attr == {"lead", "trail", "bl0", "br0", "bl1", "br1", "pres"}
Bytes == 1..Len(Alphabet)
Has(a) == TLCEval({b \in Bytes : a \in Alphabet[b]})
MK0(box) == [lead |-> Has("lead"), trail |-> Has("trail"),
            boxl |-> <<Has("bl0"), Has("bl1")>>, boxr |-> <<Has("br0"), Has("br1")>>,
             dbcs |-> TRUE, pres |-> Has("pres"), box |-> box]
MKs == TLCEval([b \in BOOLEAN |-> MK0(b)])                    \* evaluated once
MK(b) == MKs[b]

\* the seven classes named in the design + a second box set and a both-sides box byte (like the real U+2500)
LT == {"lead", "trail"}
Alpha7 == <<{}, {"lead"}, {"trail"}, LT, LT \cup {"bl0"}, LT \cup {"br0"}, {"pres"}>>
Alpha9 == Alpha7 \o <<LT \cup {"bl0", "br0"}, LT \cup {"bl1", "br1"}>>
\* step model: preserved or any combination of lead/trail with a box kind
LeadKinds == <<{}, {"lead"}, {"trail"}, LT>>
BoxKindSeq == <<{}, {"bl0"}, {"br0"}, {"bl0", "br0"}, {"bl1", "br1"}, {"bl0", "br1"}, {"bl1"}, {"br1"}, {"bl0", "br0", "bl1", "br1"}>>
AlphaStep == <<{"pres"}, {"pres", "lead", "trail", "bl0", "br0"}>>
             \o [i \in 1..36 |-> LeadKinds[((i - 1) \div 9) + 1] \cup BoxKindSeq[((i - 1) % 9) + 1]]

VARIABLES box, st, consumed, out, lastc, lasto
vars == <<box, st, consumed, out, lastc, lasto>>

Init == /\ box \in BOOLEAN /\ st = CInit /\ consumed = <<>> /\ out = <<>>
        /\ lastc = <<>> /\ lasto = <<>>

FeedChunk(ch) == LET r == Feed(MK(box), st, ch) IN
    /\ st' = r.st /\ lastc' = ch /\ lasto' = r.out
    /\ consumed' = IF History THEN consumed \o ch ELSE <<>>
    /\ out' = IF History THEN out \o r.out ELSE <<>>
    /\ UNCHANGED box
Next == IF History THEN \E k \in 1..(MaxLen - Len(consumed)) : \E ch \in [1..k -> Bytes] : FeedChunk(ch)
        ELSE \E c \in Bytes : FeedChunk(<<c>>)
Spec == Init /\ [][Next]_vars

View == <<box, st, consumed, out>>

\* --- the property on the model
ConcatInv == History => Flat(out) \o st.buf = consumed
ChunkIndependent == History =>
    LET r == Feed(MK(box), CInit, consumed) IN r.st = st /\ r.out = out
Shape == ShapeOK(MK(box), st)
\* flushing at any point gives a segmentation of the input into 1- and 2-byte sequences
Segmentation == History =>
    LET m == Mark(MK(box), consumed) IN
    /\ Flat(m) = consumed /\ m = out \o FlushAll(st.buf)
    /\ \A i \in 1..Len(m) : Len(m[i]) \in {1, 2}
\* without box protection every 2-byte sequence is a lead byte followed by a trail byte, and a preserved
\* byte is never part of one
PairsNoBox == (History /\ ~box) =>
    \A i \in 1..Len(out) : Len(out[i]) = 2 => out[i][1] \in Has("lead") /\ out[i][2] \in Has("trail")
PreservedAlone == History =>
    \A i \in 1..Len(out) : Len(out[i]) = 2 => out[i][1] \notin Has("pres") /\ out[i][2] \notin Has("pres")
\* inductive step law (both models): what one call emits plus the new buffer is the old buffer plus the chunk
StepLaw == [][Flat(lasto') \o st'.buf = st.buf \o lastc']_vars
=============================================================================
