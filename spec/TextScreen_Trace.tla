-------------------------- MODULE TextScreen_Trace --------------------------
(* Total trace specification for C36.  One event per BASIC statement run on
   the real interpreter:
     {op, s, nl, r, c, t, b, n, m, nw, nmode, ok, code, msg (bytes of the error message when refused), reset,
      obs: {w, h, mode, top, bot, view, row, col, ovf, bra, wrap,    -- projection of TextScreen
            csrlin, pos,                                             -- CSRLIN, POS(0) as evaluated by BASIC
            rows: [[r, [bytes]], ..],                                -- rows of Session.get_chars() that differ
                                                                        from the previous observation
            scr: [[r, c, v], ..]}}                                   -- SCREEN(r, c) samples
   The model state advances by TextScreen!Effect.  JUDGED are only the
   property's observables: outcome (Must), CSRLIN/POS, the character buffer,
   SCREEN(r,c), the window and width a statement asks for, and "cursor inside
   the screen".  The implementation's internal cursor/overflow/wrap
   representation is never compared; it is used to RE-SYNCHRONISE the model
   after a rejected event or an outcome the property leaves open (error
   messages are printed on the screen).                                       *)
EXTENDS TextScreen, TraceBase
VARIABLES st, l, viol
tvars == <<st, l, viol>>

RowOf(e, r, prev) ==
    LET idx == {i \in 1..Len(e.obs.rows) : e.obs.rows[i][1] = r}
    IN  IF idx = {} THEN prev[r] ELSE e.obs.rows[CHOOSE i \in idx : TRUE][2]

ObsSt(e, prev) ==
    [w |-> e.obs.w, h |-> e.obs.h, mode |-> e.obs.mode, top |-> e.obs.top, bot |-> e.obs.bot,
     view |-> e.obs.view, row |-> e.obs.row, col |-> e.obs.col, ovf |-> e.obs.ovf, bra |-> e.obs.bra,
     buf |-> [r \in 1..e.obs.h |-> RowOf(e, r, prev)],
     wrap |-> e.obs.wrap]

ScrOk(e, s1) ==
    \A i \in 1..Len(e.obs.scr) :
        LET q == e.obs.scr[i] IN q[3] = ScreenFn(s1, q[1], q[2])

(* A statement that is refused in direct mode changes nothing but prints its error message: the cursor goes to the start of
   the next line unless it is in column 1 (console.start_line), then the message, CHR$(255) and a line end are written like
   any console output.  e.msg is the message text of the error code (the documented table, supplied by the harness).
   In particular a refused statement leaves no permission to write the bottom row behind.                              *)
StartLine(s) ==
    LET s1 == IF s.col # 1 THEN SetPos(s, s.row + 1, 1, TRUE) ELSE s
    IN  IF s1.row > 1 THEN [s1 EXCEPT !.wrap[s1.row - 1] = FALSE] ELSE s1
Refused(s, e) == ConsoleWrite(StartLine(s), e.msg \o <<255, 13>>)
WithMsg(e) == ~e.ok /\ Has(e, "msg")

Verdict(e, s0, s1, obs) ==
    LET must == Must(s0, e) IN
    IF ~(InScreen(obs) /\ e.obs.csrlin \in 1..obs.h /\ e.obs.pos \in 1..obs.w) THEN "cursor_outside_screen"
    ELSE IF must = "ifc" /\ ~Accepts(must, e.ok, e.code) THEN "position_outside_screen_not_refused_with_illegal_function_call"
    ELSE IF must = "ok" /\ ~e.ok THEN "statement_refused"
    ELSE IF ~Accepts(must, e.ok, e.code) THEN "refused_with_other_error_than_illegal_function_call"
    ELSE IF ~e.ok /\ ~WithMsg(e) THEN "ok"
    ELSE IF e.ok /\ ((e.op \in {"width", "screen"} /\ ~WidthOk(s0, e)) \/ s1.w # obs.w) THEN "width_or_mode_change_differs"
    ELSE IF e.ok /\ e.op = "locate" /\ e.r # -1 /\ e.c # -1 /\ (e.obs.csrlin # e.r \/ e.obs.pos # e.c)
         THEN "locate_did_not_move_to_requested_cell"
    ELSE IF WithMsg(e) /\ (s1.w # obs.w \/ s1.h # obs.h) THEN "refused_statement_changed_the_screen_size"
    ELSE IF Csrlin(s1) # e.obs.csrlin \/ Pos(s1) # e.obs.pos
         THEN IF e.ok THEN "cursor_differs_from_reference" ELSE "cursor_after_refused_statement_differs_from_reference"
    ELSE IF s1.buf # obs.buf THEN
         IF ~e.ok THEN "screen_after_refused_statement_differs_from_reference"
         ELSE IF e.op \in {"print", "cls"} /\ s0.view /\ s0.w = obs.w
            /\ \E r \in 1..s0.h : r \notin s0.top..s0.bot /\ obs.buf[r] # s0.buf[r]
         THEN "row_outside_view_print_window_changed"
         ELSE "screen_content_differs_from_reference"
    ELSE IF <<s1.top, s1.bot, s1.view>> # <<obs.top, obs.bot, obs.view>> THEN "scroll_window_differs"
    ELSE IF ~ScrOk(e, s1) THEN "screen_function_differs_from_character_last_written"
    ELSE "ok"

Step(e) ==
    IF e.op = "init" THEN st' = ObsSt(e, <<>>) /\ viol' = viol
    ELSE
    LET obs == ObsSt(e, st.buf)
        s1  == IF e.ok THEN Effect(st, e) ELSE IF WithMsg(e) THEN Refused(st, e) ELSE st
        v   == Verdict(e, st, s1, obs)
    IN  /\ st' = IF v = "ok" /\ (e.ok \/ WithMsg(e)) THEN s1 ELSE obs
        /\ viol' = IF v = "ok" THEN viol ELSE Append(viol, <<l, v>>)

TInit == st = Fresh(1, 1, 0) /\ l = 1 /\ viol = <<>>
TNext == l <= NEvents /\ l' = l + 1 /\ Step(Events[l])
TSpec == TInit /\ [][TNext]_tvars
TDone == (l = NEvents + 1) => WriteVerdict(l - 1, viol)
=============================================================================
