SPECIFICATION Spec
CONSTANTS
  Alphabet = {0, 26}
  MaxLen = 3
  AsCoded = TRUE
INVARIANT RoundTrip
