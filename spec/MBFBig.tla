------------------------------- MODULE MBFBig -------------------------------
(* Microsoft Binary Format numbers decoded to EXACT values (scaled big
   naturals of BigNat.tla).  A number is a byte sequence of length 4 (single)
   or 8 (double):  mantissa bytes little-endian, the top bit of the last
   mantissa byte is the sign and stands for an implied leading 1, the last
   byte is the exponent biased by 128; exponent byte 0 means zero whatever
   the other bytes are.  value = +-0.1mmm..(binary) * 2^(E-128)
                               = +-M * 2^(E - 128 - W),  W = 24 or 56,
   M = mantissa with the implied bit, 2^(W-1) <= M < 2^W.                    *)
EXTENDS BigNat

IsByteSeq(b) == \A i \in 1..Len(b) : b[i] \in 0..255
MbfWellFormed(b) == Len(b) \in {4, 8} /\ IsByteSeq(b)
MbfWidth(b) == 8 * (Len(b) - 1)
MbfIsZero(b) == b[Len(b)] = 0
MbfNeg(b) == b[Len(b) - 1] >= 128
MbfMant(b) == FromBytesLE(SubSeq(b, 1, Len(b) - 2) \o <<(b[Len(b) - 1] % 128) + 128>>)
MbfE2(b) == b[Len(b)] - 128 - MbfWidth(b)
\* exact value
MbfVal(b) == IF MbfIsZero(b) THEN ScZero ELSE Sc(MbfNeg(b), MbfMant(b), MbfE2(b), 0)
\* one unit in the last binary place of a non-zero number
MbfUlp(b) == ScPow2(MbfE2(b))
\* range of a type of n bytes: largest magnitude (2^W - 1) * 2^(127 - W), first unrepresentable
\* power 2^127, smallest positive 2^(W-1) * 2^(1 - 128 - W) = 2^-128
MbfMax(n) == Sc(FALSE, Sub(Pow2(8 * (n - 1)), <<1>>), 127 - 8 * (n - 1), 0)
MbfLimit == ScPow2(127)
MbfMinPos == ScPow2(-128)
\* byte pattern of the signed maximum
MbfMaxBytes(n, neg) == [i \in 1..n |-> IF i = n - 1 THEN (IF neg THEN 255 ELSE 127) ELSE 255]
IsMaxBytes(b, neg) == /\ b[Len(b)] = 255
                      /\ b[Len(b) - 1] = (IF neg THEN 255 ELSE 127)
                      /\ \A i \in 1..(Len(b) - 2) : b[i] = 255
\* is the value representable as a single (low bytes of a double all zero)?
DoubleIsSingle(b) == Len(b) = 8 /\ \A i \in 1..4 : b[i] = 0

(* Self-test of the big-natural arithmetic at the limb base in use, evaluated once at every TLC start
   (BigNat_MC checks the operators exhaustively on small numbers with a small base). *)
ASSUME BigNatSelfTest ==
    LET m56 == Sub(Pow2(56), <<1>>)
    IN  /\ Mul(m56, m56) = Add(Sub(Pow2(112), Pow2(57)), <<1>>)
        /\ FromBytesLE(<<255, 255, 255, 255, 255, 255, 255>>) = m56
        /\ FromBytesLE(<<1, 2, 3, 4, 5, 6, 7>>) = FromBytesHorner(<<1, 2, 3, 4, 5, 6, 7>>)
        /\ FromDec(<<1, 8, 4, 4, 6, 7, 4, 4, 0, 7, 3, 7, 0, 9, 5, 5, 1, 6, 1, 6>>) = Pow2(64)
        /\ Pow10(40) = Mul(Pow10(17), Pow10(23))
        /\ Pow10(38) = Pow10Slow(38)
        /\ \A k \in 1..Pow10Max : Pow10(k) = MulSmall(Pow10(k - 1), 10)
        /\ ModSmall(Pow10(30), 1024) = 0 /\ ModSmall(Pow10(30), 7) = 1
        /\ DivSmall(Pow10(30), 10) = Pow10(29)
        /\ ScCmp(Sc(FALSE, <<1>>, 10, -3), Sc(FALSE, <<1, 1>>, -15, 0)) = 1      \* 1.024 > 1 + 2^-15
        /\ ScEq(ScAdd(Sc(FALSE, <<5>>, -1, 0), Sc(TRUE, <<25>>, 0, -1)), ScZero)    \* 5/2 - 25/10 = 0
=============================================================================
