----------------------------- MODULE C15_Trace -----------------------------
(* Trace validation for C15.  Header: the cipher tables observed from the code
   (enc, dec: 286 rows x 256 bytes; Cipher_MC has checked their laws
   exhaustively).  Events (one per recorded operation on the real
   implementation); byte strings that are only compared for equality are
   given as hex strings, those that are indexed as arrays of 0..255:

   stream    {s, e, d, exc}      e = protect(s), d = unprotect(e ++ EOF)
   unstream  {x, u, r, exc}      u = unprotect(x ++ EOF), r = protect(u)
   roundtrip {fmt, dev, ok, mem0, size0, mem1, size1, file1, file2}
             program buffer / size before SAVE and after LOAD of the saved file
             (into a session holding another program); file2 = the file SAVEd
             again from the reloaded program
   ascii     {dev, mem0, memre, reok, list0, len0, loadok, list1, mergeok, list2}
             memre = program buffer after typing the listing list0 into an empty
             session; list1 = listing after LOAD of the ,A file; list2 = listing
             after NEW: MERGE of the ,A file; len0 = lengths of the lines of list0
   merge     {qmem0, qmemre, fmem0, fmemre, reok, q, f, ok, r}
             q, f, r: listings (<<number, text>>) of the resident program, of the
             program saved with ,A and of the result of MERGE
   peekview  {vis, mem, size}    PEEK over the program area vs the program buffer
   convert   {mode, src, convok, sessok, conv, sess, sessraw}
             file written by pcbasic --convert=mode and by LOAD + SAVE in a session
             (sessraw: in a session that keeps stored line pointers; classification only) *)
EXTENDS SaveLoad, TraceBase
VARIABLES l, viol

StreamV(e) ==
    LET E == Header.enc
    IN  IF e.exc THEN "cipher_raised_exception"
        ELSE IF Len(e.e) # Len(e.s) \/ e.e # Stream(E, e.s) THEN "protect_is_not_the_positionwise_table_substitution"
        ELSE IF e.d # e.s THEN "decode_of_encode_differs"
        ELSE "ok"
UnstreamV(e) ==
    LET D == Header.dec
    IN  IF e.exc THEN "cipher_raised_exception"
        ELSE IF Len(e.u) # Len(e.x) \/ e.u # Stream(D, e.x) THEN "unprotect_is_not_the_positionwise_table_substitution"
        ELSE IF e.r # e.x THEN "encode_of_decode_differs"
        ELSE "ok"

RoundTripV(e) ==
    IF ~e.ok THEN "save_or_load_failed"
    ELSE LET v == RoundTripVerdict(e.mem0, e.size0, e.mem1, e.size1)
         IN  IF v # "ok" THEN v
             ELSE IF e.file2 # e.file1 THEN "resaved_file_differs"
             ELSE "ok"

\* the premise of the ASCII clause: the listing re-enters as the same program
AsciiV(e) ==
    IF ~(e.reok /\ e.memre = e.mem0 /\ Enterable(e.len0)) THEN "ok"   \* nothing demanded
    ELSE IF ~e.loadok THEN "load_of_ascii_file_failed"
    ELSE IF e.list1 # e.list0 THEN "listing_differs_after_load_of_ascii_file"
    ELSE IF ~e.mergeok THEN "merge_of_ascii_file_failed"
    ELSE IF e.list2 # e.list0 THEN "listing_differs_after_merge_of_ascii_file"
    ELSE "ok"

MergeV(e) ==
    IF ~(e.reok /\ e.qmemre = e.qmem0 /\ e.fmemre = e.fmem0 /\ Enterable(e.lens)) THEN "ok"
    ELSE IF ~e.ok THEN "merge_of_ascii_file_failed"
    ELSE IF ~IsMerge(e.q, e.f, e.r) THEN "merge_result_is_not_the_union_with_file_lines_replacing"
    ELSE "ok"

ConvertV(e) ==
    IF ~e.sessok THEN "ok"                                          \* SAVE in the session failed: nothing to compare with
    ELSE IF ~e.convok THEN "converter_failed_where_session_save_succeeds"
    ELSE IF e.conv = e.sess THEN "ok"
    \* the converter deliberately keeps the line pointers stored in a tokenised input file (classification only)
    ELSE IF e.conv = e.sessraw THEN "converter_keeps_stored_line_pointers_where_a_session_rebuilds_them"
    ELSE IF TRUE THEN "converter_file_differs_from_session_save"
    ELSE "ok"

\* projection cross-check: PEEK over the program area shows the program buffer
PeekViewV(e) == IF e.vis = SubSeq(e.mem, 1, e.size) THEN "ok" ELSE "peek_view_differs_from_program_buffer"

V(e) == CASE e.k = "stream"    -> StreamV(e)
          [] e.k = "unstream"  -> UnstreamV(e)
          [] e.k = "roundtrip" -> RoundTripV(e)
          [] e.k = "ascii"     -> AsciiV(e)
          [] e.k = "merge"     -> MergeV(e)
          [] e.k = "convert"   -> ConvertV(e)
          [] e.k = "peekview"  -> PeekViewV(e)
          [] OTHER -> "unknown_event"

INSTANCE OracleTrace WITH Verdict <- V
=============================================================================
