--------------------------- MODULE SeqFile_Trace ---------------------------
(* Total trace specification for C24.  Each event is one BASIC statement executed on the real interpreter:
     {op, n, name, mode, items, s, k, vars: [{t, got, want, r}, ..], got, ok, code, reset, soft,
      obs: {f: [ per file number: {open, lof, eof} ], host: [[name, bytes], ..]}}
   WRITE #  : items as in SeqFile (strings as bytes; numbers by their written representation r, which the harness
              obtains from WRITE to the screen and which is verified against the host file at CLOSE).
   INPUT #  : vars[j].got is the value read (string bytes, or the MKI$/MKS$/MKD$ bytes of a number); for a number
              vars[j].r is the representation the harness evaluated and vars[j].want the MKx$ bytes of VAL(r): the
              number read must equal the value of its written representation.
   obs.f[k].lof / .eof are LOF(k) / EOF(k) (eof only for files open FOR INPUT); obs.host the host file bytes after CLOSE.
   Only the reference layer of SeqFile judges.  A read session in which one read was rejected is not judged further
   (the position of the implementation in the file cannot be observed).  Rejections are classified by the input class
   of the item read just before (string / line of the maximal length 255) or of the item itself (string containing LF). *)
EXTENDS SeqFile, TraceBase
VARIABLES st, l, viol
tvars == <<st, l, viol>>

HostOf(e, x) == LET hs == {i \in 1..Len(e.obs.host) : e.obs.host[i][1] = x}
                IN  IF hs = {} THEN <<FALSE, <<>>>> ELSE <<TRUE, e.obs.host[CHOOSE i \in hs : TRUE][2]>>
HasLF(b) == \E i \in 1..Len(b) : b[i] = LF

\* input class of a rejected read at position (li, ii) of `lines` whose expected item is `it` ("" = no special class).
\* A string / line of the maximal length read EARLIER IN THE SAME SESSION (a session starts at the beginning of the file)
\* leaves the implementation at an unknown position; an item read in between may match by coincidence.
Str255(it) == it.k = "s" /\ Len(it.b) = MaxLen
StrBefore(lines, li, ii) ==
    \/ \E m \in 1..(IF li - 1 <= Len(lines) THEN li - 1 ELSE Len(lines)) :
          lines[m].k = "w" /\ \E j \in 1..Len(lines[m].items) : Str255(lines[m].items[j])
    \/ (li <= Len(lines) /\ lines[li].k = "w" /\ \E j \in 1..ii : Str255(lines[li].items[j]))
LineBefore(lines, li) ==
    \E m \in 1..(IF li - 1 <= Len(lines) THEN li - 1 ELSE Len(lines)) : lines[m].k = "p" /\ Len(lines[m].s) = MaxLen
ClassAt(lines, li, ii, it) ==
    IF StrBefore(lines, li, ii) THEN "_after_255_char_string"
    ELSE IF LineBefore(lines, li) THEN "_after_255_char_line"
    ELSE IF it.k = "s" /\ Len(it.b) >= 2 /\ it.b[1] = CR /\ it.b[2] = LF THEN "_string_starts_with_cr_lf"
    ELSE IF it.k = "s" /\ HasLF(it.b) THEN "_string_contains_linefeed"
    ELSE ""
NoItem == [k |-> "none"]

\* verdict on the values an INPUT # returned: index of the first variable that is wrong, 0 if none
BadVar(e, items) ==
    LET bad == {j \in 1..Len(items) :
                   LET v == e.vars[j]  it == items[j]
                   IN  IF it.k = "s" THEN v.t # "s" \/ v.got # it.b
                       ELSE v.t # "n" \/ v.r # it.r \/ v.got # v.want}
    IN  IF bad = {} THEN 0 ELSE CHOOSE j \in bad : \A i \in bad : j <= i

\* <<clause, desync>>: first clause violated by event e ("ok" if none); desync = the read session is lost
Judge(e, s0, s1) ==
    LET n == e.n
        o == e.obs.f
        frag  == InFragment(s0, e)
        reads == frag /\ e.op \in {"input", "lineinput"}
        lines == IF IsOpen(s0, n) THEN Lines(s0, n) ELSE <<>>
        li == IF IsOpen(s0, n) THEN s0.fil[n].li ELSE 1
        ii == IF IsOpen(s0, n) THEN s0.fil[n].ii ELSE 0
        mine == IsOpen(s1, n) /\ o[n].open
    IN  IF frag /\ Must(s0, e) = "ok" /\ ~e.ok
            THEN <<"valid_operation_failed" \o
                   (IF ~reads THEN ""
                    ELSE IF e.op = "input"       \* a 255-character string read by an earlier variable of this very statement counts
                         THEN LET p == PosAfter(lines, li, ii, e.k - 1) IN ClassAt(lines, p[1], p[2], NoItem)
                         ELSE ClassAt(lines, li, ii, NoItem)), reads>>
        ELSE IF \E k \in FileNums : o[k].open # IsOpen(s1, k) THEN <<"open_files_differ_from_model", FALSE>>
        ELSE IF reads /\ e.op = "input" /\ BadVar(e, InputResult(s0, e)) # 0
            THEN LET j  == BadVar(e, InputResult(s0, e))
                     p  == PosAfter(lines, li, ii, j - 1)
                     it == InputResult(s0, e)[j]
                 IN  <<(IF it.k = "s" THEN "input_string_differs_from_written"
                        ELSE "input_number_differs_from_value_of_written_representation") \o ClassAt(lines, p[1], p[2], it), TRUE>>
        ELSE IF reads /\ e.op = "lineinput" /\ e.got # LineResult(s0, e)
            THEN <<"line_input_differs_from_printed_line" \o ClassAt(lines, li, ii, NoItem), TRUE>>
        ELSE IF mine /\ s1.fil[n].mode = "I" /\ ~s1.fil[n].bad /\ o[n].eof # Eof(s1, n)
            THEN <<"eof_not_exactly_after_last_item" \o ClassAt(lines, s1.fil[n].li, s1.fil[n].ii, NoItem), TRUE>>
        ELSE IF mine /\ HostOf(e, s1.fil[n].name)[1] /\ o[n].lof # Len(HostOf(e, s1.fil[n].name)[2])
            THEN <<"lof_differs_from_bytes_in_host_file", FALSE>>
        ELSE IF mine /\ ~HostOf(e, s1.fil[n].name)[1] /\ s1.disk[s1.fil[n].name].known /\ o[n].lof # Lof(s1, n)
            THEN <<"lof_differs_from_bytes_in_file", FALSE>>
        ELSE IF \E x \in Names : /\ HostOf(e, x)[1] /\ s1.disk[x].known
                                 /\ LET fb == FileBytes(s1.disk[x].lines)
                                    IN  HostOf(e, x)[2] # fb /\ HostOf(e, x)[2] # fb \o <<EOFCHAR>>
            THEN <<"host_file_bytes_differ_from_written_text", FALSE>>
        ELSE IF \E k \in FileNums : /\ k # n /\ IsOpen(s1, k) /\ o[k].open /\ s1.disk[s1.fil[k].name].known
                                    /\ \/ o[k].lof # Lof(s1, k)
                                       \/ (s1.fil[k].mode = "I" /\ ~s1.fil[k].bad /\ o[k].eof # Eof(s1, k))
            THEN <<"other_file_affected", FALSE>>
        ELSE <<"ok", FALSE>>

\* re-synchronise what can be observed: end-of-file mark and length from the host file, LOF, lost read sessions
Resync(e, s1, v) ==
    LET o == e.obs.f
        fixDisk(x) ==
            LET d == s1.disk[x]
                holder == {k \in FileNums : IsOpen(s1, k) /\ s1.fil[k].name = x /\ o[k].open}
            IN  IF HostOf(e, x)[1]
                THEN LET h == HostOf(e, x)[2]  fb == FileBytes(d.lines)
                     IN  IF h = fb THEN [d EXCEPT !.extra = 0]
                         ELSE IF h = fb \o <<EOFCHAR>> THEN [d EXCEPT !.extra = 1]
                         ELSE [d EXCEPT !.extra = Len(h) - d.len]      \* reads are still judged against the items written
                ELSE IF v[1] = "lof_differs_from_bytes_in_file" /\ holder # {}
                     THEN [d EXCEPT !.extra = o[CHOOSE k \in holder : TRUE].lof - d.len]
                ELSE d
    IN  [disk |-> [x \in Names |-> fixDisk(x)],
         fil  |-> [k \in FileNums |-> IF IsOpen(s1, k) /\ k = e.n /\ v[2] THEN [s1.fil[k] EXCEPT !.bad = TRUE] ELSE s1.fil[k]]]

\* an operation outside the fragment that succeeded: writes make the file content unknown, reads lose the session
OutOfFragment(e, s0) ==
    IF ~e.ok \/ ~IsOpen(s0, e.n) THEN s0
    ELSE IF e.op \in {"write", "print"} THEN [s0 EXCEPT !.disk[s0.fil[e.n].name].known = FALSE]
    ELSE IF e.op \in {"input", "lineinput"} THEN [s0 EXCEPT !.fil[e.n].bad = TRUE]
    ELSE s0

Step(e) ==
    \E s0 \in {IF Has(e, "reset") /\ e.reset THEN InitSt ELSE st} :
    \E s1 \in {IF InFragment(s0, e) THEN (IF e.ok THEN Effect(s0, e) ELSE s0) ELSE OutOfFragment(e, s0)} :
    \E v \in {Judge(e, s0, s1)} :
        /\ st' = Resync(e, s1, v)
        /\ viol' = IF v[1] = "ok" THEN viol ELSE Append(viol, <<l, v[1]>>)

TInit == st = InitSt /\ l = 1 /\ viol = <<>>
TNext == l <= NEvents /\ l' = l + 1 /\ \E e \in {Events[l]} : Step(e)
TSpec == TInit /\ [][TNext]_tvars
TDone == (l = NEvents + 1) => WriteVerdict(l - 1, viol)
=============================================================================
