------------------------------ MODULE Play_MC ------------------------------
(* Bounded design check of the PLAY machine at command level + transition
   emitter for behaviour replay.  The alphabet holds, for every command
   kind, representative legal arguments (both range ends) and the malformed
   forms; every reachable voice state is expanded with every command.       *)
EXTENDS Play, Json
VARIABLES st, act, out
vars == <<st, act, out>>

Note(name, acc, len, dots) == [c |-> "note", name |-> name, acc |-> acc, len |-> len, dots |-> dots]
Num(c, n) == [c |-> c, n |-> n, via |-> "lit"]
Alphabet ==
    { Note("C", "", -1, 0), Note("F", "#", 4, 0), Note("B", "-", 8, 1), Note("G", "", 0, 0), Note("A", "+", 64, 2),
      Note("E", "#", -1, 0), Note("C", "-", 2, 0), Note("A", "", 65, 0),
      [c |-> "P", len |-> 4, dots |-> 0], [c |-> "P", len |-> 0, dots |-> 0], [c |-> "P", len |-> -1, dots |-> 0],
      [c |-> "P", len |-> 2, dots |-> 1], [c |-> "P", len |-> 0, dots |-> 1], [c |-> "P", len |-> 65, dots |-> 0],
      [c |-> "N", n |-> 0, dots |-> 0, via |-> "lit"], [c |-> "N", n |-> 1, dots |-> 0, via |-> "lit"],
      [c |-> "N", n |-> 84, dots |-> 1, via |-> "lit"], [c |-> "N", n |-> 85, dots |-> 0, via |-> "lit"],
      Num("L", 1), Num("L", 64), Num("L", 3), Num("L", 0), Num("L", 65),
      Num("T", 32), Num("T", 255), Num("T", 31), Num("T", 256),
      Num("O", 0), Num("O", 6), Num("O", 7), [c |-> "<"], [c |-> ">"],
      [c |-> "M", m |-> "N"], [c |-> "M", m |-> "L"], [c |-> "M", m |-> "S"], [c |-> "M", m |-> "F"], [c |-> "M", m |-> "B"],
      [c |-> "M", m |-> "X"], [c |-> "bad", x |-> "H"], [c |-> "bad", x |-> "V5"] }

NoAct == [c |-> "init"]
Init == st = Voice0 /\ act = NoAct /\ out = Done(Voice0, <<>>)
Do(c) == LET r == Step(st, c) IN st' = r.st /\ act' = c /\ out' = r
Next == \E c \in Alphabet : Do(c)
Spec == Init /\ [][Next]_vars
View == st

TypeOK    == StateOK(st)
TonesInv  == TonesOK(out.tones)
TableInv  == TableOK
\* the statement's clamp: < and > never leave 0..6 and move by at most one octave; a malformed command changes nothing
OctaveStep == [][/\ (act'.c \in {"<", ">"} => (st'.oct - st.oct) \in {-1, 0, 1})
                 /\ (out'.err # 0 => st' = st /\ out'.tones = <<>>)
                 /\ (out'.err = 0 /\ act'.c \in {"note", "N", "P"} => st' = st)]_vars
\* note numbers of named notes: octave*12 + semitone + 1, within 1..84
NoteNumber == (act.c = "note" /\ out.err = 0) => out.tones[1].n \in 1..84

Emit == PrintT(<<"TRANSITION", ToJson([from |-> st, a |-> act', text |-> CmdText(act'), to |-> st', err |-> out'.err])>>)
=============================================================================
