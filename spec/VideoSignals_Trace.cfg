SPECIFICATION TSpec
CONSTANTS
  AsCoded = FALSE
INVARIANT TDone
CHECK_DEADLOCK FALSE
