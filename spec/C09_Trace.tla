----------------------------- MODULE C09_Trace -----------------------------
(* Trace validation for C09: every recorded evaluation / statement of the real
   interpreter is judged by the reference definitions of Strings.tla.
   Events:
     [op |-> "expr", x |-> tree, k |-> "s"|"n"|"err"|"internal"|"other", v |-> bytes | int | code]
     [op |-> "midset", t |-> bytes, args |-> <<trees>>, src |-> tree, self |-> BOOLEAN,
      k |-> "ok"|"err"|.., v |-> code, after |-> bytes]
     [op |-> "lset"|"rset", t, src, self, k, v, after]                        *)
EXTENDS Strings, TraceBase
VARIABLES l, viol

ExprV(e) ==
    LET r == Eval(e.x)
    IN  IF e.k \notin {"s", "n", "err"} THEN "outcome_kind"
        ELSE IF e.k = "err" THEN
            IF r.k = "e" THEN (IF e.v \in r.v THEN "ok" ELSE "error_code")
            ELSE IF e.v \in r.may THEN "ok" ELSE "error_spurious"
        ELSE IF r.k = "e" THEN "error_missing"
        ELSE IF r.k # e.k THEN "result_type"
        ELSE IF e.k = "s" THEN (IF Len(e.v) = Len(r.v) /\ e.v = r.v THEN "ok" ELSE "value")
        ELSE IF r.v[2] = 1 /\ r.v[1] = e.v THEN "ok" ELSE "value"

StmtV(e) ==
    LET src == Eval(e.src)
        r == IF e.op = "midset"
             THEN MidStmt(e.t, [i \in 1..Len(e.args) |-> Eval(e.args[i])], src, e.self)
             ELSE JustStmt(e.op, e.t, src)
    IN  IF e.k \notin {"ok", "err"} THEN "outcome_kind"
        ELSE IF Len(e.after) # Len(e.t) THEN "target_length_changed"
        ELSE IF e.k = "err" THEN
            IF r.must # {} THEN (IF e.v \in r.must \cup r.may THEN "ok" ELSE "error_code")
            ELSE IF e.v \in r.may THEN "ok" ELSE "error_spurious"
        ELSE IF r.must # {} THEN "error_missing"
        ELSE IF e.after \in r.vals THEN "ok" ELSE "value"

V(e) ==
    CASE e.op = "expr" -> ExprV(e)
      [] e.op \in {"midset", "lset", "rset"} -> StmtV(e)
      [] OTHER -> "unknown_op"

INSTANCE OracleTrace WITH Verdict <- V
=============================================================================
