SPECIFICATION Spec
CONSTANTS
  RingLen = 16
  Keys <- Keys26
  MaxSteps = 99
  MaxPress = 17
  MaxPokes = 1
  MaxRead = 1
  Serial = TRUE
  PokeOps = {"pokehead", "poketail"}
  PokeD = {0, 1, 15}
VIEW View
INVARIANT TypeInv
INVARIANT RingViewInv
INVARIANT FifoInv
ACTION_CONSTRAINT Emit
CHECK_DEADLOCK FALSE
