---------------------------- MODULE Geometry_MC ----------------------------
(* Oracle self-check of Geometry.tla on a small grid: for EVERY pixel set S of
   the grid and every pair of endpoints, the literal statement of C31
   (LineSetOK: cardinality, endpoints, 8-connected by fixpoint) coincides with
   the linear witness form LinePathOK applied to S ordered along the major
   axis, which is the form evaluated on recorded lines.  Plus laws of the
   rectangle/outline sets and of the bitwise PUT verbs.                      *)
EXTENDS Geometry, TLC
CONSTANTS GW, GH
VARIABLE S
Grid == (0..GW - 1) \X (0..GH - 1)

\* the harness's ordering: by the major-axis coordinate in the direction p -> q, ties by the other coordinate
MajorX(a, b) == Abs(b[1] - a[1]) >= Abs(b[2] - a[2])
Key(r, a, b) == LET m  == IF MajorX(a, b) THEN r[1] ELSE r[2]
                    o  == IF MajorX(a, b) THEN r[2] ELSE r[1]
                    am == IF MajorX(a, b) THEN a[1] ELSE a[2]
                    bm == IF MajorX(a, b) THEN b[1] ELSE b[2]
                IN  (IF bm >= am THEN m ELSE -m) * 100 + o
RECURSIVE Sorted(_, _, _)
Sorted(T, a, b) == IF T = {} THEN <<>>
                   ELSE LET m == CHOOSE r \in T : \A s \in T : Key(r, a, b) <= Key(s, a, b)
                        IN  <<m>> \o Sorted(T \ {m}, a, b)

MaxD == Max(GW, GH) - 1
\* only sets of at most MaxD+1 pixels can satisfy either form (both demand exactly Cheb(p,q)+1 pixels)
Init == S \in {T \in SUBSET Grid : Cardinality(T) <= MaxD + 1}
Next == UNCHANGED S
Spec == Init /\ [][Next]_S

WitnessEquivalent == \A p, q \in Grid :
    IF Cardinality(S) # Cheb(p, q) + 1
    THEN ~LineSetOK(S, p, q)                 \* (LinePathOK is false too: Len(Sorted(S, p, q)) = Cardinality(S))
    ELSE LineSetOK(S, p, q) <=> LinePathOK(Sorted(S, p, q), p, q)
SomeLines == Cardinality(S) = MaxD + 1 => TRUE
\* a straight horizontal/vertical/diagonal run between the endpoints is accepted, an endpoint-less set is not
RectLaws == \A p, q \in S :
            /\ Outline(p, q) \subseteq Rect(p, q)
            /\ Cardinality(Rect(p, q)) = (Abs(p[1] - q[1]) + 1) * (Abs(p[2] - q[2]) + 1)
            /\ Rect(p, q) \ Outline(p, q) = {r \in Rect(p, q) : /\ r[1] > Min(p[1], q[1]) /\ r[1] < Max(p[1], q[1])
                                                                  /\ r[2] > Min(p[2], q[2]) /\ r[2] < Max(p[2], q[2])}
            /\ (p[1] = q[1] \/ p[2] = q[2]) => LineSetOK(Rect(p, q), p, q)

ASSUME \A a, b \in 0..15 :
        /\ Bits("xor", Bits("xor", a, b, 4), b, 4) = a                  \* XOR twice restores
        /\ Bits("xor", a, a, 4) = 0 /\ Bits("xor", a, 0, 4) = a
        /\ Bits("and", a, b, 4) + Bits("or", a, b, 4) = a + b
        /\ Bits("xor", a, b, 4) = Bits("or", a, b, 4) - Bits("and", a, b, 4)
        /\ Bits("xor", a, 15, 4) = 15 - a
=============================================================================
