SPECIFICATION Spec
CONSTANTS
  AlphaName = "a12"
  MaxLen = 3
INVARIANT Laws
INVARIANT Emit
