------------------------------ MODULE Int16_MC ------------------------------
(* Oracle self-check on reduced width W: every stated law of C02 and the
   agreement of the bit-recursive with the arithmetic definitions, for ALL
   operand pairs in the accepted range (TLC enumerates them as states).     *)
EXTENDS Int16, TLC
CONSTANT W
VARIABLES a, b
Rng == MinS(W)..MaxU(W)
Init == a \in Rng /\ b \in Rng
Next == UNCHANGED <<a, b>>
Spec == Init /\ [][Next]_<<a, b>>

DivLaw == (InS(W, a) /\ InS(W, b) /\ b # 0 /\ InS(W, TDiv(a, b))) =>
            /\ a = b * TDiv(a, b) + TMod(a, b)
            /\ Sgn(TMod(a, b)) \in {0, Sgn(a)}
            /\ Abs(TMod(a, b)) < Abs(b)
            /\ Abs(TDiv(a, b)) * Abs(b) <= Abs(a)           \* truncation toward zero
            /\ (Abs(TDiv(a, b)) + 1) * Abs(b) > Abs(a)
OverflowOnlyCorner == (InS(W, a) /\ InS(W, b) /\ b # 0 /\ ~InS(W, TDiv(a, b))) => (a = MinS(W) /\ b = -1)
BitAgree == /\ U(W, BitOp(W, "and", a, b)) = AndA(U(W, a), U(W, b), W)
            /\ U(W, BitOp(W, "or", a, b))  = OrA(W, U(W, a), U(W, b))
            /\ U(W, BitOp(W, "xor", a, b)) = XorA(W, U(W, a), U(W, b))
            /\ BitOp(W, "eqv", a, b) = BitNot(W, BitOp(W, "xor", a, b))
            /\ BitOp(W, "imp", a, b) = BitOp(W, "or", BitNot(W, a), b)
            /\ BitNot(W, a) = -S(W, U(W, a)) - 1
            /\ InS(W, BitOp(W, "and", a, b)) /\ InS(W, BitNot(W, a))
DeMorgan == BitNot(W, BitOp(W, "and", a, b)) = BitOp(W, "or", BitNot(W, a), BitNot(W, b))
=============================================================================
