SPECIFICATION Spec
CONSTANTS
  AsCoded = FALSE
  H = 3
  W = 2
  D = 4
INVARIANT DisplayEqualsEmulator
INVARIANT AllOpsEnabled
CHECK_DEADLOCK FALSE
