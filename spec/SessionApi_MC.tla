---------------------------- MODULE SessionApi_MC ----------------------------
(* Oracle self-check of SessionApi.tla on reduced widths (no implementation):
   (a) NearOK (the "within one unit of the type's precision" relation used for
       singles) accepts exactly the results a brute-force search over ALL
       representable values allows: x itself when representable, otherwise its
       two neighbours - including the carry into the next binade;
   (b) EqRat(m, j, N, d) is m / 2^j = N / 10^d.                                *)
EXTENDS SessionApi
VARIABLES fam, a, b, c, d, f
vars == <<fam, a, b, c, d, f>>
HB == 3
LB == 3
\* family 1: x = (a * 2^LB + b) * 2^0 ; r = (c * 2^LB + d) * 2^f  (a, c in 2^(HB-1)..2^HB-1 ; f in -1..1)
\* family 2: m = a * 8 + b, j = c, N = d * 25 + f..., see below
Init == \/ (fam = 1 /\ a \in Pow2(HB - 1)..(Pow2(HB) - 1) /\ b \in 0..(Pow2(LB) - 1)
                     /\ c \in Pow2(HB - 1)..(Pow2(HB) - 1) /\ d \in 0..(Pow2(LB) - 1) /\ f \in -1..1)
        \/ (fam = 2 /\ a \in 0..40 /\ b \in 0..4 /\ c \in 0..125 /\ d \in 0..3 /\ f = 0)
Next == UNCHANGED vars
Spec == Init /\ [][Next]_vars

\* all values in doubled units so that f = -1 stays integral
ValX == (a * Pow2(LB) + b) * 2
ValR == (c * Pow2(LB) + d) * Pow2(f + 1)
Grid == {h * Pow2(LB) * Pow2(g + 1) : h \in Pow2(HB - 1)..(Pow2(HB) - 1), g \in -1..1}
Allowed(x) == IF x \in Grid THEN {x}
              ELSE {CHOOSE g \in Grid : g < x /\ \A k \in Grid : k < x => k <= g,
                    CHOOSE g \in Grid : g > x /\ \A k \in Grid : k > x => k >= g}
NearLaw == fam = 1 => (NearOK(HB, a, b, 0, c, d, f) <=> (d = 0 /\ ValR \in Allowed(ValX)))
RatLaw  == fam = 2 => (EqRat(a, b, c, d) <=> (a * (10 ^ d) = c * Pow2(b)))
=============================================================================
