------------------------------- MODULE Paint -------------------------------
(* Solid PAINT (property C32).  The viewport content is a grid of attributes:
   a sequence of rows (top first), each a sequence of attributes; the cell
   <<x, y>> (0-based, viewport coordinates) holds g[y+1][x+1].
   Region(g, border, seed) is the LEAST set containing the seed (if it is
   inside the viewport and not of the border attribute) and closed under
   stepping to a 4-neighbour inside the viewport that is not of the border
   attribute - computed by iterating the one-step expansion to its fixpoint. *)
EXTENDS Integers, FiniteSets, Sequences

GW(g) == Len(g[1])
GH(g) == Len(g)
Cells(g) == (0..GW(g) - 1) \X (0..GH(g) - 1)
At(g, p) == g[p[2] + 1][p[1] + 1]
Open(g, border, p) == p \in Cells(g) /\ At(g, p) # border
Nbr4(p) == {<<p[1] + 1, p[2]>>, <<p[1] - 1, p[2]>>, <<p[1], p[2] + 1>>, <<p[1], p[2] - 1>>}

RECURSIVE Grow(_, _, _, _)
\* R: reached so far, F: frontier (the cells added in the last round)
Grow(g, border, R, F) ==
    IF F = {} THEN R
    ELSE LET N == {q \in UNION {Nbr4(f) : f \in F} : Open(g, border, q)} \ R
         IN  Grow(g, border, R \cup N, N)
Region(g, border, seed) == IF Open(g, border, seed) THEN Grow(g, border, {seed}, {seed}) ELSE {}

Changed(g, after) == {p \in Cells(g) : At(after, p) # At(g, p)}

\* the property, clause by clause (g: before, after: after PAINT seed, fill, border)
OnlyRegion(g, after, border, seed) == Changed(g, after) \subseteq Region(g, border, seed)
ToFill(g, after, fill) == \A p \in Changed(g, after) : At(after, p) = fill
NoFillInside(g, border, seed, fill) == \A p \in Region(g, border, seed) : At(g, p) # fill
Complete(g, after, border, seed, fill) ==
    NoFillInside(g, border, seed, fill) => Changed(g, after) = Region(g, border, seed)
PaintOK(g, after, border, seed, fill) ==
    /\ OnlyRegion(g, after, border, seed)
    /\ ToFill(g, after, fill)
    /\ Complete(g, after, border, seed, fill)
=============================================================================
