SPECIFICATION Spec
CONSTANTS
  RingLen = 4
  Keys <- Keys3
  MaxSteps = 20
  MaxPress = 99
  MaxPokes = 99
  MaxRead = 3
  Serial = FALSE
  PokeOps = {"pokehead", "poketail"}
  PokeD = {0, 1, 2, 3}
VIEW View
INVARIANT TypeInv
INVARIANT RingViewInv
INVARIANT FifoInv
PROPERTY InkeyAgrees
PROPERTY DropWhenFull
PROPERTY StoreBelowCap
PROPERTY ClearEmpties
PROPERTY ClearPoke
CHECK_DEADLOCK FALSE
