----------------------------- MODULE Arrays_MC -----------------------------
(* Bounded design check of Arrays.tla + transition emitter for behaviour replay.
   The implementation-shaped layer (flat buffers, index arithmetic, OPTION BASE
   bookkeeping as coded) takes the steps; TLC checks on EVERY transition that
   the step refines the reference layer (demanded outcome, allowed post-state,
   value read), and in every reachable state that buffers are packed and the
   abstract state is well-formed.  The state space is finite without a depth
   bound: at most MaxSets element writes per history, shapes from MCShapes.   *)
EXTENDS Arrays, TLC, Json
CONSTANTS MaxDimsA,    \* array "A" takes 1..MaxDimsA axes (other names: 1 axis)
          MaxBound,    \* declared upper bounds 0..MaxBound
          MaxSets      \* element writes per history
VARIABLES ist, act, nsets
vars == <<ist, act, nsets>>

RECURSIVE Tuples(_, _)
Tuples(S, n) == IF n = 0 THEN {<<>>} ELSE {<<x>> \o t : x \in S, t \in Tuples(S, n - 1)}
NDims(n) == IF n = "A" THEN 1..MaxDimsA ELSE {1}
ShapesA == UNION {Tuples(0..MaxBound, k) : k \in 1..MaxDimsA}
ShapesB == Tuples(0..MaxBound, 1)
Shapes(n) == IF n = "A" THEN ShapesA ELSE ShapesB
AutoProbes == [k \in 1..MaxDimsA |-> Tuples({-1, 0, 1, Auto, Auto + 1}, k)]
RECURSIVE Prod(_)
Prod(ss) == IF ss = <<>> THEN {<<>>} ELSE {<<x>> \o t : x \in Head(ss), t \in Prod(Tail(ss))}
\* values worth trying on an axis lo..d: -1, just below, just above, and the in-bounds values near both ends
AxisVals(lo, d) == {-1, lo - 1, d + 1} \cup {x \in lo..d : x <= lo + MaxBound \/ x >= d - 1}

\* subscript tuples worth trying on array n in state s: (near-)every tuple in bounds and every such tuple with
\* exactly one axis outside, plus wrong-arity tuples
Probe(s, n) ==
    LET d  == s.dims[n]
        lo == Lo(s.base)
    IN  IF d = <<>>
        THEN UNION {AutoProbes[k] : k \in NDims(n)}
        ELSE LET k == Len(d)
                 near == {t \in Prod([i \in 1..k |-> AxisVals(lo, d[i])]) :
                            Cardinality({i \in 1..k : t[i] < lo \/ t[i] > d[i]}) <= 1}
             IN  near \cup {[i \in 1..(k + 1) |-> lo], [i \in 1..(k + 1) |-> -1]}
                      \cup (IF k > 1 THEN {[i \in 1..(k - 1) |-> lo], [i \in 1..(k - 1) |-> d[i] + 1]} ELSE {})

\* DIM: every shape for an undimensioned array, one redimension attempt otherwise (the shape is then irrelevant)
DimActs(s, n) == {[op |-> "dim", name |-> n, b |-> b] : b \in (IF s.dims[n] = <<>> THEN Shapes(n) ELSE {<<1>>})}
Actions(s, ns) ==
    UNION {DimActs(s, n) : n \in Names}
    \cup {[op |-> "base", b |-> b] : b \in {0, 1}}
    \cup {[op |-> "erase", name |-> n] : n \in Names}
    \cup UNION {{[op |-> "get", name |-> n, idx |-> t] : t \in Probe(s, n)} : n \in Names}
    \cup (IF ns < MaxSets THEN UNION {{[op |-> "set", name |-> n, idx |-> t, v |-> ns + 1] : t \in Probe(s, n)} : n \in Names}
          ELSE {})
    \cup {[op |-> "clear"]}

Init == ist = IInit /\ act = [op |-> "init"] /\ nsets = 0
Do(a) == LET r == IApply(ist, a)
         IN  /\ act' = a
             /\ ist' = r.st
             /\ nsets' = IF a.op = "clear" THEN 0 ELSE IF a.op = "set" /\ r.ok THEN nsets + 1 ELSE nsets
Next == \E a \in Actions(ist, nsets) : Do(a)
Spec == Init /\ [][Next]_vars

View == <<ist, nsets>>
PackedInv == Packed(ist)
DomainInv == DomainOK(Abs(ist))
BaseInv   == (\E n \in Names : ist.dims[n] # <<>>) => ist.base # Unset      \* index() never sees an unset base
RefinesProp == [][Refines(ist, act')]_vars

\* emit every transition once (each view-state is expanded exactly once); states are identified compactly
\* (base, bydim, bounds, non-zero buffer cells, writes so far)
Key(s, ns) == [base |-> s.base, bydim |-> s.bydim, dims |-> s.dims, ns |-> ns,
               nz |-> [n \in Names |-> {<<k, s.buf[n][k]>> : k \in {j \in DOMAIN s.buf[n] : s.buf[n][j] # 0}}]]
Emit == PrintT(<<"TRANSITION", ToJson([from |-> Key(ist, nsets), a |-> act', must |-> Must(Abs(ist), act'),
                                       to |-> Key(ist', nsets')])>>)
=============================================================================
