SPECIFICATION Spec
CONSTANTS
  Names = {"A", "B"}
  Auto = 2
  MaxCells = 100000
  MaxDimsA = 3
  MaxBound = 2
  MaxSets = 1
VIEW View
INVARIANT PackedInv
INVARIANT DomainInv
INVARIANT BaseInv
PROPERTY RefinesProp
