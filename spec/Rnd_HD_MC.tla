------------------------------ MODULE Rnd_HD_MC ------------------------------
(* Self-check of the oracle: on small moduli Lb^2 (16, 64, 256) and for EVERY
   multiplier a and increment c, the generator x -> a x + c (computed with the
   same limb arithmetic the 24-bit generator uses) has full period exactly when
   the Hull-Dobell conditions HD(a, c) hold; and the limb product equals the
   native product.                                                          *)
EXTENDS Rnd, TLC
CONSTANT Lb
VARIABLES a, c, seed, n, early
vars == <<a, c, seed, n, early>>
Mod == Lb * Lb

Init == a \in 0..(Mod - 1) /\ c \in 0..(Mod - 1) /\ seed = 0 /\ n = 0 /\ early = FALSE
Step == /\ n < Mod
        /\ seed' = NextG(Lb, a, c, seed)
        /\ n' = n + 1
        /\ early' = (early \/ (seed' = 0 /\ n' < Mod))
        /\ UNCHANGED <<a, c>>
Spec == Init /\ [][Step]_vars

LimbsExact  == NextG(Lb, a, c, seed) = (a * seed + c) % Mod
HDiffPeriod == (n = Mod) => (HD(a, c) <=> (seed = 0 /\ ~early))
=============================================================================
