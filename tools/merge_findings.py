#!/venv/bin/python
"""Merge known_findings.d/*.json into KNOWN_FINDINGS.json (one committed file; never written by checks)."""
import json, os, glob
H = os.path.dirname(os.path.dirname(os.path.abspath(__file__)))
main = json.load(open(os.path.join(H, 'KNOWN_FINDINGS.json')))
have = {(f['property'], f['id']) for f in main['findings']}
for fn in sorted(glob.glob(os.path.join(H, 'known_findings.d', '*.json'))):
    for f in json.load(open(fn)).get('findings', []):
        k = (f['property'], f['id'])
        if k in have:
            main['findings'] = [g for g in main['findings'] if (g['property'], g['id']) != k]
        main['findings'].append(f)
        have.add(k)
main['findings'].sort(key=lambda f: (f['property'], f.get('status') != 'open', f['id']))
json.dump(main, open(os.path.join(H, 'KNOWN_FINDINGS.json'), 'w'), indent=1)
print(len(main['findings']), 'findings;', sum(1 for f in main['findings'] if f.get('status') == 'open'), 'open')
