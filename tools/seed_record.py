#!/usr/bin/env python3
"""usage: tools/seed_record.py <dir under seeded/> <result> <notes>   record the evaluation of a seeded change in its meta.json"""
import json, sys, os
H = os.path.dirname(os.path.dirname(os.path.abspath(__file__)))
d, result, notes = sys.argv[1], sys.argv[2], sys.argv[3]
p = os.path.join(H, 'seeded', d, 'meta.json')
m = json.load(open(p))
m.setdefault('author', 'fresh sub-agent that saw only the property text and a scratch worktree (round 2: asked for an error-path / history / boundary change)')
m['evaluation'] = {'demo_clean_exit': 0, 'demo_patched_exit': 1, 'check': 'tools/seed_eval.sh %s seeded/%s' % (d[:3], d), 'result': result, 'notes': notes}
json.dump(m, open(p, 'w'), indent=1)
