#!/venv/bin/python
"""Regenerate /verif/MANIFEST.json from the META records of vf/props/Cxx.py (one source of truth)."""
import os, sys, json, importlib, subprocess
HERE = os.path.dirname(os.path.dirname(os.path.abspath(__file__)))
sys.path.insert(0, HERE)
props = [json.loads(l) for l in open(os.path.join(HERE, 'properties.jsonl'))]
NA = json.load(open(os.path.join(HERE, 'tools', 'not_applicable.json')))
# only checks that the integrator has run, soaked and adjudicated on the current tree are registered
READY = set(json.load(open(os.path.join(HERE, 'tools', 'ready.json'))))
checks, na = [], []
for p in props:
    pid = p['id']
    path = os.path.join(HERE, 'vf', 'props', pid + '.py')
    mod = None
    if os.path.exists(path) and pid in READY:
        mod = importlib.import_module('vf.props.' + pid)
    if mod is None or not getattr(mod, 'META', None) or pid in NA:
        na.append({'property_id': pid, 'reason': NA.get(pid, 'check not built yet in this round (specification work in progress); not claimed')})
        continue
    m = mod.META
    checks.append({
        'property_id': pid,
        'quick_cmd': './check %s --tier quick' % pid,
        'thorough_cmd': './check %s --tier thorough' % pid,
        'evidence_file': '/verif/evidence/%s.json' % pid,
        'replay_cmd_template': './check %s --replay {path}' % pid,
        'engine': 'tlc',
        'level_claimed': {'category': getattr(mod, 'LEVEL', 'exploration'), 'text': m['text'],
                          'design_ref': m.get('design_ref', 'DESIGN.md section 9 / %s' % pid)},
        'level_note': m['note'],
        'technique': m['technique'],
    })
hooks = subprocess.run(['git', '-C', '/repo', 'log', '--format=%H %s', '--grep=^verif hook'], capture_output=True, text=True).stdout.split('\n')
man = {
    'version': 1,
    'setup_cmd': 'sh tools/setup.sh',
    'hooks': {
        'guard': 'PCBASIC_VERIF',
        'enable': 'environment variable PCBASIC_VERIF=1 (set by ./check); pure Python, no build step: checks import /repo working tree with PYTHONPATH',
        'baseline_off_cmd': 'cd /repo && env -u PCBASIC_VERIF /venv/bin/python -m pytest -ra -q -p no:cacheprovider --timeout=900 --continue-on-collection-errors',
        'source_commits': [h.split()[0] for h in hooks if h.strip()],
        'add_only': True,
    },
    'engines': [{'name': 'tlc', 'path': '/verif/spec', 'serves_properties': [c['property_id'] for c in checks],
                 'kind_free_text': 'explicit TLA+ specifications checked with TLC 1.8 (exhaustive bounded model checking of stateful components; trace validation of recorded implementation behaviour; replay of TLC-generated behaviours into the real interpreter)'}],
    'checks': checks,
    'not_applicable': na,
    'notes': 'See DESIGN.md. Known deviations of the code from the literal statements: KNOWN_FINDINGS.json. Seeded breaking changes: seeded/.',
}
json.dump(man, open(os.path.join(HERE, 'MANIFEST.json'), 'w'), indent=1)
print('checks:', len(checks), 'not_applicable:', len(na))
