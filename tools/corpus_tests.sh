#!/bin/sh
# run the repository's GW-BASIC corpus (tests/basic, 571 programs with recorded model output) in a scratch worktree of /repo HEAD
# and compare the set of failing tests with the baseline of the pinned commit (tools/corpus_baseline_failures.txt).
# Some corpus tests depend on timing and on the order of the run (music queue, keyboard-driven tests): tests whose status differs
# from the baseline in the full run are run once more on their own before the sets are compared.
WT=$(mktemp -d /var/tmp/corpus_XXXXXX); rmdir $WT
git -C /repo worktree add -q --detach $WT HEAD || exit 2
strip() { sed 's/\x1b\[[0-9;]*m//g' "$1" | grep -E "(newly failed|crashed|exception)\.$" | sed -E 's/Running test [0-9]+\/[0-9]+ \[[0-9.]+s\] //' | sort; }
(cd $WT && timeout 7000 /venv/bin/python -m tests --all > $WT.log 2>&1)
strip $WT.log > $WT.fail
DIFF=$(diff /verif/tools/corpus_baseline_failures.txt $WT.fail | grep '^[<>]' | sed -E 's/^[<>] //; s/ \.\. .*//' | sort -u)
if [ -n "$DIFF" ]; then
  (cd $WT && rm -rf tests/basic/*/*/output && timeout 3000 /venv/bin/python -m tests $DIFF > $WT.log2 2>&1)
  strip $WT.log2 > $WT.fail2
  # final failing set = full run, with the re-run tests replaced by their status when run alone
  { grep -v -F "$(echo "$DIFF" | sed 's/$/ ../')" $WT.fail; cat $WT.fail2; } | sort -u > $WT.final
else
  cp $WT.fail $WT.final
fi
git -C /repo worktree remove --force $WT
if diff /verif/tools/corpus_baseline_failures.txt $WT.final; then echo "corpus: same failing set as the pinned commit"; rm -f $WT.log $WT.log2 $WT.fail $WT.fail2 $WT.final; exit 0; else echo "corpus: DIFFERENT (logs $WT.log $WT.log2)"; exit 1; fi
