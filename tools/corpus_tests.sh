#!/bin/sh
# run the repository's GW-BASIC corpus (tests/basic, 571 programs with recorded model output) in a scratch worktree of /repo HEAD
# and compare the set of failing tests with the baseline of the pinned commit (tools/corpus_baseline_failures.txt)
WT=$(mktemp -d /var/tmp/corpus_XXXXXX); rmdir $WT
git -C /repo worktree add -q --detach $WT HEAD || exit 2
(cd $WT && timeout 7000 /venv/bin/python -m tests --all > $WT.log 2>&1)
sed 's/\x1b\[[0-9;]*m//g' $WT.log | grep -E "(newly failed|crashed|exception)\.$" | sed -E 's/Running test [0-9]+\/[0-9]+ \[[0-9.]+s\] //' | sort > $WT.fail
git -C /repo worktree remove --force $WT
if diff /verif/tools/corpus_baseline_failures.txt $WT.fail; then echo "corpus: same failing set as the pinned commit"; rm -f $WT.log $WT.fail; exit 0; else echo "corpus: DIFFERENT (log $WT.log)"; exit 1; fi
