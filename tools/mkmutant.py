#!/venv/bin/python
"""usage: mkmutant.py <name> <repo-relative file> <old> <new>  -> writes mutants/<name>.diff (git-apply format)"""
import sys, difflib, os
name, rel, old, new = sys.argv[1:5]
old = old.encode().decode('unicode_escape'); new = new.encode().decode('unicode_escape')
src = open(os.path.join('/repo', rel)).read()
assert src.count(old) == 1, 'pattern occurs %d times' % src.count(old)
dst = src.replace(old, new)
d = difflib.unified_diff(src.splitlines(True), dst.splitlines(True), 'a/' + rel, 'b/' + rel)
open(os.path.join(os.path.dirname(os.path.dirname(os.path.abspath(__file__))), 'mutants', name + '.diff'), 'w').write(''.join(d))
print('ok', name)
