#!/bin/sh
# run the repository's own suite with the guard OFF against a tree (default /repo); expect 252 passed
T="${1:-/repo}"
cd "$T" && env -u PCBASIC_VERIF timeout 1500 /venv/bin/python -m pytest -q -p no:cacheprovider --timeout=900 --continue-on-collection-errors 2>&1 | tail -1
