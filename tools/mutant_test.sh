#!/bin/sh
# usage: tools/mutant_test.sh <patch.diff> <ID> [<ID>...]   (env TIER=quick|thorough)
# Applies the patch to a scratch worktree of /repo (never to /repo itself), runs the named checks against
# it with evidence/replays redirected to a scratch dir, prints each check's exit status, removes everything.
PATCH="$(readlink -f "$1")"; shift
WT=$(mktemp -d /var/tmp/mut_XXXXXX); OUT=$(mktemp -d /var/tmp/mutout_XXXXXX)
rmdir "$WT"
git -C /repo worktree add -q --detach "$WT" HEAD || exit 2
if ! git -C "$WT" apply "$PATCH"; then echo "PATCH DOES NOT APPLY"; git -C /repo worktree remove --force "$WT"; exit 2; fi
for id in "$@"; do
  PCBASIC_REPO="$WT" VERIF_OUT="$OUT" timeout 3000 /verif/check "$id" --tier "${TIER:-quick}" > "$OUT/$id.log" 2>&1
  rc=$?
  echo "MUTANT $(basename "$(dirname "$PATCH")")/$(basename "$PATCH") check=$id exit=$rc $(grep -c '^  rejected' "$OUT/$id.log") rejected-lines; $(grep -m2 -E 'rejected|MACHINERY' "$OUT/$id.log" | cut -c1-300)"
done
git -C /repo worktree remove --force "$WT"; rm -rf "$OUT"
