#!/bin/sh
# usage: tools/seed_eval_all.sh <seed> [parallel]   re-evaluate every seeded change (seeded/*/) with the given check seed
S=${1:-1}; P=${2:-4}; LOG=/var/tmp/seed_eval_all_$S.log; : > $LOG
ls -d /verif/seeded/C* | xargs -P $P -I{} sh -c 'd={}; id=$(basename $d | cut -c1-3); mkdir -p /var/tmp/sea/$(basename $d); cp $d/patch.diff $d/demo.py /var/tmp/sea/$(basename $d)/; SEED='$S' timeout 3000 /verif/tools/seed_eval.sh $id /var/tmp/sea/$(basename $d) >> '$LOG' 2>&1'
rm -rf /var/tmp/sea
echo "missed: $(grep -c 'check exit=0' $LOG) of $(grep -c '^SEED' $LOG)"; grep 'check exit=0' $LOG | cut -c1-60
