#!/bin/sh
# offline setup: syntax/semantic check of every specification module, in parallel (nothing is compiled or fetched)
cd "$(dirname "$0")/../spec" || exit 1
mkdir -p ../evidence ../replays
LOG=$(mktemp -d /var/tmp/sany_XXXXXX)
ls *.tla | xargs -P 12 -I{} sh -c 'tla-sany "{}" > "'$LOG'/{}.log" 2>&1 || echo "{}" >> "'$LOG'/FAILED"'
if [ -s "$LOG/FAILED" ]; then
  echo "SANY FAILED for:"; cat "$LOG/FAILED"
  for f in $(cat "$LOG/FAILED"); do tail -15 "$LOG/$f.log"; done
  rm -rf "$LOG"; exit 1
fi
rm -rf "$LOG"
echo "setup ok: $(ls *.tla | wc -l) modules parsed"
