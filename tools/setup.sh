#!/bin/sh
# offline setup: syntax/semantic check of every specification module (nothing is compiled or fetched)
cd "$(dirname "$0")/../spec" || exit 1
fail=0
for f in *.tla; do
  if ! tla-sany "$f" > /tmp/sany_$$.log 2>&1; then echo "SANY FAILED: $f"; tail -20 /tmp/sany_$$.log; fail=1; fi
done
rm -f /tmp/sany_$$.log
mkdir -p ../evidence ../replays
exit $fail
