#!/bin/sh
# usage: tools/seed_eval.sh <Cxx> [dir]   evaluate a seeded change (dir default /tmp/seed_out/<Cxx>): confirm the demonstration
# (exit 0 on a clean checkout, exit 1 with the patch) and run the property's check against the patched tree.
ID=$1; D=${2:-/tmp/seed_out/$ID}
WT=$(mktemp -d /var/tmp/seedwt_XXXXXX); rmdir $WT; OUT=$(mktemp -d /var/tmp/seedout_XXXXXX)
git -C /repo worktree add -q --detach $WT HEAD || exit 2
(cd $OUT && PYTHONPATH=$WT timeout 600 /venv/bin/python $D/demo.py > $OUT/demo_clean.log 2>&1); c0=$?
if ! git -C $WT apply $D/patch.diff; then echo "SEED $ID: PATCH DOES NOT APPLY"; git -C /repo worktree remove --force $WT; exit 2; fi
(cd $OUT && PYTHONPATH=$WT timeout 600 /venv/bin/python $D/demo.py > $OUT/demo_patched.log 2>&1); c1=$?
PCBASIC_REPO=$WT VERIF_OUT=$OUT timeout 3000 /verif/check $ID --tier ${TIER:-quick} --seed ${SEED:-0} > $OUT/check.log 2>&1; rc=$?
echo "SEED $ID [$(basename $D) seed ${SEED:-0}]: demo clean=$c0 patched=$c1 ; check exit=$rc ; $(grep -c '^  rejected' $OUT/check.log) rejected lines; $(grep -m1 -E 'rejected|MACHINERY|KNOWN' $OUT/check.log | cut -c1-220)"
cp $OUT/check.log $D/check_${TIER:-quick}.log 2>/dev/null || true
git -C /repo worktree remove --force $WT; rm -rf $OUT
