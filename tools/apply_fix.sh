#!/bin/sh
# usage: tools/apply_fix.sh <name> ...   applies proposed_fixes/<name>.diff to /repo as one "fix:" commit each
for n in "$@"; do
  if git -C /repo apply --check /verif/proposed_fixes/$n.diff 2>/dev/null; then
    git -C /repo apply /verif/proposed_fixes/$n.diff && git -C /repo commit -qam "$(cat /verif/proposed_fixes/$n.msg)" && \
      mkdir -p /verif/applied_fixes && mv /verif/proposed_fixes/$n.diff /verif/proposed_fixes/$n.msg /verif/applied_fixes/ && \
      echo "applied $n -> $(git -C /repo log --format=%h -1)"
  else
    echo "DOES NOT APPLY: $n"
  fi
done
